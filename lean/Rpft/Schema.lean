/-
M2 (part 1) — row schemas, row values, the tree that `RowParser.parse_row` builds while it
walks the columns, and the CPython / pydantic primitives the row parser relies on
(`str(int)`, `int(str)`, `str(bool)`, `float(str)` on a conservative grammar).

rowparser.py 13-113 (ParserModel remap hooks, type predicates, `is_default_value`,
`str_to_bool`, `get_field_name`).  Core Lean only (compiled into the driver).
-/
import Rpft.Cell
namespace Rpft.Row
open Rpft

/-- What `CellParser.parse` returns: a string or (nested) lists of strings.  The cell
syntax yields at most two levels; the elements of a `*` column are one level less. -/
inductive PV where
  | atom (s : Str)
  | list (xs : List PV)
  deriving Repr, Inhabited

/-- A row value (instance of a row model).  `float` carries the text `repr(x)` — floats are
never computed with, only printed and read back (abstract codec). -/
inductive Val where
  | str (s : Str)
  | int (i : Int)
  | float (repr : Str)
  | bool (b : Bool)
  | any (xs : List PV)                 -- field of type `list` (untyped)
  | list (xs : List Val)               -- field of type `List[T]`
  | model (fs : List (Str × Val))      -- sub-model: field name ↦ value, declaration order
  deriving Repr, Inhabited


/-! ### decidable equality (the deriving handler does not cover nested inductives) -/

mutual
def PV.beq : PV → PV → Bool
  | .atom a, .atom b => decide (a = b)
  | .list xs, .list ys => PV.beqList xs ys
  | _, _ => false
def PV.beqList : List PV → List PV → Bool
  | [], [] => true
  | x :: xs, y :: ys => PV.beq x y && PV.beqList xs ys
  | _, _ => false
end

mutual
theorem PV.beq_iff : ∀ a b : PV, PV.beq a b = true ↔ a = b
  | .atom a, .atom b => by simp [PV.beq]
  | .list xs, .list ys => by simp [PV.beq, PV.beqList_iff xs ys]
  | .atom _, .list _ => by simp [PV.beq]
  | .list _, .atom _ => by simp [PV.beq]
theorem PV.beqList_iff : ∀ xs ys : List PV, PV.beqList xs ys = true ↔ xs = ys
  | [], [] => by simp [PV.beqList]
  | x :: xs, y :: ys => by simp [PV.beqList, PV.beq_iff x y, PV.beqList_iff xs ys]
  | [], _ :: _ => by simp [PV.beqList]
  | _ :: _, [] => by simp [PV.beqList]
end

instance : DecidableEq PV := fun a b =>
  if h : PV.beq a b = true then isTrue ((PV.beq_iff a b).mp h)
  else isFalse (fun e => h ((PV.beq_iff a b).mpr e))

mutual
def Val.beq : Val → Val → Bool
  | .str a, .str b => decide (a = b)
  | .int a, .int b => decide (a = b)
  | .float a, .float b => decide (a = b)
  | .bool a, .bool b => decide (a = b)
  | .any a, .any b => PV.beqList a b
  | .list xs, .list ys => Val.beqList xs ys
  | .model xs, .model ys => Val.beqFields xs ys
  | _, _ => false
def Val.beqList : List Val → List Val → Bool
  | [], [] => true
  | x :: xs, y :: ys => Val.beq x y && Val.beqList xs ys
  | _, _ => false
def Val.beqFields : List (Str × Val) → List (Str × Val) → Bool
  | [], [] => true
  | (k, x) :: xs, (k', y) :: ys => decide (k = k') && Val.beq x y && Val.beqFields xs ys
  | _, _ => false
end

mutual
theorem Val.beq_iff : ∀ a b : Val, Val.beq a b = true ↔ a = b
  | .str a, b => by cases b <;> simp [Val.beq]
  | .int a, b => by cases b <;> simp [Val.beq]
  | .float a, b => by cases b <;> simp [Val.beq]
  | .bool a, b => by cases b <;> simp [Val.beq]
  | .any a, b => by cases b <;> simp [Val.beq, PV.beqList_iff]
  | .list xs, b => by
    cases b <;> simp [Val.beq]
    exact Val.beqList_iff xs _
  | .model xs, b => by
    cases b <;> simp [Val.beq]
    exact Val.beqFields_iff xs _
theorem Val.beqList_iff : ∀ xs ys : List Val, Val.beqList xs ys = true ↔ xs = ys
  | [], [] => by simp [Val.beqList]
  | x :: xs, y :: ys => by simp [Val.beqList, Val.beq_iff x y, Val.beqList_iff xs ys]
  | [], _ :: _ => by simp [Val.beqList]
  | _ :: _, [] => by simp [Val.beqList]
theorem Val.beqFields_iff : ∀ xs ys : List (Str × Val), Val.beqFields xs ys = true ↔ xs = ys
  | [], [] => by simp [Val.beqFields]
  | (k, x) :: xs, (k', y) :: ys => by
    simp [Val.beqFields, Val.beq_iff x y, Val.beqFields_iff xs ys, and_assoc]
  | [], _ :: _ => by simp [Val.beqFields]
  | _ :: _, [] => by simp [Val.beqFields]
end

instance : DecidableEq Val := fun a b =>
  if h : Val.beq a b = true then isTrue ((Val.beq_iff a b).mp h)
  else isFalse (fun e => h ((Val.beq_iff a b).mpr e))

/-- Field types of a `ParserModel`.  A model carries its two remap dictionaries
(`header_name_to_field_name`, `field_name_to_header_name`; identity outside the table). -/
inductive Ty where
  | str | int | float | bool
  | anyList
  | list (t : Ty)
  | model (fs : List (Str × Ty × Option Val)) (h2f f2h : List (Str × Str))
  deriving Repr, Inhabited

abbrev Field := Str × Ty × Option Val
def Field.name (f : Field) : Str := f.1
def Field.ty (f : Field) : Ty := f.2.1
def Field.dflt (f : Field) : Option Val := f.2.2

/-- Top-level schema: the row model plus `header_name_to_field_name_with_context`:
`ctxBasic` is the context-free table; `ctxMain = (header, typeColumn, table)` sends
`header` to `table[row[typeColumn]]` (FlowRowModel: `message_text` ↦ main argument of
the row type). -/
structure Schema where
  top : Ty
  ctxBasic : List (Str × Str) := []
  ctxMain : Option (Str × Str × List (Str × Str)) := none
  deriving Repr, Inhabited

/-- Error classes of the real code (exception type / failed assertion), coarse. -/
inductive Err where
  | template          -- cell contains `{`: Jinja would run (outside the model)
  | noField           -- ValueError "Field … doesn't exist in target type"
  | assertion         -- a failed `assert` (index contiguity, not a model, not a basic type)
  | badIndex          -- int(field_name) failed / IndexError
  | keyError          -- row_type_to_main_arg[row["type"]]
  | convert           -- int()/float() of a non-number, str() of a list
  | validation        -- pydantic: missing required field, None for a field
  | tooManyPositional -- model_fields[i] IndexError
  | duplicateKey      -- RowParserError in write_to_output_dict
  | tooDeep           -- join_from_lists nesting
  | illTyped          -- value does not fit the schema (cannot happen for pydantic instances)
  deriving Repr, DecidableEq, Inhabited

/-- The structure under construction in `self.output`: dicts, lists, converted leaves and
the `None` placeholders of `find_entry`. Dicts are insertion ordered association lists. -/
inductive Tree where
  | none
  | str (s : Str)
  | int (i : Int)
  | float (s : Str)
  | bool (b : Bool)
  | list (xs : List Tree)
  | dict (kvs : List (Str × Tree))
  deriving Repr, Inhabited

def Tree.isNone : Tree → Bool
  | .none => true
  | _ => false

/-! ### association lists with Python `dict` semantics -/

def alookup {α : Type} (k : Str) : List (Str × α) → Option α
  | [] => none
  | (k', v) :: rest => if k' = k then some v else alookup k rest

/-- `d[k] = v`: replace in place when present, append otherwise. -/
def aset {α : Type} (k : Str) (v : α) : List (Str × α) → List (Str × α)
  | [] => [(k, v)]
  | (k', v') :: rest => if k' = k then (k, v) :: rest else (k', v') :: aset k v rest

/-- `table.get(k, k)` -/
def remap (table : List (Str × Str)) (k : Str) : Str := (alookup k table).getD k

/-! ### CPython primitives -/

def pyTrue : Str := "True".toList
def pyFalse : Str := "False".toList
def printBool (b : Bool) : Str := if b then pyTrue else pyFalse

/-- ASCII `str.lower` (enough for comparing with "false"; other cased characters cannot
become ASCII letters under `lower`, except U+212A KELVIN SIGN — never generated). -/
def lowerAscii (s : Str) : Str :=
  s.map fun c => if 'A'.toNat ≤ c.toNat ∧ c.toNat ≤ 'Z'.toNat then Char.ofNat (c.toNat + 32) else c

/-- `str_to_bool` -/
def strToBool (s : Str) : Bool := lowerAscii s != "false".toList

def digitVal (c : Char) : Option Nat :=
  if '0'.toNat ≤ c.toNat ∧ c.toNat ≤ '9'.toNat then some (c.toNat - '0'.toNat) else none

/-- digits with single underscores between them, accumulated left to right;
`prevDigit` says whether an underscore may come next -/
def natLit : Nat → Bool → Str → Option Nat
  | acc, prev, [] => if prev then some acc else none
  | acc, prev, c :: rest =>
    if c = '_' then (if prev ∧ rest ≠ [] then natLit acc false rest else none)
    else match digitVal c with
      | some d => natLit (acc * 10 + d) true rest
      | none => none

/-- `int(s)` for a `str` argument (ASCII digits; sign; surrounding whitespace; underscores). -/
def pyInt (s : Str) : Option Int :=
  match strip pyWs s with
  | [] => none
  | c :: rest =>
    if c = '-' then (natLit 0 false rest).map fun n => -(Int.ofNat n)
    else if c = '+' then (natLit 0 false rest).map Int.ofNat
    else (natLit 0 false (c :: rest)).map Int.ofNat

def digitChar (d : Nat) : Char := Char.ofNat ('0'.toNat + d)

/-- decimal digits of `n`, most significant first (`fuel` > number of digits) -/
def natDigits : Nat → Nat → Str
  | 0, _ => []
  | fuel + 1, n => if n < 10 then [digitChar n] else natDigits fuel (n / 10) ++ [digitChar (n % 10)]

/-- `str(n)` for a natural number -/
def printNat (n : Nat) : Str := natDigits (n + 1) n

/-- `str(i)` -/
def printInt (i : Int) : Str :=
  match i with
  | .ofNat n => printNat n
  | .negSucc n => '-' :: printNat (n + 1)

/-- Conservative grammar of the float texts accepted by the model: `[-]digits[.digits][e[-+]digits]`,
`inf`, `-inf`, `nan`.  The text is kept as the value (abstract codec). -/
def allDigits (s : Str) : Bool := !s.isEmpty && s.all fun c => (digitVal c).isSome

def floatBody (s : Str) : Bool :=
  let (mant, ex) := s.span (fun c => c ≠ 'e')
  let mantOk :=
    let (ip, fp) := mant.span (fun c => c ≠ '.')
    allDigits ip && (fp.isEmpty || allDigits fp.tail)
  let exOk := match ex with
    | [] => true
    | _ :: e => match e with
      | '-' :: d => allDigits d
      | '+' :: d => allDigits d
      | d => allDigits d
  mantOk && exOk

def pyFloatOk (s : Str) : Bool :=
  let body := match s with | '-' :: r => r | r => r
  body = "inf".toList || s = "nan".toList || floatBody body

/-- `get_field_name`: text before `:` and before `=`, trimmed -/
def getFieldName (s : Str) : Str :=
  strip pyWs ((s.takeWhile (· ≠ ':')).takeWhile (· ≠ '='))

/-- `str.split(".")` -/
def splitDot : Str → List Str
  | [] => [[]]
  | c :: rest =>
    match splitDot rest with
    | [] => [[c]]   -- unreachable
    | p :: ps => if c = '.' then [] :: p :: ps else (c :: p) :: ps

/-! ### cells -/

def PV.ofElem : Cell.Elem → PV
  | .atom s => .atom s
  | .list xs => .list (xs.map .atom)

def PV.ofCell : Cell.Cell → PV
  | .atom s => .atom s
  | .list es => .list (es.map PV.ofElem)

/-- `CellParser.parse_as_string` with an empty context: the trimmed text; a `{` would start
the template engine, which is outside this model. -/
def parseAsString (s : Str) : Except Err Str :=
  let t := strip pyWs s
  if t.contains '{' then .error .template else .ok t

/-- `CellParser.parse` with an empty context -/
def cellParse (s : Str) : Except Err PV := do
  let t ← parseAsString s
  pure (PV.ofCell (Cell.splitIntoLists pyWs t))

/-! ### schema helpers -/

def isListTy : Ty → Bool
  | .anyList => true
  | .list _ => true
  | _ => false

def isModelTy : Ty → Bool
  | .model .. => true
  | _ => false

/-- `get_list_child_model` -/
def listChild : Ty → Ty
  | .list t => t
  | _ => .str

def fieldLookup (k : Str) : List Field → Option Field
  | [] => none
  | f :: rest => if f.1 = k then some f else fieldLookup k rest

end Rpft.Row
