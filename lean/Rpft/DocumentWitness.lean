/-
C05 — concrete documents used by `Props/C05.lean` as non-vacuity examples and negative
witnesses.  Core Lean only: the driver serves them (`doc.witnesses`) so that the harness
replays every one of them on the real code.
-/
import Rpft.DocumentSpec
namespace Rpft.Document.Witness
open Rpft Rpft.Document

def wLegacy : TriggerD :=
  { type := strK, keyword := some "\"hi\"".toList, keywords := none, channel := jNull, matchType := none,
    flow := { name := "f".toList, uuid := "u".toList }, groups := [], excludeGroups := none }


def wExit (u : String) : ExitD := { uuid := u.toList, dest := none }
def wFlow (nodes : List NodeD) : FlowD :=
  { uuid := "f1".toList, name := "flow".toList, language := "\"eng\"".toList, type := "\"messaging\"".toList,
    specVersion := "\"13.1.0\"".toList, revision := "1".toList, expire := "10080".toList,
    metadata := jEmptyObj, localization := jEmptyObj, nodes := nodes, ui := none }
def wDoc (nodes : List NodeD) (groups : List GroupD := []) : DocD :=
  { campaigns := [], fields := jEmptyArr, flows := [wFlow nodes], groups := groups,
    site := "\"https://example.org\"".toList, triggers := [], version := "\"13\"".toList }
def wCat (u name e : String) : CategoryD := { uuid := u.toList, name := name.toList, exitUuid := e.toList }
def wSwitch (cats : List CategoryD) (dflt : String) : RouterD :=
  .switch "\"@input.text\"".toList [] cats dflt.toList none none

/-- default category last, exits in category order: inside every hypothesis -/
def docGood : DocD :=
  wDoc [{ uuid := "n1".toList, actions := [], exits := [wExit "e1", wExit "e2"],
          router := some (wSwitch [wCat "c1" "Yes" "e1", wCat "c2" "Other" "e2"] "c2") }]

/-- the default category comes first (F-C05-c) -/
def docDefaultFirst : DocD :=
  wDoc [{ uuid := "n1".toList, actions := [], exits := [wExit "e2", wExit "e1"],
          router := some (wSwitch [wCat "c2" "Other" "e2", wCat "c1" "Yes" "e1"] "c2") }]

/-- exits not in category order (F-C05-d) -/
def docExitsPermuted : DocD :=
  wDoc [{ uuid := "n1".toList, actions := [], exits := [wExit "e2", wExit "e1"],
          router := some (wSwitch [wCat "c1" "Yes" "e1", wCat "c2" "Other" "e2"] "c2") }]

/-- a typed contact-field reference (F-C05-a) -/
def docTypedField : DocD :=
  wDoc [{ uuid := "n1".toList, router := none, exits := [wExit "e1"],
          actions := [.setContactField "\"a1\"".toList "\"Age\"".toList "\"age\"".toList (some "\"number\"".toList) "\"7\"".toList] }]

/-- a top-level group with a query (F-C05-b) -/
def docGroupQuery : DocD :=
  wDoc [] [{ name := "g".toList, uuid := "u".toList, query := some "\"age > 18\"".toList }]


/-- a document using most of the schema: typed group references with attributes, a wait
with timeout, a `has_group` case, shared categories, a random router, an `enter_flow`
router node, `_ui`, a campaign with both event kinds, a legacy and a new trigger -/
def qs (x : String) : Blob := ("\"" ++ x ++ "\"").toList
def wG : GroupD := { name := "g".toList, uuid := "gu".toList }
def wEvM : EventD :=
  { uuid := "v1".toList, offset := "5".toList, unit := qs "D", eventType := strM, deliveryHour := "-1".toList, message := "{\"eng\":\"hi\"}".toList, relLabel := qs "Created On", relKey := qs "created_on", startMode := qs "I", flow := none, baseLanguage := some (qs "eng") }
def wEvF : EventD :=
  { uuid := "v2".toList, offset := "5".toList, unit := qs "D", eventType := strF, deliveryHour := "-1".toList, message := jNull, relLabel := qs "Created On", relKey := qs "created_on", startMode := qs "I", flow := some { name := "flow".toList, uuid := "f1".toList }, baseLanguage := none }
def wN1 : NodeD :=
  { uuid := "n1".toList, router := none, exits := [{ uuid := "e0".toList, dest := some (qs "n2") }],
    actions := [
      .sendMsg (qs "a1") (qs "hello") [qs "image:x"] "[\"yes\"]".toList (some jNull) (some (qs "")) none,
      .addGroups (qs "a2") [{ name := "g".toList, uuid := "gu".toList, query := some jNull, count := some "3".toList }],
      .removeGroups (qs "a3") [wG] (some "false".toList),
      .setRunResult (qs "a4") (qs "r") (qs "v") none,
      .setContactField (qs "a5") (qs "Age") (qs "age") none (qs "7"),
      .setContactProperty (qs "a6") "name".toList (qs "Bob"),
      .passThrough "play_audio".toList [("uuid".toList, qs "a7"), ("audio_url".toList, qs "u"), ("x_extra".toList, "{\"k\":[1,null]}".toList)]] }
def wN2 : NodeD :=
  { uuid := "n2".toList, actions := [], exits := [wExit "e1", wExit "e2", wExit "e3"],
    router := some (.switch (qs "@input.text")
      [{ uuid := "c1".toList, type := "has_group".toList, arguments := ["gu".toList, "g".toList], categoryUuid := "k1".toList },
       { uuid := "c2".toList, type := "has_text".toList, arguments := [], categoryUuid := "k1".toList }]
      [wCat "k1" "Yes" "e1", wCat "k2" "Other" "e2", wCat "k3" "No Response" "e3"] "k2".toList
      (some { type := jMsg, timeout := some { seconds := 300, categoryUuid := "k3".toList } }) (some (qs ""))) }
def wN3 : NodeD :=
  { uuid := "n3".toList, actions := [], exits := [wExit "e4", wExit "e5"],
    router := some (.random [wCat "k4" "Bucket 1" "e4", wCat "k5" "Bucket 2" "e5"] (some jNull)) }
def wN4 : NodeD :=
  { uuid := "n4".toList, actions := [.enterFlow (qs "a8") { name := "other".toList, uuid := "f2".toList }],
    exits := [wExit "e6", wExit "e7"],
    router := some (wSwitch [wCat "k6" "Complete" "e6", wCat "k7" "Expired" "e7"] "k7") }
def wT1 : TriggerD :=
  { type := strK, keyword := some (qs "join"), keywords := none, channel := jNull, matchType := none, flow := { name := "flow".toList, uuid := "f1".toList }, groups := [wG], excludeGroups := none }
def wT2 : TriggerD :=
  { type := strM, keyword := none, keywords := some [], channel := qs "ch", matchType := some jNull, flow := { name := "flow".toList, uuid := "f1".toList }, groups := [], excludeGroups := some [wG] }
def docRich : DocD :=
  { campaigns := [{ uuid := "k1".toList, name := qs "camp", group := wG, events := [wEvM, wEvF] }],
    fields := jEmptyArr,
    flows := [{ wFlow [wN1, wN2, wN3, wN4] with ui := some [("n2".toList, "10".toList, "20.5".toList), ("n1".toList, "0".toList, "0".toList)] }],
    groups := [wG], site := qs "https://example.org", triggers := [wT1, wT2], version := qs "13" }


/-! documents OUTSIDE `Valid`, one per clause the code forces -/

/-- a group that is referenced but not listed at top level: `validate()` appends it -/
def docOutsideUnlistedGroup : DocD :=
  wDoc [{ uuid := "n1".toList, router := none, exits := [wExit "e1"],
          actions := [.addGroups (qs "a1") [{ name := "g".toList, uuid := "gu".toList }]] }]

/-- an empty attachment: `_get_attachments` filters it out -/
def docOutsideEmptyAttachment : DocD :=
  wDoc [{ uuid := "n1".toList, router := none, exits := [wExit "e1"],
          actions := [.sendMsg (qs "a1") (qs "hi") [qs "", qs "image:x"] jEmptyArr none none none] }]

/-- a timeout of 0 seconds: the no-response category and the timeout are dropped -/
def docOutsideZeroTimeout : DocD :=
  wDoc [{ uuid := "n1".toList, actions := [], exits := [wExit "e1", wExit "e2"],
          router := some (.switch (qs "@input.text") [] [wCat "c1" "Other" "e1", wCat "c2" "No Response" "e2"] "c1".toList
            (some { type := jMsg, timeout := some { seconds := 0, categoryUuid := "c2".toList } }) none) }]

/-- a destination spelled HARD_EXIT: rendered as null -/
def docOutsideHardExit : DocD :=
  wDoc [{ uuid := "n1".toList, router := none, actions := [], exits := [{ uuid := "e1".toList, dest := some jHardExit }] }]

def all : List (String × DocD) :=
  [("docGood", docGood), ("docRich", docRich), ("docDefaultFirst", docDefaultFirst),
   ("docExitsPermuted", docExitsPermuted), ("docTypedField", docTypedField), ("docGroupQuery", docGroupQuery),
   ("docOutsideUnlistedGroup", docOutsideUnlistedGroup), ("docOutsideEmptyAttachment", docOutsideEmptyAttachment),
   ("docOutsideZeroTimeout", docOutsideZeroTimeout), ("docOutsideHardExit", docOutsideHardExit)]

end Rpft.Document.Witness
