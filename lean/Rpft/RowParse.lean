/-
M2 (part 2) — model of `RowParser.parse_row` (rowparser.py 130-375), step by step:
context remap of the headers (326-331), asterisk length computation and expansion /
broadcast (333-365), `parse_entry` (287-313), `find_entry` (233-285: path walk creating
`None` placeholders, list-index contiguity assertion), `assign_value` (145-231: model →
keyword-first ambiguity rule then positional; untyped list; `List[T]` scalar wrap and
`""` → `[]`; bool blank-skip + `str_to_bool`; int/float codecs), final `None` filtering and
pydantic default filling (374-375).

All functions are structurally recursive (on the type, on the path, or on the data), so
the kernel can evaluate them (`decide`) and the equations unfold by `simp`.
Core Lean only.
-/
import Rpft.Schema
namespace Rpft.Row
open Rpft

/-- `Except` map over a list, left to right, first error wins -/
def mapE {α β : Type} (f : α → Except Err β) : List α → Except Err (List β)
  | [] => .ok []
  | a :: as =>
    match f a with
    | .error e => .error e
    | .ok b =>
      match mapE f as with
      | .error e => .error e
      | .ok bs => .ok (b :: bs)

/-- `Except` left fold -/
def foldE {α σ : Type} (f : σ → α → Except Err σ) : σ → List α → Except Err σ
  | s, [] => .ok s
  | s, a :: as =>
    match f s a with
    | .error e => .error e
    | .ok s' => foldE f s' as

mutual
def Tree.ofPV : PV → Tree
  | .atom s => .str s
  | .list xs => .list (Tree.ofPVs xs)
def Tree.ofPVs : List PV → List Tree
  | [] => []
  | x :: xs => Tree.ofPV x :: Tree.ofPVs xs
end

mutual
def Tree.toPV : Tree → Option PV
  | .str s => some (.atom s)
  | .list xs => (Tree.toPVs xs).map PV.list
  | _ => Option.none
def Tree.toPVs : List Tree → Option (List PV)
  | [] => some []
  | x :: xs =>
    match Tree.toPV x, Tree.toPVs xs with
    | some a, some as => some (a :: as)
    | _, _ => Option.none
end

/-! ### assign_value -/

/-- the effect of `assign_value(field, key, value, model)` on `field[key]`:
`some t` = `field[key] = t`; `none` = no assignment (blank bool) -/
abbrev Assign := PV → Except Err (Option Tree)

/-- `field[key] = str(value)`; `str()` of a list (Python repr) is outside the model -/
def assignStr : Assign
  | .atom s => .ok (some (.str s))
  | .list _ => .error .convert

def assignInt : Assign
  | .atom s =>
    match pyInt s with
    | some i => .ok (some (.int i))
    | none => .error .convert
  | .list _ => .error .convert

def assignFloat : Assign
  | .atom s =>
    let t := strip pyWs s
    if pyFloatOk t then .ok (some (.float t)) else .error .convert
  | .list _ => .error .convert

/-- bool: a blank string is not assigned at all; otherwise `str_to_bool`; a list is
`bool(list)` -/
def assignBool : Assign
  | .atom s =>
    let t := strip pyWs s
    if t = [] then .ok none else .ok (some (.bool (strToBool t)))
  | .list xs => .ok (some (.bool (!xs.isEmpty)))

/-- untyped `list`: `list(value)` for a list, `[value]` for a string -/
def assignAny : Assign
  | .atom s => .ok (some (.list [.str s]))
  | .list xs => .ok (some (.list (Tree.ofPVs xs)))

/-- entries of a `List[T]` cell: a list as is; `""` → `[]`; another string → `[value]` -/
def listEntries : PV → List PV
  | .list xs => xs
  | .atom s => if s = [] then [] else [.atom s]

/-- `List[T]`: append `None`, assign into it (a skipped assignment leaves the `None`) -/
def assignList (child : Assign) : Assign := fun v =>
  match mapE (fun e => match child e with
      | .error er => .error er
      | .ok r => .ok (r.getD .none)) (listEntries v) with
  | .error e => .error e
  | .ok ts => .ok (some (.list ts))

/-- `d[k] = v` when an assignment happens -/
def setOpt (k : Str) (r : Option Tree) (d : List (Str × Tree)) : List (Str × Tree) :=
  match r with
  | some t => aset k t d
  | none => d

/-- `try_assign_as_kwarg`: a 2-element list whose first entry is a string naming (after
`header_name_to_field_name`) a field of the model -/
def tryKwarg (fas : List (Str × Assign)) (h2f : List (Str × Str)) :
    PV → Option (Str × Assign × PV)
  | .list [.atom k, x] =>
    let key := remap h2f k
    match alookup key fas with
    | some a => some (key, a, x)
    | none => none
  | _ => none

/-- the `for i, entry in enumerate(value)` loop: `rem` = fields from position `i` on -/
def assignEntries (fas : List (Str × Assign)) (h2f : List (Str × Str)) :
    List (Str × Assign) → List PV → List (Str × Tree) → Except Err (List (Str × Tree))
  | _, [], acc => .ok acc
  | rem, e :: es, acc =>
    match tryKwarg fas h2f e with
    | some (key, a, x) =>
      match a x with
      | .error er => .error er
      | .ok r => assignEntries fas h2f rem.tail es (setOpt key r acc)
    | none =>
      match rem with
      | [] => .error .tooManyPositional
      | (n, a) :: rem' =>
        match a e with
        | .error er => .error er
        | .ok r => assignEntries fas h2f rem' es (setOpt n r acc)

/-- model: `field[key] = {}`, wrap a non-list, keyword-first rule on the whole value,
otherwise entry by entry -/
def assignModel (fas : List (Str × Assign)) (h2f : List (Str × Str)) : Assign := fun v =>
  let value := match v with
    | .list xs => xs
    | a => [a]
  match tryKwarg fas h2f (.list value) with
  | some (key, a, x) =>
    match a x with
    | .error er => .error er
    | .ok r => .ok (some (.dict (setOpt key r [])))
  | none =>
    match assignEntries fas h2f fas value [] with
    | .error er => .error er
    | .ok d => .ok (some (.dict d))

mutual
/-- `assign_value`, by recursion on the type (every recursive call of the code is on a
strictly smaller type) -/
def assignValue : Ty → Assign
  | .str => assignStr
  | .int => assignInt
  | .float => assignFloat
  | .bool => assignBool
  | .anyList => assignAny
  | .list t => assignList (assignValue t)
  | .model fs h2f _ => assignModel (fieldAssigners fs) h2f
def fieldAssigners : List (Str × Ty × Option Val) → List (Str × Assign)
  | [] => []
  | (n, t, _) :: rest => (n, assignValue t) :: fieldAssigners rest
end

/-! ### find_entry -/

/-- Python list indexing with a possibly negative index -/
def pyIndex (len : Nat) (i : Int) : Option Nat :=
  if 0 ≤ i then (if i.toNat < len then some i.toNat else none)
  else if (-i).toNat ≤ len then some (len - (-i).toNat) else none

/-- "If field doesn't exist yet in our output object, create it." -/
def initChild (child : Ty) : Tree → Tree
  | .none => if isListTy child then .list [] else if isModelTy child then .dict [] else .none
  | t => t

/-- `if key not in output_field: output_field[key] = None` -/
def ensureKey (key : Str) (kvs : List (Str × Tree)) : List (Str × Tree) :=
  match alookup key kvs with
  | some _ => kvs
  | none => aset key Tree.none kvs

/-- write the updated child back: `output_field[key] = sub` -/
def wrapDict (key : Str) (kvs : List (Str × Tree)) : Except Err Tree → Except Err Tree
  | .error e => .error e
  | .ok sub => .ok (.dict (aset key sub kvs))

def wrapList (key : Nat) (xs : List Tree) : Except Err Tree → Except Err Tree
  | .error e => .error e
  | .ok sub => .ok (.list (xs.set key sub))

/-- the assignment at the entry found: `field[key] = t`, or nothing (blank bool) -/
def leafDict (key : Str) (kvs : List (Str × Tree)) : Except Err (Option Tree) → Except Err Tree
  | .error e => .error e
  | .ok (some t) => .ok (.dict (aset key t kvs))
  | .ok none => .ok (.dict kvs)

def leafList (key : Nat) (xs : List Tree) : Except Err (Option Tree) → Except Err Tree
  | .error e => .error e
  | .ok (some t) => .ok (.list (xs.set key t))
  | .ok none => .ok (.list xs)

/-- `find_entry` followed by the assignment at the entry found, as one functional update
of the output tree.  `leaf child` computes what `assign_value` does at the entry whose
type is `child`. -/
def findSet (leaf : Ty → Except Err (Option Tree)) : Ty → Tree → List Str → Except Err Tree
  | _, _, [] => .error .assertion
  | ty, out, name :: rest =>
    if isListTy ty then
      match out with
      | .list xs =>
        match pyInt name with
        | none => .error .badIndex
        | some n =>
          let idx : Int := n - 1
          if (xs.length : Int) ≤ idx ∧ (xs.length : Int) ≠ idx then .error .assertion
          else
            let xs := if (xs.length : Int) ≤ idx then xs ++ [Tree.none] else xs
            match pyIndex xs.length idx with
            | none => .error .badIndex
            | some key =>
              let child := listChild ty
              match rest with
              | [] => leafList key xs (leaf child)
              | _ :: _ =>
                wrapList key xs (findSet leaf child (initChild child (xs.getD key .none)) rest)
      | _ => .error .illTyped
    else
      match ty with
      | .model fs h2f _ =>
        match out with
        | .dict kvs =>
          let key := remap h2f name
          match fieldLookup key fs with
          | none => .error .noField
          | some f =>
            let child := f.2.1
            let kvs := ensureKey key kvs
            match rest with
            | [] => leafDict key kvs (leaf child)
            | _ :: _ =>
              wrapDict key kvs
                (findSet leaf child (initChild child ((alookup key kvs).getD .none)) rest)
        | _ => .error .illTyped
      | _ => .error .assertion

/-! ### parse_entry, parse_row -/

/-- a column value: raw cell text, or an element of an expanded `*` column
(`value_is_parsed=True`) -/
abbrev ColVal := Sum Str PV

def leafValue (cv : ColVal) (ty : Ty) : Except Err PV :=
  match cv with
  | .inr pv => .ok pv
  | .inl s =>
    if isListTy ty || isModelTy ty then cellParse s
    else match parseAsString s with
      | .error e => .error e
      | .ok t => .ok (.atom t)

/-- what `parse_entry` assigns at the entry found, given the entry's type -/
def leafFn (cv : ColVal) (ty : Ty) : Except Err (Option Tree) :=
  match leafValue cv ty with
  | .error e => .error e
  | .ok pv => assignValue ty pv

/-- `parse_entry` -/
def parseEntry (top : Ty) (out : Tree) (col : Str × ColVal) : Except Err Tree :=
  findSet (leafFn col.2) top out (splitDot (getFieldName col.1))

/-- `header_name_to_field_name_with_context(k, data)` -/
def ctxRemap (sch : Schema) (data : List (Str × Str)) (k : Str) : Except Err Str :=
  match alookup k sch.ctxBasic with
  | some k' => .ok k'
  | none =>
    match sch.ctxMain with
    | none => .ok k
    | some (h, tcol, table) =>
      if k = h then
        match alookup tcol data with
        | none => .error .keyError
        | some t =>
          match alookup (strip pyWs t) table with   -- `row_type_to_main_arg[row["type"].strip()]`
          | none => .error .keyError
          | some k' => .ok k'
      else .ok k

/-- `data_rekeyed[remap(k, data)] = v` for one column -/
def rekeyStep (sch : Schema) (ctx : List (Str × Str)) (acc : List (Str × Str)) (kv : Str × Str) :
    Except Err (List (Str × Str)) :=
  match ctxRemap sch ctx kv.1 with
  | .error e => .error e
  | .ok k => .ok (aset k kv.2 acc)

/-- `data_rekeyed[k] = v` for each column -/
def rekey (sch : Schema) (data : List (Str × Str)) : Except Err (List (Str × Str)) :=
  foldE (rekeyStep sch data) [] data

def hasStar (k : Str) : Bool := k.contains '*'
def starPrefix (k : Str) : Str := k.takeWhile (· ≠ '*')

/-- parse the cells of the `*` columns (the code parses them twice, identically) -/
def preParse (data : List (Str × Str)) : Except Err (List (Str × ColVal)) :=
  mapE (fun (kv : Str × Str) =>
      if hasStar kv.1 then
        match cellParse kv.2 with
        | .error e => .error e
        | .ok pv => .ok (kv.1, Sum.inr pv)
      else .ok (kv.1, Sum.inl kv.2)) data

/-- `asterisk_list_lengths[prefix]`: maximum of 1 and the lengths of the list-valued `*`
columns with this prefix -/
def starLen (pfx : Str) : List (Str × ColVal) → Nat
  | [] => 1
  | (k, .inr (.list xs)) :: rest =>
    if hasStar k ∧ starPrefix k = pfx then max (starLen pfx rest) xs.length else starLen pfx rest
  | _ :: rest => starLen pfx rest

def enumFrom1 {α : Type} : Nat → List α → List (Nat × α)
  | _, [] => []
  | i, a :: as => (i, a) :: enumFrom1 (i + 1) as

/-- the entries one column stands for -/
def expandCol (all : List (Str × ColVal)) (col : Str × ColVal) : List (Str × ColVal) :=
  match col with
  | (k, .inr pv) =>
    let elems := match pv with
      | .list xs => xs
      | a => List.replicate (starLen (starPrefix k) all) a
    (enumFrom1 1 elems).map fun (i, e) => (replace1 '*' (printNat i) k, Sum.inr e)
  | c => [c]

def expandAll (cols : List (Str × ColVal)) : List (Str × ColVal) :=
  cols.flatMap (expandCol cols)

def dropNone (kvs : List (Str × Tree)) : List (Str × Tree) :=
  kvs.filter fun kv => !kv.2.isNone

mutual
/-- `self.model(**self.output)`: pydantic validation of a well-shaped tree — defaults fill
absent fields, a missing required field or a `None` is a `ValidationError` -/
def validate : Ty → Tree → Except Err Val
  | .str, .str s => .ok (.str s)
  | .int, .int i => .ok (.int i)
  | .float, .float s => .ok (.float s)
  | .bool, .bool b => .ok (.bool b)
  | .anyList, .list xs =>
    match Tree.toPVs xs with
    | some ps => .ok (.any ps)
    | none => .error .validation
  | .list t, .list xs =>
    match mapE (validate t) xs with
    | .error e => .error e
    | .ok vs => .ok (.list vs)
  | .model fs _ _, .dict kvs =>
    match validateFields fs kvs with
    | .error e => .error e
    | .ok vs => .ok (.model vs)
  | _, _ => .error .validation
def validateFields : List (Str × Ty × Option Val) → List (Str × Tree) →
    Except Err (List (Str × Val))
  | [], _ => .ok []
  | (n, t, d) :: rest, kvs =>
    let r := match alookup n kvs with
      | some tr => validate t tr
      | none =>
        match d with
        | some dv => .ok dv
        | none => .error .validation
    match r with
    | .error e => .error e
    | .ok v =>
      match validateFields rest kvs with
      | .error e => .error e
      | .ok vs => .ok ((n, v) :: vs)
end

/-- the entries of the row after context remap and `*` expansion -/
def rowEntries (sch : Schema) (data : List (Str × Str)) : Except Err (List (Str × ColVal)) :=
  match rekey sch data with
  | .error e => .error e
  | .ok d =>
    match preParse d with
    | .error e => .error e
    | .ok cols => .ok (expandAll cols)

def buildTree (top : Ty) (entries : List (Str × ColVal)) : Except Err Tree :=
  foldE (parseEntry top) (.dict []) entries

def finish (top : Ty) : Tree → Except Err Val
  | .dict kvs => validate top (.dict (dropNone kvs))
  | _ => .error .illTyped

/-- `RowParser.parse_row(data)` (empty template context) -/
def parseRow (sch : Schema) (data : List (Str × Str)) : Except Err Val :=
  match rowEntries sch data with
  | .error e => .error e
  | .ok entries =>
    match buildTree sch.top entries with
    | .error e => .error e
    | .ok t => finish sch.top t

end Rpft.Row
