import Rpft.Str
import Rpft.Cell
import Rpft.Lemmas.Cell
import Rpft.Props.C08
import Rpft.Gen.Tables
