import Rpft.Cell
import Rpft.Drv.Cell
import Rpft.Drv.Json
import Rpft.Gen.Tables
import Rpft.Lemmas.Cell
import Rpft.Props.C08
import Rpft.Str
