#!/bin/bash
# make sure every kept seeded patch applies to /repo HEAD (rebase with 3-way merge when needed)
for d in /verif/seeded/*/; do
  n=$(basename $d)
  if git -C /repo apply --check $d/patch.diff 2>/dev/null; then echo "$n applies"; continue; fi
  w=/tmp/sr_$$; git -C /repo worktree add -q --detach $w HEAD
  if (cd $w && git apply --3way $d/patch.diff 2>/dev/null && [ -z "$(git diff --name-only --diff-filter=U)" ]); then
    (cd $w && git diff HEAD -- src > $d/patch.diff); echo "$n REBASED"
  else echo "$n DOES NOT APPLY (manual)"; fi
  git -C /repo worktree remove --force $w
done
