"""Generators shared by C07 / C09: schema family, values, layouts."""
from __future__ import annotations

import collections
import itertools
import random

from . import rowlib as R
from .rowlib import REQ, model

ALPHA = ["|", ";", "\\", " ", "\n", ",", '"', "é", "日", "1", "0", "true", "a", "b", "False", "-"]
# every character Python's own str.isspace() accepts — the set str.strip() removes (29 code points: the ASCII ones,
# U+001C–U+001F, U+0085, U+00A0, U+1680, U+2000–U+200A, U+2028, U+2029, U+202F, U+205F, U+3000); taken from the
# running interpreter, not from the tree under test
WS_ALL = [chr(c) for c in range(0x110000) if not (0xD800 <= c < 0xE000) and chr(c).isspace()]
WS_ASCII = [c for c in WS_ALL if ord(c) < 128]
WS_UNICODE = [c for c in WS_ALL if ord(c) >= 128]
# invisible, but NOT whitespace for str.strip(): at the edge of a string they are part of the value
ZERO_WIDTH = ["\u200b", "\ufeff"]
P_EDGE = 0.12        # a generated string gets such a character at an edge / inside
P_LONG = 0.03        # a generated list has 10–12 entries (two-digit indices in spread column names)
LONG = [10, 10, 11, 12]
_ZW, _EXOTIC = set(ZERO_WIDTH), set(WS_ALL) - {" ", "\n"}
STRATA = collections.Counter()   # strata of the value generator (main process); folded into ck.count by the checks
INTS = [0, 1, -1, 10, -7, 42, 2**40, 123456789012345678901, -(10**20)]
FLOATS = [0.0, 1.5, -2.25, 1e-05, 1e16, 0.1, 3.0, float("inf"), 2.5e-300]

SUB = model("Sub", [("p", "str", ""), ("q", "int", 0), ("w", "bool", False), ("z", "str", "zz")])
SUBL = model("SubL", [("xs", ("list", "str"), []), ("k", "str", "")])
COND = model("Cond", [("value", "str", ""), ("variable", "str", ""), ("type", "str", ""), ("name", "str", "")])
EDGE = model("EdgeX", [("from_", "str", ""), ("condition", COND, {"value": "", "variable": "", "type": "", "name": ""})],
             {"from": "from_"}, {"from_": "from"})
SUB_DEFAULT = {"p": "", "q": 0, "w": False, "z": "zz"}

FIXED_SCHEMAS = [
    model("Flat", [("a", "str", ""), ("b", "int", 0), ("c", "bool", True), ("d", "float", 0.0), ("e", "str", "dflt"), ("r", "str", REQ)]),
    model("Lists", [("xs", ("list", "str"), []), ("ns", ("list", "int"), []), ("bs", ("list", "bool"), []),
                    ("ll", ("list", ("list", "str")), []), ("u", "any", []), ("t", "str", "")]),
    model("WithSub", [("s", SUB, SUB_DEFAULT), ("t", "str", ""), ("s2", SUB, {"p": "x", "q": 1, "w": True, "z": "zz"})]),
    model("SubList", [("items", ("list", SUB), []), ("name", "str", REQ)]),
    model("SubWithList", [("s", SUBL, {"xs": [], "k": ""}), ("n", "int", 5)]),
    model("Nested", [("o", model("Outer", [("inner", SUB, SUB_DEFAULT), ("tag", "str", "")]),
                      {"inner": SUB_DEFAULT, "tag": ""}), ("fl", ("list", "float"), [])]),
    model("Remapped", [("from_", "str", ""), ("lst_", ("list", "str"), []), ("sub_", SUB, SUB_DEFAULT), ("plain", ("list", "str"), [])],
          {"from": "from_", "lst": "lst_", "sub": "sub_"}, {"from_": "from", "lst_": "lst", "sub_": "sub"}),
    model("Edges", [("row_id", "str", ""), ("edges", ("list", EDGE), REQ), ("tags", ("list", "str"), [])]),
    model("AnyLists", [("u", "any", []), ("v", "any", ["k"]), ("w", model("W", [("hs", "any", []), ("b", "str", "")]), {"hs": [], "b": ""})]),
    model("ReqBool", [("flag", "bool", REQ), ("n", "int", REQ), ("f", "float", 1.5), ("ys", ("list", ("list", "int")), [])]),
    model("ab", [("a", "str", ""), ("ab", ("list", "str"), []), ("abc", SUB, SUB_DEFAULT)]),  # header prefixes of each other
]


def random_schema(rng: random.Random, idx: int):
    def basic():
        return rng.choice(["str", "str", "int", "bool", "float"])

    def default_for(t):
        k = R.kind(t)
        if k == "str":
            return rng.choice(["", "", "d", "a b"])
        if k == "int":
            return rng.choice([0, 3])
        if k == "bool":
            return rng.choice([True, False])
        if k == "float":
            return rng.choice([0.0, 1.5])
        if k in ("list", "any"):
            return []
        return {n: (d if d is not REQ else gen_value(rng, ft, [], True)) for n, ft, d in t[2]}

    def sub(depth, name):
        n = rng.randint(1, 4)
        fields = []
        for i in range(n):
            r = rng.random()
            if r < 0.5 or depth >= 2:
                t = basic()
            elif r < 0.65:
                t = ("list", basic())
            elif r < 0.72:
                t = "any"
            elif r < 0.8:
                t = ("list", ("list", "str"))
            elif r < 0.9:
                t = sub(depth + 1, f"{name}_{i}")
            else:
                t = ("list", sub(depth + 1, f"{name}_{i}"))
            fname = rng.choice(["f", "g", "name", "value", "x1", "type"]) + str(i)
            d = REQ if rng.random() < 0.15 else default_for(t)
            fields.append((fname, t, d))
        h2f, f2h = {}, {}
        if rng.random() < 0.25:
            f = rng.choice(fields)[0]
            f2h[f] = "h_" + f
            h2f["h_" + f] = f
        return model(name, fields, h2f, f2h)

    return sub(0, f"R{idx}")


def field_names(t, acc=None):
    acc = acc if acc is not None else []
    k = R.kind(t)
    if k == "model":
        for n, ft, _ in t[2]:
            acc.append(n)
            acc.append(t[4].get(n, n))
            field_names(ft, acc)
    elif k == "list":
        field_names(t[1], acc)
    return acc


def gen_str(rng, names, clean, nonblank=False):
    r = rng.random()
    if names and r < 0.15:
        s = rng.choice(names)
    else:
        n = rng.choice([0, 1, 1, 2, 2, 3, 4, 6])
        s = "".join(rng.choice(ALPHA) for _ in range(n))
    if rng.random() < P_EDGE:
        s = edge_chars(rng, s)
    if clean:
        s = s.strip()
        if nonblank and not s:
            s = rng.choice(["a", "|", ";", "\\", "é", "1"])
    if s != s.strip():
        STRATA["strings.whitespace-at-edge(outside the round-trip domain)"] += 1
        if s.strip(" \t\n\r\x0b\x0c") != s.strip():
            STRATA["strings.non-ascii-whitespace-at-edge(outside the round-trip domain)"] += 1
    elif s and (s[0] in _ZW or s[-1] in _ZW):
        STRATA["strings.zero-width-at-edge(kept by strip)"] += 1
    if not _EXOTIC.isdisjoint(s.strip()):
        STRATA["strings.exotic-whitespace-inside"] += 1
    return s


def edge_chars(rng, s):
    """s with whitespace of any kind (every c with c.isspace()) and / or a zero-width space / BOM put at its
    edges or inside: what str.strip() removes at an edge (all of the former) and what it keeps (the latter)"""
    def ch():
        r = rng.random()
        return rng.choice(ZERO_WIDTH) if r < 0.35 else rng.choice(WS_UNICODE) if r < 0.8 else rng.choice(WS_ASCII)

    where = rng.choice(["left", "right", "both", "both", "inside"])
    if where == "inside" and len(s) >= 2:
        i = rng.randint(1, len(s) - 1)
        return s[:i] + ch() + s[i:]
    left = "".join(ch() for _ in range(rng.choice([1, 1, 2]))) if where in ("left", "both", "inside") else ""
    right = "".join(ch() for _ in range(rng.choice([1, 1, 2]))) if where in ("right", "both") else ""
    return left + s + right


def gen_value(rng, t, names, clean, in_list=False, depth=0):
    """clean=True: inside the representable domain by construction (checked again by R.representable)"""
    k = R.kind(t)
    if k == "str":
        return gen_str(rng, names, clean, nonblank=in_list)
    if k == "int":
        return rng.choice(INTS)
    if k == "bool":
        return rng.random() < 0.5
    if k == "float":
        return rng.choice(FLOATS)
    if k == "any":
        n = rng.choice([0, 1, 2, 3])
        if rng.random() < P_LONG / 2:
            n = rng.choice(LONG)
            STRATA["lists.long(10-12).untyped"] += 1
        out = []
        for _ in range(n):
            if rng.random() < 0.6:
                out.append(gen_str(rng, names, clean, nonblank=clean))
            else:
                out.append([gen_str(rng, names, clean, nonblank=clean) for _ in range(rng.choice([1, 2, 3] if clean else [0, 1, 2]))])
        return out
    if k == "list":
        n = rng.choice([0, 1, 1, 2, 3]) if not (clean and in_list) else rng.choice([1, 2])
        if rng.random() < (P_LONG / 2 if in_list else P_LONG):
            # more than nine entries: the spread columns `f.10.sub`, `f.10.1`, `f.10` follow `f.9.…` in the order of
            # the list, not in the order of their names as text
            n = rng.choice(LONG)
            ek = R.kind(t[1])
            STRATA["lists.long(10-12)." + ("of-records" if ek == "model" else "of-lists" if ek in ("list", "any") else "of-basic")
                   + (".inner" if in_list else "")] += 1
        return [gen_value(rng, t[1], names, clean, True, depth + 1) for _ in range(n)]
    v = {}
    for n, ft, d in t[2]:
        if d is not REQ and rng.random() < 0.35:
            v[n] = d
        else:
            v[n] = gen_value(rng, ft, names, clean, False, depth + 1)
    return v


def layouts(rng, t, limit=64):
    cands = R.candidate_headers(t)
    if len(cands) <= 6:
        subsets = [list(c) for n in range(len(cands) + 1) for c in itertools.combinations(cands, n)]
        return subsets, True
    subsets = [[], list(cands)] + [[c] for c in cands]
    while len(subsets) < limit:
        subsets.append([c for c in cands if rng.random() < 0.3])
    return subsets[:limit], False
