"""Generators shared by C07 / C09: schema family, values, layouts."""
from __future__ import annotations

import itertools
import random

from . import rowlib as R
from .rowlib import REQ, model

ALPHA = ["|", ";", "\\", " ", "\n", ",", '"', "é", "日", "1", "0", "true", "a", "b", "False", "-"]
INTS = [0, 1, -1, 10, -7, 42, 2**40, 123456789012345678901, -(10**20)]
FLOATS = [0.0, 1.5, -2.25, 1e-05, 1e16, 0.1, 3.0, float("inf"), 2.5e-300]

SUB = model("Sub", [("p", "str", ""), ("q", "int", 0), ("w", "bool", False), ("z", "str", "zz")])
SUBL = model("SubL", [("xs", ("list", "str"), []), ("k", "str", "")])
COND = model("Cond", [("value", "str", ""), ("variable", "str", ""), ("type", "str", ""), ("name", "str", "")])
EDGE = model("EdgeX", [("from_", "str", ""), ("condition", COND, {"value": "", "variable": "", "type": "", "name": ""})],
             {"from": "from_"}, {"from_": "from"})
SUB_DEFAULT = {"p": "", "q": 0, "w": False, "z": "zz"}

FIXED_SCHEMAS = [
    model("Flat", [("a", "str", ""), ("b", "int", 0), ("c", "bool", True), ("d", "float", 0.0), ("e", "str", "dflt"), ("r", "str", REQ)]),
    model("Lists", [("xs", ("list", "str"), []), ("ns", ("list", "int"), []), ("bs", ("list", "bool"), []),
                    ("ll", ("list", ("list", "str")), []), ("u", "any", []), ("t", "str", "")]),
    model("WithSub", [("s", SUB, SUB_DEFAULT), ("t", "str", ""), ("s2", SUB, {"p": "x", "q": 1, "w": True, "z": "zz"})]),
    model("SubList", [("items", ("list", SUB), []), ("name", "str", REQ)]),
    model("SubWithList", [("s", SUBL, {"xs": [], "k": ""}), ("n", "int", 5)]),
    model("Nested", [("o", model("Outer", [("inner", SUB, SUB_DEFAULT), ("tag", "str", "")]),
                      {"inner": SUB_DEFAULT, "tag": ""}), ("fl", ("list", "float"), [])]),
    model("Remapped", [("from_", "str", ""), ("lst_", ("list", "str"), []), ("sub_", SUB, SUB_DEFAULT), ("plain", ("list", "str"), [])],
          {"from": "from_", "lst": "lst_", "sub": "sub_"}, {"from_": "from", "lst_": "lst", "sub_": "sub"}),
    model("Edges", [("row_id", "str", ""), ("edges", ("list", EDGE), REQ), ("tags", ("list", "str"), [])]),
    model("AnyLists", [("u", "any", []), ("v", "any", ["k"]), ("w", model("W", [("hs", "any", []), ("b", "str", "")]), {"hs": [], "b": ""})]),
    model("ReqBool", [("flag", "bool", REQ), ("n", "int", REQ), ("f", "float", 1.5), ("ys", ("list", ("list", "int")), [])]),
    model("ab", [("a", "str", ""), ("ab", ("list", "str"), []), ("abc", SUB, SUB_DEFAULT)]),  # header prefixes of each other
]


def random_schema(rng: random.Random, idx: int):
    def basic():
        return rng.choice(["str", "str", "int", "bool", "float"])

    def default_for(t):
        k = R.kind(t)
        if k == "str":
            return rng.choice(["", "", "d", "a b"])
        if k == "int":
            return rng.choice([0, 3])
        if k == "bool":
            return rng.choice([True, False])
        if k == "float":
            return rng.choice([0.0, 1.5])
        if k in ("list", "any"):
            return []
        return {n: (d if d is not REQ else gen_value(rng, ft, [], True)) for n, ft, d in t[2]}

    def sub(depth, name):
        n = rng.randint(1, 4)
        fields = []
        for i in range(n):
            r = rng.random()
            if r < 0.5 or depth >= 2:
                t = basic()
            elif r < 0.65:
                t = ("list", basic())
            elif r < 0.72:
                t = "any"
            elif r < 0.8:
                t = ("list", ("list", "str"))
            elif r < 0.9:
                t = sub(depth + 1, f"{name}_{i}")
            else:
                t = ("list", sub(depth + 1, f"{name}_{i}"))
            fname = rng.choice(["f", "g", "name", "value", "x1", "type"]) + str(i)
            d = REQ if rng.random() < 0.15 else default_for(t)
            fields.append((fname, t, d))
        h2f, f2h = {}, {}
        if rng.random() < 0.25:
            f = rng.choice(fields)[0]
            f2h[f] = "h_" + f
            h2f["h_" + f] = f
        return model(name, fields, h2f, f2h)

    return sub(0, f"R{idx}")


def field_names(t, acc=None):
    acc = acc if acc is not None else []
    k = R.kind(t)
    if k == "model":
        for n, ft, _ in t[2]:
            acc.append(n)
            acc.append(t[4].get(n, n))
            field_names(ft, acc)
    elif k == "list":
        field_names(t[1], acc)
    return acc


def gen_str(rng, names, clean, nonblank=False):
    r = rng.random()
    if names and r < 0.15:
        s = rng.choice(names)
    else:
        n = rng.choice([0, 1, 1, 2, 2, 3, 4, 6])
        s = "".join(rng.choice(ALPHA) for _ in range(n))
    if clean:
        s = s.strip()
        if nonblank and not s:
            s = rng.choice(["a", "|", ";", "\\", "é", "1"])
    return s


def gen_value(rng, t, names, clean, in_list=False, depth=0):
    """clean=True: inside the representable domain by construction (checked again by R.representable)"""
    k = R.kind(t)
    if k == "str":
        return gen_str(rng, names, clean, nonblank=in_list)
    if k == "int":
        return rng.choice(INTS)
    if k == "bool":
        return rng.random() < 0.5
    if k == "float":
        return rng.choice(FLOATS)
    if k == "any":
        n = rng.choice([0, 1, 2, 3])
        out = []
        for _ in range(n):
            if rng.random() < 0.6:
                out.append(gen_str(rng, names, clean, nonblank=clean))
            else:
                out.append([gen_str(rng, names, clean, nonblank=clean) for _ in range(rng.choice([1, 2, 3] if clean else [0, 1, 2]))])
        return out
    if k == "list":
        n = rng.choice([0, 1, 1, 2, 3]) if not (clean and in_list) else rng.choice([1, 2])
        return [gen_value(rng, t[1], names, clean, True, depth + 1) for _ in range(n)]
    v = {}
    for n, ft, d in t[2]:
        if d is not REQ and rng.random() < 0.35:
            v[n] = d
        else:
            v[n] = gen_value(rng, ft, names, clean, False, depth + 1)
    return v


def layouts(rng, t, limit=64):
    cands = R.candidate_headers(t)
    if len(cands) <= 6:
        subsets = [list(c) for n in range(len(cands) + 1) for c in itertools.combinations(cands, n)]
        return subsets, True
    subsets = [[], list(cands)] + [[c] for c in cands]
    while len(subsets) < limit:
        subsets.append([c for c in cands if rng.random() < 0.3])
    return subsets[:limit], False
