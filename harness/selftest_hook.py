"""Self-test of the hook tracers (DESIGN §2.8): on generated sheets the tracers driven by the project's guarded
hook (`_verif_event`, harness/hook.py) and the subclassing tracers (the fallback for trees without the hook) must
record IDENTICAL events — compared as canonical JSON text.

    RPFT_REPO=<tree with the hook> PYTHONPATH=$RPFT_REPO/src:. /venv/bin/python -m harness.selftest_hook [n] [seed]

exit 0 = equal everywhere, 1 = a difference (printed), 2 = the tree has no hook (nothing to compare).
"""
from __future__ import annotations

import json
import os
import random
import re
import sys

from . import compile_tie, flat_tie, hook
from .gen import sheets as G
from .gen import sugar as S

_UUID = re.compile(r"[0-9a-f]{8}-[0-9a-f]{4}-[0-9a-f]{4}-[0-9a-f]{4}-[0-9a-f]{12}")


def _res(res):
    # invented uuids differ from run to run: masked in messages (the events carry none)
    return _UUID.sub("<uuid>", json.dumps([res.ok, res.exc, res.errors, res.warnings], sort_keys=True, default=repr))


def _both(fn):
    hook.FORCE_LEGACY = False
    assert hook.available()
    a = fn()
    hook.FORCE_LEGACY = True
    try:
        assert not hook.available()
        b = fn()
    finally:
        hook.FORCE_LEGACY = False
    return a, b


def _dump(x):
    return json.dumps(x, sort_keys=True, default=repr)


def main(n=200, seed=1):
    if not hook.available():
        print("selftest_hook: the tree under", os.environ.get("RPFT_REPO", "/repo"), "has no _verif_event hook — nothing to compare")
        return 2
    print("selftest_hook: hosts of the hook events:", hook.hosts())
    rng = random.Random(seed)
    counts, diffs = {}, []

    def bump(k, v=1):
        counts[k] = counts.get(k, 0) + v

    def check(what, a, b, inp):
        bump(what + ".compared")
        if a != b:
            diffs.append((what, inp, a[:600], b[:600]))

    for i in range(n):
        # --- trace_compile: core sheets (C01 main stream) and sugared sheets
        if i % 2 == 0:
            rows = G.gen_core_sheet(rng, rng.randint(2, 12), noop=rng.random() < 0.5, dups=rng.random() < 0.3)
        else:
            rows = S.gen_sugar_sheet(rng, rng.randint(3, 14))

        def tc():
            res, ev = compile_tie.trace_compile(G.HEADERS, rows)
            bump("trace_compile.events", len(ev))
            return _dump(ev) + _res(res)
        check("trace_compile", *_both(tc), rows)

        # --- trace_structure / trace_flat: sugared sheets, also ill nested / failing ones, with and without context
        srows = S.gen_sugar_sheet(rng, rng.randint(3, 14))
        if rng.random() < 0.5:
            strat, srows = flat_tie.mutate(rng, srows)
            bump("mutated." + strat)
        ctx = {"v0": "outer", "i0": 5, "v1": "o1"} if rng.random() < 0.3 else None

        def ts():
            res, real, table = compile_tie.trace_structure(G.HEADERS, srows, ctx)
            bump("trace_structure.events", len(real))
            return _dump([real, table]) + _res(res)
        check("trace_structure", *_both(ts), srows)

        def tf():
            tr = flat_tie.trace_flat(G.HEADERS, srows, ctx)
            bump("trace_flat.events", len(tr["real"].get("events", [])))
            bump("trace_flat.stop." + str(tr["real"].get("stop", "none")))
            return _UUID.sub("<uuid>", _dump(tr))
        check("trace_flat", *_both(tf), srows)

        # --- trace_index: workbooks with templates and insert_as_block
        if i % 2 == 0:
            sheets, _ = S.gen_index_workbook(rng)

            def ti():
                res, per_flow = compile_tie.trace_index(sheets)
                bump("trace_index.flows", len(per_flow))
                bump("trace_index.inserts", _dump(per_flow).count('"ev": "insert"'))
                return _dump(per_flow) + _res(res)
            check("trace_index", *_both(ti), sheets)

    # (each traced function ran twice: halve the volume counters)
    for k in sorted(counts):
        v = counts[k]
        print(f"  {k}: {v // 2 if not k.endswith('.compared') and not k.startswith('mutated.') else v}")
    if os.environ.get(hook.GUARD) is not None:
        print("selftest_hook: note — the guard is set in the environment of this process (the tracers restore what they found)")
    if diffs:
        for what, inp, a, b in diffs[:5]:
            print("DIFFERENCE in", what, "\n  input:", json.dumps(inp)[:800], "\n  hook  :", a, "\n  legacy:", b)
        print(f"selftest_hook: FAILED — {len(diffs)} differences")
        return 1
    print(f"selftest_hook: OK — hook tracers and subclassing tracers record identical events on {n} rounds (seed {seed})")
    return 0


if __name__ == "__main__":
    a = sys.argv[1:]
    sys.exit(main(int(a[0]) if a else 200, int(a[1]) if len(a) > 1 else 1))
