"""Action codec (C04): canonical forms, the REAL export / compile steps for ONE action, generators.

Real export  = `Action.from_dict(d).get_row_model_fields()` + `FlowRowModel(**fields)` (the
               pydantic validation of `BaseNode.initiate_row_models`).
Real compile = `FlowParser._get_row_action(row)` inside the `except RapidProActionError` of
               `_parse_row`, `FlowParser._get_row_node(row)`, `node.add_action(action)`; the
               node's rendered action list.  Any exception or log record ≥ ERROR = error.
Model        = lean/Rpft/ActionCodec.lean through driver ops `act.to_fields` / `act.of_fields`.
"""
from __future__ import annotations

import copy
import json
import random

from .flows import LogCapture

PROPS = ["channel", "language", "name", "status", "timezone"]
PASS_THROUGH = ["add_input_labels", "call_classifier", "call_resthook", "open_ticket", "play_audio", "say_msg",
                "send_broadcast", "send_email", "start_session"]
GROUP_ATTRS = ("query", "status", "system", "count")
FIELD_KEYS = ["type", "mainarg_message_text", "mainarg_value", "mainarg_groups", "mainarg_dict", "mainarg_flow_name",
              "wa_template", "webhook", "choices", "save_name", "result_category", "image", "audio", "video",
              "attachments", "urn_scheme", "obj_id"]


class OutsideDomain(Exception):
    """the action is not representable in the model's `Act` (non-string where a string is modelled …)"""


def _s(x):
    if not isinstance(x, str):
        raise OutsideDomain(f"not a string: {x!r}")
    return x


def _sl(xs):
    if not isinstance(xs, list):
        raise OutsideDomain(f"not a list: {xs!r}")
    return [_s(x) for x in xs]


def canon_amount(v):
    if type(v) is int:
        return {"int": str(v)}
    if type(v) is float:
        return {"float": repr(v)}
    raise OutsideDomain(f"amount {v!r}")


def canon_action(d: dict) -> dict:
    """RapidPro action dict (as given or as rendered) → the model's action JSON: everything
    `render()` shows except invented uuids (the action's and a templating instance's)."""
    t = d["type"]
    if t == "send_msg":
        tm = d.get("templating")
        return {"type": t, "text": _s(d["text"]), "attachments": _sl(d["attachments"]), "quick_replies": _sl(d["quick_replies"]),
                "all_urns": bool(d.get("all_urns")), "topic": _s(d.get("topic") or ""),
                "templating": None if not tm else {"name": _s(tm["template"]["name"]), "template_uuid": _s(tm["template"]["uuid"]),
                                                   "variables": _sl(tm["variables"])}}
    if t == "set_contact_field":
        f = d["field"]
        return {"type": t, "name": _s(f["name"]), "key": _s(f["key"]), "field_type": _s(f.get("type") or ""), "value": _s(d["value"])}
    if t.startswith("set_contact_") and t[len("set_contact_"):] in PROPS:
        p = t[len("set_contact_"):]
        v = d[p]
        if isinstance(v, str):
            return {"type": "set_contact_prop", "prop": p, "value": v}
        if p == "channel" and isinstance(v, dict):
            return {"type": "set_contact_channel", "uuid": _s(v.get("uuid") or ""), "name": _s(v.get("name") or "")}
        raise OutsideDomain(f"{t} value {v!r}")
    if t in ("add_contact_groups", "remove_contact_groups"):
        gs = []
        for g in d["groups"]:
            u = g.get("uuid")
            gs.append({"name": _s(g["name"]), "uuid": None if u is None else _s(u), "attrs": any(g.get(k) is not None for k in GROUP_ATTRS)})
        out = {"type": t, "groups": gs}
        if t == "remove_contact_groups":
            out["all_groups"] = bool(d.get("all_groups"))
        return out
    if t == "set_run_result":
        return {"type": t, "name": _s(d["name"]), "value": _s(d["value"]), "category": _s(d.get("category") or "")}
    if t == "enter_flow":
        u = d["flow"].get("uuid")
        return {"type": t, "name": _s(d["flow"]["name"]), "uuid": None if u is None else _s(u)}
    if t == "call_webhook":
        return {"type": t, "result_name": _s(d["result_name"]), "url": _s(d["url"]), "method": _s(d["method"]), "body": _s(d["body"]),
                "headers": [[_s(k), _s(v)] for k, v in d["headers"].items()]}
    if t == "transfer_airtime":
        return {"type": t, "result_name": _s(d["result_name"]), "amounts": [[_s(k), canon_amount(v)] for k, v in d["amounts"].items()]}
    if t == "add_contact_urn":
        return {"type": t, "path": _s(d["path"]), "scheme": _s(d["scheme"])}
    return {"type": "unsupported", "ty": t}


def norm_model_action(a: dict) -> dict:
    """model answer → comparable with canon_action of the real answer: a float amount is the
    float its text denotes (the model keeps the text; `float()` itself is CPython's)"""
    if a.get("type") == "transfer_airtime":
        a = copy.deepcopy(a)
        for kv in a["amounts"]:
            if "float" in kv[1]:
                kv[1] = {"float": repr(float(kv[1]["float"]))}
    return a


def strip_expected(c: dict) -> dict:
    """canonical action as it must come back from a --strip_uuids sheet (obj_id and
    wa_template.uuid columns excluded): group / flow / template uuids are not carried"""
    c = copy.deepcopy(c)
    for g in c.get("groups", []):
        g["uuid"] = None
    if c["type"] == "enter_flow":
        c["uuid"] = None
    if c.get("templating"):
        c["templating"]["template_uuid"] = ""
    return c


def forget_tail_uuids(c: dict) -> dict:
    """canonical action without what `obj_id` (ONE cell: the first group's uuid) cannot carry: the
    uuids of the groups after the first (Lean `Act.forgetTailUuids`)"""
    c = copy.deepcopy(c)
    for g in c.get("groups", [])[1:]:
        g["uuid"] = None
    return c


def tail_uuid_trigger(c: dict) -> bool:
    """trigger of the open finding F-C04-g: a group action with more than one group where a group after
    the first carries a uuid that the sheet does not give back (the sheet gives back: nothing, or —
    one dictionary entry per name — the first group's uuid for a group named like the first)"""
    gs = c.get("groups") or []
    return any(g["uuid"] is not None and not (g["name"] == gs[0]["name"] and g["uuid"] == gs[0]["uuid"]) for g in gs[1:])


def same_kept(got: list, c: dict) -> bool:
    """the property's observable for ONE action with uuids kept (no --strip_uuids): it comes back as one
    action equal to the original — when F-C04-g's trigger is present: equal in everything except the
    uuids of the groups after the first (trigger AND pattern; anything else is a failure)"""
    if not isinstance(got, list) or len(got) != 1:
        return False
    if tail_uuid_trigger(c):
        return forget_tail_uuids(got[0]) == forget_tail_uuids(c)
    return got[0] == c


# ------------------------------------------------------------------ real code


def _item(x):
    if isinstance(x, str):
        return x
    if isinstance(x, (list, tuple)) and all(isinstance(y, str) for y in x):
        return list(x)
    raise OutsideDomain(f"list item {x!r}")


def dump_fields(row) -> dict:
    """the action-related fields of a FlowRowModel as the model's row-fields JSON"""
    return {
        "type": row.type, "mainarg_message_text": row.mainarg_message_text, "mainarg_value": row.mainarg_value,
        "mainarg_groups": list(row.mainarg_groups), "mainarg_dict": [_item(x) for x in row.mainarg_dict],
        "mainarg_flow_name": row.mainarg_flow_name,
        "wa_template": {"name": row.wa_template.name, "uuid": row.wa_template.uuid, "variables": list(row.wa_template.variables)},
        "webhook": {"url": row.webhook.url, "method": row.webhook.method, "headers": [_item(x) for x in row.webhook.headers], "body": row.webhook.body},
        "choices": list(row.choices), "save_name": row.save_name, "result_category": row.result_category,
        "image": row.image, "audio": row.audio, "video": row.video, "attachments": list(row.attachments),
        "urn_scheme": row.urn_scheme, "obj_id": row.obj_id,
    }


def make_row(fields: dict, row_id="r1", from_="start"):
    from rpft.parsers.creation.flowrowmodel import Edge, FlowRowModel

    return FlowRowModel(row_id=row_id, edges=[Edge(from_=from_)], **fields)


def real_to_fields(d: dict, row_id="r1", from_="start"):
    """→ ({"ok": fields-json} | {"err": text}, FlowRowModel | None)"""
    from rpft.rapidpro.models.actions import Action

    try:
        a = Action.from_dict(copy.deepcopy(d))
        row = make_row(a.get_row_model_fields(), row_id, from_)
    except OutsideDomain:
        raise
    except Exception as e:  # noqa: BLE001
        return {"err": f"{type(e).__name__}: {e}"[:200]}, None
    return {"ok": dump_fields(row)}, row


_TABLE = None


def real_of_fields(row):
    """→ {"ok": [canonical action …]} | {"err": text}"""
    import tablib
    from rpft.parsers.creation.flowparser import FlowParser
    from rpft.rapidpro.models.containers import RapidProContainer
    from rpft.rapidpro.models.exceptions import RapidProActionError

    cont = RapidProContainer()
    p = FlowParser(cont, "f", table=tablib.Dataset(headers=["type"]))
    with LogCapture() as cap:
        try:
            try:
                act = p._get_row_action(row)
            except RapidProActionError as e:  # `_parse_row`: LOGGER.critical(str(e))
                return {"err": f"RapidProActionError: {e}"[:200]}
            node = p._get_row_node(row)
            if act:
                node.add_action(act)
            # what `update_global_uuids` does with every node before rendering: group / flow references are
            # recorded in the container's dictionary and later take the uuid found there (an entry without
            # uuid gets an invented one)
            node.record_global_uuids(cont.uuid_dict)
            rendered = [a.render() for a in node.actions]
        except Exception as e:  # noqa: BLE001
            return {"err": f"{type(e).__name__}: {e}"[:200]}
    if cap.errors():
        return {"err": "log: " + cap.errors()[0][:200]}
    out = []
    for r in rendered:
        c = canon_action(r)
        if c["type"] == "enter_flow":
            c["uuid"] = cont.uuid_dict.flow_dict.get(c["name"]) or None
        for g in c.get("groups", []):
            g["uuid"] = cont.uuid_dict.group_dict.get(g["name"]) or None
        out.append(c)
    return {"ok": out}


def strip_row(row):
    """the row as a --strip_uuids sheet carries it (`to_row_data_sheet`: obj_id, _nodeId and
    wa_template.uuid columns excluded → defaults on reading)"""
    r = row.copy(deep=True)
    r.obj_id = ""
    r.node_uuid = ""
    r.wa_template.uuid = ""
    return r


def strings_of(x):
    if isinstance(x, str):
        yield x
    elif isinstance(x, dict):
        for v in x.values():
            yield from strings_of(v)
    elif isinstance(x, list):
        for v in x:
            yield from strings_of(v)


def cell_safe(c: dict) -> bool:
    """C07's representable domain for the texts of a canonical action: trimmed, template-free"""
    return all(s.strip() == s and "{" not in s for s in strings_of(c))


def router_row_extras(fields: dict) -> dict:
    """router rows carry no action; give their node constructors what they insist on"""
    f = dict(fields)
    if f.get("type") == "split_by_value":
        f["mainarg_expression"] = "@fields.x"
    if f.get("type") == "split_by_group" and not f.get("mainarg_groups"):
        f["mainarg_groups"] = ["G"]
    return f


def through_cells(rows, strip=False):
    """real RowDataSheet (as `to_row_data_sheet`) → tablib table → real SheetParser/RowParser:
    the rows as the compiler reads them back from the exported sheet (None where a row fails)"""
    from rpft.parsers.common.cellparser import CellParser
    from rpft.parsers.common.rowdatasheet import RowDataSheet
    from rpft.parsers.common.rowparser import RowParser
    from rpft.parsers.common.sheetparser import SheetParser
    from rpft.parsers.creation.flowrowmodel import FlowRowModel

    excluded = {"obj_id", "_nodeId", "wa_template.uuid"} if strip else {}
    table = RowDataSheet(RowParser(FlowRowModel, CellParser()), rows, {"edges.*.condition"}, excluded).convert_to_tablib()
    sp = SheetParser(RowParser(FlowRowModel, CellParser()), table, {})
    out = []
    for _ in rows:
        try:
            out.append(sp.parse_next_row())
        except Exception as e:  # noqa: BLE001
            out.append(f"{type(e).__name__}: {e}"[:200])
    return out, list(table.headers)


# ------------------------------------------------------------------ generators

SPECIAL = ["|", ";", "\\", ",", '"', "\n", "é", "日本", "a|b", "x;y", "\\;", "tab\there", "q'uote", "ü ber", "\U0001F600", "{x}", "@fields.a", ":", "image:"]
WORDS = ["yes", "no", "red", "blue", "stop", "go", "one two", "7", "Alpha", "ok then"]
# names go through generate_field_key: the model lower-cases ASCII only, so cased non-ASCII letters stay out
NAMES_OK = ["Color", "fav food", "age", "Result 1", "a", "x" * 36, "  padded  ", "日本 a", "wh", "hook res", "A_b-c", "Q" + "9" * 35]
NAMES_BAD = ["", "123", "x" * 37, "   ", "日本", "1 2 3", "_-_", "y" * 36 + " z"]
METHODS = ["CONNECT", "DELETE", "GET", "HEAD", "OPTIONS", "POST", "PUT"]
METHODS_BAD = ["PATCH", "get", "", "TRACE", " POST"]
AMOUNT_TEXTS = ["5", "20.5", "2.0", "1e5", "1E+5", "1e", ".5", "5.", ".", "1_000", "1__0", "_1", "1_", " 7 ", "+3", "-4", "--4", "inf", "-Infinity",
                "nan", "NaN", "infinit", "0x10", "True", "", "abc", "1.5.2", "1_0.0_1", "1._5", "1e1_0", "1e_1", "\t8\n", "12abc", "+", "-", "+.5", "1.e3", ".e3",
                "9" * 30, "-0", "00012", "1e-7", "3.", "4"]


AMOUNT_GOOD = ["5", "20.5", "2.0", "1e5", "1E+5", ".5", "5.", "1_000", " 7 ", "+3", "-4", "inf", "-Infinity", "nan", "NaN", "1_0.0_1", "1e1_0", "\t8\n", "+.5", "1.e3",
               "9" * 30, "-0", "00012", "1e-7", "0.30000000000000004"]


def gen_uuid(rng):
    return "%08x-%04x-4%03x-a%03x-%012x" % (rng.getrandbits(32), rng.getrandbits(16), rng.getrandbits(12), rng.getrandbits(12), rng.getrandbits(48))


def gen_text(rng, base="text", special=0.5):
    s = base + " " + rng.choice(WORDS)
    if rng.random() < special:
        s += " " + rng.choice(SPECIAL)
        if rng.random() < 0.3:
            s = rng.choice(SPECIAL) + s
    if rng.random() < 0.1:
        s = rng.choice(["你好！", "¿¡?", "Привет", " lead", "trail ", "\ttab ", "a" * rng.choice([100, 639])])
    return s


def gen_long(rng, n):
    return (rng.choice(["v", "é", "日", "|"]) * n)[:n]


def gen_attachment(rng, k):
    kind = rng.choice(["image", "audio", "video", "image/jpeg", "application/pdf", "document", "geo", "Image", "imagex"])
    return f"{kind}:http://x.org/f{k}.{rng.choice(['png', 'mp3', 'a b', 'é'])}"


# group names: plain, padded, with the separators / escape character of a list cell (`mainarg_groups` is
# written as ONE list cell), non-ASCII, not in normal form
GROUP_NAMES = ["GrpA", "Grp B", "é|;", "  g  ", "a|b", "x;y", "back\\slash", "\\;", "\\|", "tail\\", "日本 グループ", "Parents; Teachers",
               "Staff|Volunteers", "cafe\u0301", "|", ";", "\U0001F600 team", "a,b", 'q"uote']


def gen_groups(rng):
    """1-4 group references.  uuid modes: `sheet` = what a sheet can give back (the first group's own uuid or
    none, the others by name — a group named like the first shares its uuid); `none`; `all` = as RapidPro
    writes them, every group with the uuid of its name (several groups: F-C04-g's trigger)"""
    n = rng.choice([1, 1, 1, 2, 2, 3, 4])
    names = [rng.choice(GROUP_NAMES) for _ in range(n)]
    if n > 1 and rng.random() < 0.3:
        names[rng.randrange(1, n)] = names[0]          # equal names twice
    mode = rng.choice(["sheet", "sheet", "none", "all"])
    by_name = {}
    first = None if mode == "none" or rng.random() < 0.2 else gen_uuid(rng)
    gs = []
    for i, name in enumerate(names):
        if mode == "all":
            u = by_name.setdefault(name, gen_uuid(rng))
        else:
            u = first if name == names[0] else None
        gs.append({"uuid": u, "name": name})
    return gs


KINDS = ["send_msg", "set_contact_field", "set_contact_prop", "add_contact_groups", "remove_contact_groups", "set_run_result",
         "enter_flow", "call_webhook", "transfer_airtime", "add_contact_urn"]


def gen_expressible(rng: random.Random, kind=None) -> dict:
    """an action inside what a sheet row can carry (by construction; the model's `Expressible`
    decides in the end)"""
    t = kind or rng.choice(KINDS + ["send_msg", "send_msg"])
    a = {"uuid": gen_uuid(rng), "type": t}
    k = rng.randrange(1000)
    if t == "send_msg":
        a["text"] = gen_text(rng, f"message {k}")
        n_att = rng.choice([0, 0, 1, 1, 2, 3])
        a["attachments"] = [gen_attachment(rng, f"{k}_{j}") for j in range(n_att)]
        a["quick_replies"] = [gen_text(rng, "qr", 0.3) for _ in range(rng.choice([0, 0, 1, 2, 4]))]
        if rng.random() < 0.25:
            a["templating"] = {"uuid": gen_uuid(rng), "template": {"uuid": gen_uuid(rng), "name": rng.choice(["tmpl one", "promo", "é|;"])},
                               "variables": [gen_text(rng, "var", 0.3) for _ in range(rng.choice([0, 1, 3]))]}
        if rng.random() < 0.1:
            a["all_urns"] = False
    elif t == "set_contact_field":
        name = rng.choice(NAMES_OK)
        a["field"] = {"key": name.strip().lower().replace(" ", "_"), "name": name}
        a["value"] = gen_long(rng, rng.choice([640, 639, 1])) if rng.random() < 0.15 else gen_text(rng, f"v{k}")
        if rng.random() < 0.2:
            a["value"] = ""
    elif t == "set_contact_prop":
        p = rng.choice(PROPS)
        a["type"] = "set_contact_" + p
        a[p] = {"language": rng.choice(["eng", "fra"]), "status": rng.choice(["active", "blocked"]), "timezone": "Africa/Kigali"}.get(p) or gen_text(rng, "Bob")
    elif t in ("add_contact_groups", "remove_contact_groups"):
        a["groups"] = gen_groups(rng)
        if t == "remove_contact_groups" and rng.random() < 0.3:
            a["all_groups"] = False
    elif t == "set_run_result":
        a["name"] = rng.choice(["answer", "score", "", "Result 1", "日本"])
        a["value"] = gen_long(rng, rng.choice([640, 639])) if rng.random() < 0.15 else gen_text(rng, f"r{k}")
        if rng.random() < 0.5:
            a["category"] = rng.choice(["Good", "", "é|x"])
    elif t == "enter_flow":
        a["flow"] = {"uuid": rng.choice([None, gen_uuid(rng)]), "name": rng.choice(["child one", "child_two", "é|;", " x "])}
    elif t == "call_webhook":
        a.update(result_name=rng.choice([n for n in NAMES_OK if n]), url=rng.choice(["http://example.com/h", "https://x.org/?a=1|b;c", "u"]),
                 method=rng.choice(METHODS), body=rng.choice(["", "", "payload", '{"a": "@fields.b"}', "é|;\\"]),
                 headers={rng.choice(["Accept", "X-K", "é", "a|b"]) + str(j): rng.choice(["text/plain", "", "v;w"]) for j in range(rng.choice([0, 0, 1, 3]))})
    elif t == "transfer_airtime":
        n = rng.choice([1, 1, 2, 4])
        a["amounts"] = {}
        for cur in rng.sample(["USD", "KES", "RWF", "EUR", "é"], n):
            a["amounts"][cur] = rng.choice([5, 0, -3, 10 ** 20, 20.5, 2.0, 1e16, 1.5e-7, 0.1 + 0.2, rng.randrange(10 ** 6), rng.random() * 100])
        a["result_name"] = rng.choice([n for n in NAMES_OK if n])
    elif t == "add_contact_urn":
        a["path"] = rng.choice(["+15550001", "", "bob@x.org", "é|;"])
        a["scheme"] = rng.choice(["tel", "tel", "whatsapp", "mailto", " tel"])
    return a


def mutate_non_expressible(rng: random.Random, a: dict) -> tuple[dict, str]:
    """break exactly one clause of `Expressible`; returns (action, clause name)"""
    a = copy.deepcopy(a)
    t = a["type"]
    if t == "send_msg":
        m = rng.choice(["empty_text", "empty_attachment", "empty_quick_reply", "media_padded", "media_empty", "all_urns", "topic", "templating_noname"])
        if m == "empty_text":
            a["text"] = ""
        elif m == "empty_attachment":
            a["attachments"].insert(rng.randrange(len(a["attachments"]) + 1), "")
        elif m == "empty_quick_reply":
            a["quick_replies"].insert(rng.randrange(len(a["quick_replies"]) + 1), "")
        elif m == "media_padded":
            a["attachments"] = [rng.choice(["image", "audio", "video"]) + ":" + rng.choice([" http://x", "http://x ", "\thttp://x\n", " x", "x "])]
        elif m == "media_empty":
            a["attachments"] = [rng.choice(["image", "audio", "video"]) + ":" + rng.choice(["", " ", "\n"])]
        elif m == "all_urns":
            a["all_urns"] = True
        elif m == "topic":
            a["topic"] = rng.choice(["event", "account", "purchase", "agent"])
        else:
            a["templating"] = {"uuid": gen_uuid(rng), "template": {"uuid": gen_uuid(rng), "name": ""}, "variables": ["v"]}
        return a, "send_msg." + m
    if t == "set_contact_field":
        m = rng.choice(["key_differs", "field_type", "value_too_long", "name_bad"])
        if m == "key_differs":
            a["field"]["key"] = rng.choice(["other_key", a["field"]["key"] + "_", a["field"]["key"].upper() or "K"])
        elif m == "field_type":
            a["field"]["type"] = rng.choice(["text", "number"])
        elif m == "value_too_long":
            a["value"] = gen_long(rng, rng.choice([641, 700]))
        else:
            name = rng.choice(NAMES_BAD)
            a["field"] = {"key": name.strip().lower().replace(" ", "_"), "name": name}
        return a, "set_contact_field." + m
    if t.startswith("set_contact_"):
        p = t[len("set_contact_"):]
        if p == "channel" and rng.random() < 0.5:
            a[p] = {"uuid": gen_uuid(rng), "name": "Channel 1"}
            return a, "set_contact_prop.channel_ref"
        a[p] = ""
        return a, "set_contact_prop.empty_value"
    if t in ("add_contact_groups", "remove_contact_groups"):
        ms = ["no_group", "tail_blank_name", "tail_attrs", "empty_uuid", "attrs"] + (["all_groups", "all_groups_no_group"] if t == "remove_contact_groups" else [])
        m = rng.choice(ms)
        if m == "no_group":
            a["groups"] = []
        elif m == "tail_blank_name":
            a["groups"].insert(rng.randrange(1, len(a["groups"]) + 1), {"uuid": None, "name": ""})
        elif m == "tail_attrs":
            a["groups"].insert(rng.randrange(1, len(a["groups"]) + 1), {"uuid": None, "name": "Extra", rng.choice(["query", "count"]): rng.choice(["age > 3", 7])})
        elif m == "empty_uuid":
            a["groups"][0]["uuid"] = ""
        elif m == "attrs":
            a["groups"][0][rng.choice(["query", "status"])] = "x"
        elif m == "all_groups":
            a["all_groups"] = True
        else:
            a["groups"] = []
            a["all_groups"] = True
        return a, "groups." + m
    if t == "set_run_result":
        a["value"] = gen_long(rng, rng.choice([641, 1000]))
        return a, "set_run_result.value_too_long"
    if t == "enter_flow":
        m = rng.choice(["no_name", "empty_uuid"])
        if m == "no_name":
            a["flow"]["name"] = ""
        else:
            a["flow"]["uuid"] = ""
        return a, "enter_flow." + m
    if t == "call_webhook":
        m = rng.choice(["no_url", "no_result_name", "bad_method", "bad_key"])
        if m == "no_url":
            a["url"] = ""
        elif m == "no_result_name":
            a["result_name"] = ""
        elif m == "bad_method":
            a["method"] = rng.choice(METHODS_BAD)
        else:
            a["result_name"] = rng.choice([n for n in NAMES_BAD if n])
        return a, "call_webhook." + m
    if t == "transfer_airtime":
        m = rng.choice(["no_amounts", "no_result_name", "bad_key"])
        if m == "no_amounts":
            a["amounts"] = {}
        elif m == "no_result_name":
            a["result_name"] = ""
        else:
            a["result_name"] = rng.choice([n for n in NAMES_BAD if n])
        return a, "transfer_airtime." + m
    if t == "add_contact_urn":
        a["scheme"] = ""
        return a, "add_contact_urn.empty_scheme"
    raise AssertionError(t)


def gen_unsupported(rng):
    t = rng.choice(PASS_THROUGH)
    return {"uuid": gen_uuid(rng), "type": t, "subject": "s", "body": "b", "text": "t", "addresses": ["a@b"]}


ROW_TYPES = ["send_message", "save_value", "add_to_group", "remove_from_group", "save_flow_result", "add_contact_urn", "start_new_flow",
             "call_webhook", "transfer_airtime"] + ["set_contact_" + p for p in PROPS]
ROW_TYPES_OTHER = ["wait_for_response", "split_by_value", "split_by_group", "split_random", "set_contact_foo", "set_contact_", "set_contact_set_contact_name",
                   "set_contact_nameset_contact_", "xset_contact_name", "send_msg", "", "Send_Message", "set_contact_name ", "set_contact_set_contact_"]


def gen_items(rng, values):
    """an untyped `list` field: mostly a list of pairs, sometimes malformed"""
    r = rng.random()
    n = rng.choice([0, 1, 1, 2, 3])
    keys = ["USD", "KES", "A", "B", "é", ""]
    pairs = [[rng.choice(keys), rng.choice(values)] for _ in range(n)]
    if r < 0.7:
        return pairs
    if r < 0.76:
        return [""]
    if r < 0.82:
        return pairs + [rng.choice(["", "x"])]
    if r < 0.88:
        return pairs + [[rng.choice(keys)]]
    if r < 0.94:
        return pairs + [["a", "b", "c"]]
    return ["", ""] if rng.random() < 0.5 else [[]]


def gen_row_fields(rng: random.Random) -> dict:
    """row fields as a sheet author could write them: valid and malformed, every row type"""
    t = rng.choice(ROW_TYPES + ROW_TYPES) if rng.random() < 0.8 else rng.choice(ROW_TYPES_OTHER)
    f = {"type": t}

    def maybe(p, key, gen):
        if rng.random() < p:
            f[key] = gen()

    txt = lambda: rng.choice(["", "", " ", gen_text(rng, "t"), gen_long(rng, rng.choice([640, 641]))])  # noqa: E731
    name = lambda: rng.choice(NAMES_OK + NAMES_OK + NAMES_BAD)  # noqa: E731
    good = rng.random() < 0.6  # mostly valid webhook / airtime rows
    relevant = {
        "send_message": ["mainarg_message_text", "choices", "image", "audio", "video", "attachments", "wa_template"],
        "save_value": ["mainarg_value", "save_name"], "save_flow_result": ["mainarg_value", "save_name", "result_category"],
        "add_to_group": ["mainarg_groups", "obj_id"], "remove_from_group": ["mainarg_groups", "obj_id"],
        "add_contact_urn": ["mainarg_value", "urn_scheme"], "start_new_flow": ["mainarg_flow_name", "obj_id"],
        "call_webhook": ["webhook", "save_name"], "transfer_airtime": ["mainarg_dict", "save_name"],
    }
    keys = relevant.get(t, ["mainarg_value"])
    gens = {
        "mainarg_message_text": txt, "mainarg_value": txt, "save_name": name, "result_category": lambda: rng.choice(["", "Good", "é|x"]),
        "choices": lambda: [rng.choice(["", "a", "b c", " ", "é|;"]) for _ in range(rng.choice([0, 1, 3]))],
        "image": lambda: rng.choice(["", " ", "http://i", " http://i \n", " "]), "audio": lambda: rng.choice(["", "http://a", "  "]),
        "video": lambda: rng.choice(["", "http://v", "\t"]),
        "attachments": lambda: [rng.choice(["", "image:x", "geo:1,2", "audio: y", ":"]) for _ in range(rng.choice([0, 1, 2]))],
        "wa_template": lambda: {"name": rng.choice(["", "tmpl", " "]), "uuid": rng.choice(["", "tu-1"]), "variables": [rng.choice(["", "v1", "é"]) for _ in range(rng.choice([0, 2]))]},
        "mainarg_groups": lambda: [rng.choice(["G1", "G 2", "", "é|;", "G1"]) for _ in range(rng.choice([0, 1, 1, 2, 3, 4]))],
        "obj_id": lambda: rng.choice(["", "id-1", " "]), "urn_scheme": lambda: rng.choice(["", "tel", "whatsapp", " "]),
        "mainarg_flow_name": lambda: rng.choice(["", "child", " ", "é|;"]),
        "webhook": lambda: {"url": rng.choice(["http://x", "u"] if good else ["", "http://x", " "]), "method": rng.choice(METHODS + [""] if good else METHODS + METHODS_BAD),
                            "body": rng.choice(["", "b", "é|;"]),
                            "headers": [[k, "v"] for k in rng.sample(["A", "B", "é"], rng.choice([0, 1, 3]))] if good else gen_items(rng, ["v", "", "text/plain"])},
        "mainarg_dict": lambda: [[k, rng.choice(AMOUNT_GOOD)] for k in rng.sample(["USD", "KES", "é", ""], rng.choice([1, 2, 4]))] if good else gen_items(rng, AMOUNT_TEXTS),
    }
    for key in keys:
        maybe(0.97 if good else 0.8, key, gens[key])
    # a stray field of another row type (ignored by the dispatch)
    if rng.random() < 0.15:
        stray = rng.choice(list(gens))
        f.setdefault(stray, gens[stray]())
    return f


def dumps(x):
    return json.dumps(x, ensure_ascii=False, sort_keys=True)


# ------------------------------------------------------------------ the check's streams (called from props/c04.py)

# the Lean `needs_…` witnesses of Props/C04.lean as RapidPro JSON: (theorem, action, what the REAL code must show)
#   lossy = comes back, without error, as a different action;  export = export raises;  compile = compile step fails
_U = "00000000-0000-4000-a000-000000000000"
WITNESSES = [
    ("needs_text_nonempty", {"type": "send_msg", "uuid": _U, "text": "", "attachments": [], "quick_replies": []}, "compile"),
    ("needs_no_empty_attachment", {"type": "send_msg", "uuid": _U, "text": "hi", "attachments": ["", "geo:1"], "quick_replies": []}, "lossy"),
    ("needs_no_empty_quick_reply", {"type": "send_msg", "uuid": _U, "text": "hi", "attachments": [], "quick_replies": ["a", "", "b"]}, "lossy"),
    ("needs_media_trimmed", {"type": "send_msg", "uuid": _U, "text": "hi", "attachments": ["image: http://x "], "quick_replies": []}, "lossy"),
    ("needs_media_nonempty", {"type": "send_msg", "uuid": _U, "text": "hi", "attachments": ["audio:"], "quick_replies": []}, "lossy"),
    ("needs_no_all_urns", {"type": "send_msg", "uuid": _U, "text": "hi", "attachments": [], "quick_replies": [], "all_urns": True}, "lossy"),
    ("needs_no_topic", {"type": "send_msg", "uuid": _U, "text": "hi", "attachments": [], "quick_replies": [], "topic": "event"}, "lossy"),
    ("needs_template_name", {"type": "send_msg", "uuid": _U, "text": "hi", "attachments": [], "quick_replies": [],
                             "templating": {"uuid": _U, "template": {"uuid": "t-1", "name": ""}, "variables": ["v"]}}, "lossy"),
    ("needs_generated_key", {"type": "set_contact_field", "uuid": _U, "field": {"key": "fav_food", "name": "Fav-Food"}, "value": "rice"}, "lossy"),
    ("needs_field_key", {"type": "set_contact_field", "uuid": _U, "field": {"key": "123", "name": "123"}, "value": "v"}, "compile"),
    ("needs_field_key", {"type": "set_contact_field", "uuid": _U, "field": {"key": "x" * 37, "name": "x" * 37}, "value": "v"}, "compile"),
    ("needs_no_field_type", {"type": "set_contact_field", "uuid": _U, "field": {"key": "age", "name": "Age", "type": "number"}, "value": "3"}, "lossy"),
    ("needs_value_limit", {"type": "set_contact_field", "uuid": _U, "field": {"key": "age", "name": "Age"}, "value": "v" * 641}, "compile"),
    ("needs_value_limit", {"type": "set_run_result", "uuid": _U, "name": "r", "value": "v" * 641}, "compile"),
    ("needs_prop_value", {"type": "set_contact_name", "uuid": _U, "name": ""}, "compile"),
    ("needs_no_channel_ref", {"type": "set_contact_channel", "uuid": _U, "channel": {"uuid": "c-1", "name": "Channel"}}, "export"),
    ("needs_a_group", {"type": "add_contact_groups", "uuid": _U, "groups": []}, "export"),
    ("needs_a_group", {"type": "remove_contact_groups", "uuid": _U, "groups": [], "all_groups": True}, "export"),
    ("needs_tail_uuids_kept", {"type": "add_contact_groups", "uuid": _U, "groups": [{"name": "A", "uuid": "g-a"}, {"name": "B", "uuid": "g-b"}]}, "lossy"),
    ("needs_tail_uuid_of_first_name", {"type": "remove_contact_groups", "uuid": _U, "groups": [{"name": "A", "uuid": "g-a"}, {"name": "A", "uuid": None}]}, "lossy"),
    ("needs_no_tail_group_attrs", {"type": "add_contact_groups", "uuid": _U, "groups": [{"name": "A", "uuid": None}, {"name": "B", "uuid": None, "count": 3}]}, "lossy"),
    ("needs_tail_name", {"type": "add_contact_groups", "uuid": _U, "groups": [{"name": "A", "uuid": None}, {"name": "", "uuid": None}, {"name": "C", "uuid": None}]}, "lossy"),
    ("needs_group_uuid", {"type": "add_contact_groups", "uuid": _U, "groups": [{"name": "A", "uuid": ""}]}, "lossy"),
    ("needs_no_group_attrs", {"type": "remove_contact_groups", "uuid": _U, "groups": [{"name": "A", "uuid": None, "query": "age > 3"}]}, "lossy"),
    ("needs_no_all_groups", {"type": "remove_contact_groups", "uuid": _U, "groups": [{"name": "A", "uuid": None}], "all_groups": True}, "lossy"),
    ("needs_flow_name_and_uuid", {"type": "enter_flow", "uuid": _U, "flow": {"name": "", "uuid": "f-1"}}, "compile"),
    ("needs_flow_name_and_uuid", {"type": "enter_flow", "uuid": _U, "flow": {"name": "child", "uuid": ""}}, "lossy"),
    ("needs_webhook_fields", {"type": "call_webhook", "uuid": _U, "result_name": "wh", "url": "", "method": "GET", "body": "", "headers": {}}, "compile"),
    ("needs_webhook_fields", {"type": "call_webhook", "uuid": _U, "result_name": "", "url": "http://x", "method": "GET", "body": "", "headers": {}}, "compile"),
    ("needs_webhook_fields", {"type": "call_webhook", "uuid": _U, "result_name": "wh", "url": "http://x", "method": "PATCH", "body": "", "headers": {}}, "compile"),
    ("needs_webhook_fields", {"type": "call_webhook", "uuid": _U, "result_name": "wh", "url": "http://x", "method": "", "body": "", "headers": {}}, "lossy"),
    ("needs_webhook_fields", {"type": "call_webhook", "uuid": _U, "result_name": "123", "url": "http://x", "method": "GET", "body": "", "headers": {}}, "compile"),
    ("needs_airtime_fields", {"type": "transfer_airtime", "uuid": _U, "amounts": {}, "result_name": "air"}, "compile"),
    ("needs_airtime_fields", {"type": "transfer_airtime", "uuid": _U, "amounts": {"USD": 5}, "result_name": ""}, "compile"),
    ("needs_airtime_fields", {"type": "transfer_airtime", "uuid": _U, "amounts": {"USD": 5}, "result_name": "1 2"}, "compile"),
    ("needs_scheme", {"type": "add_contact_urn", "uuid": _U, "path": "+1", "scheme": ""}, "lossy"),
] + [("needs_supported_type", {"type": t, "uuid": _U, "text": "x"}, "export") for t in PASS_THROUGH]
# needs_distinct_keys / needs_float_text have no real counterpart: a JSON object has distinct keys, and a float's text is its repr


def _same(real: dict, model: dict) -> bool:
    return (("ok" in real) == ("ok" in model)) and ("err" in real or real["ok"] == model["ok"])


def _norm_back(m: dict) -> dict:
    return {"ok": [norm_model_action(x) for x in m["ok"]]} if "ok" in m else m


def real_roundtrip(d: dict):
    """the direct oracle's observable: REAL export → REAL compile of one action.
    → ("export", err) | ("compile", err) | ("ok", [canonical actions]), fields-json | None, row | None"""
    rf, row = real_to_fields(d)
    if row is None:
        return ("export", rf["err"]), None, None
    rb = real_of_fields(row)
    if "err" in rb:
        return ("compile", rb["err"]), rf["ok"], row
    return ("ok", rb["ok"]), rf["ok"], row


def gen_stream_action(rng):
    r = rng.random()
    a = gen_expressible(rng)
    if r < 0.62:
        return a, "expressible"
    if r < 0.95:
        return mutate_non_expressible(rng, a)
    return gen_unsupported(rng), "unsupported"


def worker(args):
    """one shard of the codec streams.  Returns plain data (runs in a forked process)."""
    from . import core

    seed, n_act, n_rows, oracle_only = args
    rng = random.Random(seed)
    drv = core.Driver()
    stats, ties, viol, keys = {}, [], [], []
    sample = None

    def bump(k, v=1):
        stats[k] = stats.get(k, 0) + v

    # ---- stream 1: actions
    acts = [gen_stream_action(rng) for _ in range(n_act)]
    canons = [canon_action(a) for a, _ in acts]
    ans = drv.results([{"op": "act.to_fields", "a": c} for c in canons])
    batch = []  # expressible, cell-safe rows waiting for a shared sheet
    for (a, tag), c, m in zip(acts, canons, ans):
        if "__error__" in m:
            raise core.Infra(f"driver: {m} on {c}")
        keys.append(dumps(c))
        kind = c["type"]
        expressible = bool(m["expressible"])
        # the domain of the round trip: `ExpressibleModTailUuids` = `Expressible` without the clause on the uuids of
        # the groups after the first (obj_id is ONE cell); inside it and outside `Expressible` = trigger of F-C04-g
        inside = bool(m["expressible_mod_tail_uuids"])
        trigger = tail_uuid_trigger(c)
        bump(f"act.{kind}.{'expressible' if inside else 'outside'}")
        if tag != "expressible":
            bump("act.clause." + tag)
        if "groups" in c:
            bump(f"groups.count.{min(len(c['groups']), 4)}")
            names = [g["name"] for g in c["groups"]]
            if len(set(names)) < len(names):
                bump("groups.equal_names_twice")
            if len(names) > 1 and any(ch in nm for nm in names for ch in "|;\\"):
                bump("groups.several.separator_or_escape_in_name")
            if len(names) > 1 and inside:
                bump("groups.several.inside." + ("tail_uuids(F-C04-g trigger)" if trigger else "uuids_the_sheet_gives_back"))
        if not oracle_only and (expressible != (inside and not trigger) or m["forget_tail_uuids"] != forget_tail_uuids(c)):
            ties.append({"what": "act.to_fields: the model's Expressible / forgetTailUuids and the harness' trigger of F-C04-g / projection disagree",
                         "action": a, "model": {k: m[k] for k in ("expressible", "expressible_mod_tail_uuids", "forget_tail_uuids")}, "harness_trigger": trigger})
        (res, val), fields, row = real_roundtrip(a)
        # B: tie, export side
        rf = {"ok": fields} if fields is not None else {"err": val}
        if not oracle_only and not _same(rf, m["fields"]):
            ties.append({"what": "act.to_fields: model and real get_row_model_fields disagree", "action": a, "real": rf, "model": m["fields"]})
        # B: tie, compile side on the exported fields
        if not oracle_only and row is not None:
            rb = {"ok": val} if res == "ok" else {"err": val}
            if not _same(rb, _norm_back(m["back"])):
                ties.append({"what": "act.of_fields∘to_fields: model and real _get_row_action/_get_row_node disagree", "action": a, "real": rb, "model": m["back"]})
        if not inside:
            # not an oracle: how the real code treats what lies outside `Expressible`
            bump("outside." + ("roundtrips_anyway" if (res == "ok" and val == [c]) else "lossy" if res == "ok" else "loud_" + res))
            if res == "ok" and val == [c]:
                bump("outside.roundtrips_anyway." + tag)
            continue
        # C: the property's own statement on the real code
        if sample is None:
            sample = {"action": a, "row_fields": {k: v for k, v in (fields or {}).items() if v not in ("", [], {"name": "", "uuid": "", "variables": []}, {"url": "", "method": "", "headers": [], "body": ""})}}
        if not (res == "ok" and same_kept(val, c)):
            viol.append({"what": "an action the sheet format expresses does not come back from its own row (export → compile)"
                                 + (" — not even up to the uuids of the groups after the first (F-C04-g)" if trigger else ""), "action": a,
                         "row_fields": fields, "comes_back_as": val if res == "ok" else f"{res} error: {val}"})
            continue
        if "groups" in c and [g["name"] for g in val[0]["groups"]] != [g["name"] for g in c["groups"]]:
            raise AssertionError("same_kept lets a group name go")
        bump("oracle.keep.ok_up_to_tail_uuids(F-C04-g)" if trigger else "oracle.keep.ok")
        if "groups" in c and len(c["groups"]) > 1:
            bump("oracle.keep.several_groups.all_names_back_in_order")
        sb = real_of_fields(strip_row(row))
        if sb.get("ok") != [strip_expected(c)]:
            viol.append({"what": "with --strip_uuids (obj_id / wa_template.uuid columns dropped) the action's content does not come back", "action": a,
                         "comes_back_as": sb})
            continue
        bump("oracle.strip.ok")
        # C through the REAL cell layer (RowDataSheet → table → SheetParser), texts in C07's domain;
        # away from the triggers of the open findings F-C04-d (headers), F-C04-f (body + message_text column), F-C04-i (channel)
        if not cell_safe(c):
            bump("cells.skipped_text_outside_cell_domain")
            continue
        if kind == "call_webhook" and c["headers"]:
            bump("cells.skipped_F-C04-d_trigger")
            continue
        if kind == "set_contact_prop" and c["prop"] == "channel":
            bump("cells.skipped_F-C04-i_trigger")
            continue
        for strip in (False, True):
            back, headers = through_cells([row], strip)
            got = real_of_fields(back[0]) if not isinstance(back[0], str) else {"err": back[0]}
            if not (got.get("ok") == [strip_expected(c)] if strip else same_kept(got.get("ok"), c)):
                viol.append({"what": "an action the sheet format expresses does not come back from the exported sheet row (real RowDataSheet → real row parser → compile)",
                             "action": a, "strip_uuids": strip, "headers": headers, "comes_back_as": got})
                break
        else:
            bump("oracle.cells.single_row.ok")
        tv = [len(x["templating"]["variables"]) for _, x in batch if x.get("templating")]
        if kind == "call_webhook" and c["body"]:
            bump("cells.shared.skipped_F-C04-f_trigger")
        elif c.get("templating") and tv and tv[0] != len(c["templating"]["variables"]):
            bump("cells.shared.skipped_F-C04-j_trigger")
        else:
            batch.append((a, c))
        if len(batch) >= 6:
            _check_batch(batch, viol, bump)
            batch = []
    if batch:
        _check_batch(batch, viol, bump)

    # ---- stream 2: row fields as a sheet author writes them (valid and malformed) — tie of the compile side alone
    if not oracle_only:
        fs = [gen_row_fields(rng) for _ in range(n_rows)]
        ans = drv.results([{"op": "act.of_fields", "f": f} for f in fs])
        for f, m in zip(fs, ans):
            if "__error__" in m:
                raise core.Infra(f"driver: {m} on {f}")
            try:
                row = make_row(router_row_extras(f))
            except Exception:  # noqa: BLE001 — not a valid FlowRowModel
                bump("row.invalid_model")
                continue
            rb = real_of_fields(row)
            bump(f"row.{f['type'] if f['type'] in ROW_TYPES else 'other_type'}.{'ok' if 'ok' in rb else 'rejected'}")
            if not _same(rb, _norm_back(m)):
                ties.append({"what": "act.of_fields: model and real _get_row_action/_get_row_node disagree", "row_fields": f, "real": rb, "model": m})
    return {"stats": stats, "ties": ties[:20], "n_ties": len(ties), "viol": viol[:10], "keys": keys, "sample": sample}


def _check_batch(batch, viol, bump):
    """several actions as the rows of ONE exported sheet (shared, padded columns)"""
    rows = []
    for i, (a, _) in enumerate(batch):
        _, row = real_to_fields(a, row_id=f"r{i + 1}", from_="start" if i == 0 else f"r{i}")
        rows.append(row)
    back, headers = through_cells(rows, False)
    for (a, c), b in zip(batch, back):
        got = real_of_fields(b) if not isinstance(b, str) else {"err": b}
        if not same_kept(got.get("ok"), c):
            viol.append({"what": "an action does not come back from its row of an exported sheet shared with other actions (padded columns)",
                         "action": a, "sheet_actions": [x for x, _ in batch], "headers": headers, "comes_back_as": got})
            return
    bump("oracle.cells.shared_sheet.ok", len(batch))


# deterministic known-finding streams: (finding id, text, action(s), detector)
KNOWN_G = {"type": "add_contact_groups", "uuid": _U, "groups": [{"name": "Grp A", "uuid": "11111111-1111-4111-a111-111111111111"},
                                                                 {"name": "Grp B", "uuid": "22222222-2222-4222-a222-222222222222"}]}
KNOWN_H = {"type": "set_contact_field", "uuid": _U, "field": {"key": "fav_food", "name": "Fav-Food"}, "value": "rice"}
KNOWN_I = {"type": "set_contact_channel", "uuid": _U, "channel": "Channel 1"}
KNOWN_D = {"type": "call_webhook", "uuid": _U, "result_name": "wh", "url": "http://example.com/h", "method": "GET", "body": "", "headers": {"Accept": "text/plain"}}
KNOWN_F = [{"type": "send_msg", "uuid": _U, "text": "hi", "attachments": [], "quick_replies": []},
           {"type": "call_webhook", "uuid": _U, "result_name": "wh", "url": "http://example.com/h", "method": "POST", "body": "payload", "headers": {}}]


KNOWN_J = [{"type": "send_msg", "uuid": _U, "text": "first", "attachments": [], "quick_replies": [],
            "templating": {"uuid": _U, "template": {"uuid": "t-1", "name": "promo"}, "variables": ["x", "y", "z"]}},
           {"type": "send_msg", "uuid": _U, "text": "second", "attachments": [], "quick_replies": [],
            "templating": {"uuid": _U, "template": {"uuid": "t-1", "name": "promo"}, "variables": ["a"]}}]


def known_streams(ck):
    """each open finding of the action codec: trigger present AND the recorded discrepancy pattern
    (AND the counterfactual without the trigger comes back intact)"""
    # F-C04-g (narrowed): several groups AND a group after the first carries a uuid AND uuids are kept: only that uuid is lost.
    # Attribution: trigger + pattern (everything else equal: all names in order, first uuid) + both counterfactuals
    # (the same action with the further group referenced by name comes back intact; with --strip_uuids the content is intact)
    (res, val), fields, row = real_roundtrip(KNOWN_G)
    c = canon_action(KNOWN_G)
    lost = forget_tail_uuids(c)
    by_name = dict(KNOWN_G, groups=[KNOWN_G["groups"][0], dict(KNOWN_G["groups"][1], uuid=None)])
    if res == "ok" and val == [c]:
        ck.notes.append("F-C04-g no longer reproduces (the uuid of a group after the first survives the row)")
    elif res == "ok" and val == [lost] and val != [c] and tail_uuid_trigger(c) and fields["mainarg_groups"] == ["Grp A", "Grp B"] \
            and fields["obj_id"] == KNOWN_G["groups"][0]["uuid"] and real_roundtrip(by_name)[0] == ("ok", [canon_action(by_name)]) \
            and real_of_fields(strip_row(row)).get("ok") == [strip_expected(c)]:
        ck.known("F-C04-g", "without --strip_uuids the uuids of the groups after the first of an add/remove-groups action are not preserved (obj_id carries the first group's uuid only; "
                            "the others come back by name, uuid resolved through the container: known elsewhere or invented); every name, their order and the first uuid are",
                 {"action": KNOWN_G, "row_fields": {"mainarg_groups": fields["mainarg_groups"], "obj_id": fields["obj_id"]}, "comes_back_as": val})
    elif res == "ok" and len(val) == 1 and val[0].get("groups") == c["groups"][:1] and fields["mainarg_groups"] == ["Grp A", "Grp B"]:
        # the repaired defect shows again (recorded as fixed → reported as a violation by ck.known)
        ck.known("F-C04-k", "an add/remove-groups action with several groups is exported with every group name but compiled from the first only: the other groups are gone",
                 {"action": KNOWN_G, "row_fields.mainarg_groups": fields["mainarg_groups"], "comes_back_as": val})
    else:
        ck.violation("multi-group action: neither intact nor the recorded pattern of F-C04-g (only the uuids of the groups after the first differ)",
                     {"action": KNOWN_G, "comes_back_as": val})
    # F-C04-h: field key that is not the key generated from the name
    (res, val), fields, _ = real_roundtrip(KNOWN_H)
    c = canon_action(KNOWN_H)
    twin = dict(KNOWN_H, field={"key": "fav-food", "name": "Fav-Food"})
    if res == "ok" and val == [dict(c, key="fav-food")] and real_roundtrip(twin)[0] == ("ok", [canon_action(twin)]):
        ck.known("F-C04-h", "a set_contact_field action whose field key is not the key the toolkit derives from the field name comes back with the derived key: it sets another field",
                 {"action": KNOWN_H, "comes_back_as": val})
    elif not (res == "ok" and val == [c]):
        ck.violation("set_contact_field with its own key: neither intact nor the recorded pattern of F-C04-h", {"action": KNOWN_H, "comes_back_as": val})
    # through the real cell layer
    # F-C04-i: set_contact_channel row exported under message_text, which has no main-argument mapping for that row type
    (res, val), _, row = real_roundtrip(KNOWN_I)
    if res == "ok" and val == [canon_action(KNOWN_I)]:
        back, headers = through_cells([row])
        if isinstance(back[0], str) and "KeyError" in back[0] and "set_contact_channel" in back[0] and "message_text" in headers:
            ck.known("F-C04-i", "a set_contact_channel action is exported under the message_text column, which the row parser cannot map back for that row type (KeyError): the exported sheet does not compile",
                     {"action": KNOWN_I, "headers": headers, "error": back[0]})
        elif isinstance(back[0], str) or real_of_fields(back[0]).get("ok") != [canon_action(KNOWN_I)]:
            ck.violation("set_contact_channel through the sheet: neither intact nor the recorded pattern of F-C04-i", {"action": KNOWN_I, "got": str(back[0])[:300]})
    # F-C04-d at row level: headers spread as webhook.headers.i.j
    (res, val), _, row = real_roundtrip(KNOWN_D)
    if res == "ok" and val == [canon_action(KNOWN_D)]:
        back, headers = through_cells([row])
        if isinstance(back[0], str) and "AssertionError" in back[0] and any(h.startswith("webhook.headers.") for h in headers):
            ck.known("F-C04-d", "a webhook with headers is exported as webhook.headers.i.j columns that the row parser cannot read back", {"action": KNOWN_D, "headers": headers, "error": back[0]})
        elif isinstance(back[0], str) or real_of_fields(back[0]).get("ok") != [canon_action(KNOWN_D)]:
            ck.violation("webhook with headers through the sheet: neither intact nor the recorded pattern of F-C04-d", {"action": KNOWN_D, "got": str(back[0])[:300]})
    # F-C04-f at row level: body next to a message_text column
    rows = [real_to_fields(a, row_id=f"r{i + 1}", from_="start" if i == 0 else f"r{i}")[1] for i, a in enumerate(KNOWN_F)]
    back, headers = through_cells(rows)
    alone, _ = through_cells([rows[1]])
    cw = canon_action(KNOWN_F[1])
    got = real_of_fields(back[1]) if not isinstance(back[1], str) else {"err": back[1]}
    got_alone = real_of_fields(alone[0]) if not isinstance(alone[0], str) else {"err": alone[0]}
    if got.get("ok") == [dict(cw, body="")] and got_alone.get("ok") == [cw] and "message_text" in headers:
        ck.known("F-C04-f", "a webhook body is lost when the sheet also has a message_text column (blank message_text cell overwrites webhook.body)",
                 {"sheet_actions": KNOWN_F, "headers": headers, "comes_back_as": got})
    elif got.get("ok") != [cw]:
        ck.violation("webhook body in a shared sheet: neither intact nor the recorded pattern of F-C04-f", {"sheet_actions": KNOWN_F, "comes_back_as": got})


    # F-C04-j at row level: templating variables padded to the longest list of the sheet
    rows = [real_to_fields(a, row_id=f"r{i + 1}", from_="start" if i == 0 else f"r{i}")[1] for i, a in enumerate(KNOWN_J)]
    back, headers = through_cells(rows)
    alone, _ = through_cells([rows[1]])
    cj = canon_action(KNOWN_J[1])
    got = real_of_fields(back[1]) if not isinstance(back[1], str) else {"err": back[1]}
    got_alone = real_of_fields(alone[0]) if not isinstance(alone[0], str) else {"err": alone[0]}
    padded = copy.deepcopy(cj)
    padded["templating"]["variables"] = ["a", "", ""]
    if got.get("ok") == [padded] and got_alone.get("ok") == [cj] and "wa_template.variables.3" in headers:
        ck.known("F-C04-j", "the variables of a WhatsApp templating come back padded with empty strings up to the longest variables list of the sheet (blank wa_template.variables.k cells read as entries)",
                 {"sheet_actions": KNOWN_J, "headers": headers, "comes_back_as": got})
    elif got.get("ok") != [cj]:
        ck.violation("templating variables in a shared sheet: neither intact nor the recorded pattern of F-C04-j", {"sheet_actions": KNOWN_J, "comes_back_as": got})


def witness_stream(ck):
    """the negative witnesses of the Lean theorems, replayed on the real code"""
    for thm, a, want in WITNESSES:
        (res, val), _, _ = real_roundtrip(a)
        try:
            c = canon_action(a)
        except OutsideDomain:
            c = None
        got = "lossy" if (res == "ok" and val != [c]) else "intact" if res == "ok" else res
        ck.count(f"witness.{want}.{'reproduced' if got == want else 'NOT_reproduced'}")
        if got != want:
            ck.tie_break(f"witness of {thm} behaves differently on the real code: expected {want}, got {got}", {"action": a, "real": val})
