"""Seeded generator of flow sheets (as header → cell-text dicts) and the harness's reference
table "row → kind / observable action / decision operand" used by refFlow (C02).

The main stream stays inside WFcore (DESIGN §5 C02 notes): per source row unique tests, one
variable, explicit category names unique, no unconditional edge out of start_new_flow, no
'no response' condition without a positive timeout.
"""
from __future__ import annotations

import json
import random

HEADERS = [
    "row_id", "type", "from", "condition", "condition_var", "condition_type", "condition_name",
    "message_text", "choices", "save_name", "no_response", "result_category", "image", "attachments",
    "urn_scheme", "obj_id", "webhook.url", "webhook.method", "webhook.headers", "include_if",
    "loop_variable", "data_sheet", "data_row_id", "template_arguments", "_nodeId", "node_name",
    "audio", "video", "_ui_position",
]

ACTION_TYPES = [
    "send_message", "send_message", "send_message", "save_value", "add_to_group", "remove_from_group",
    "save_flow_result", "set_contact_language", "set_contact_name", "add_contact_urn",
    "set_contact_status", "set_contact_timezone", "set_contact_channel",
]
ROUTER_TYPES = ["wait_for_response", "wait_for_response", "split_by_value", "split_by_group", "split_random",
                "start_new_flow", "call_webhook", "transfer_airtime"]
NO_ARG_TESTS = ["has_number", "has_text", "has_email", "has_date", "has_time", "has_state", "has_error"]
TEST_TYPES = ["", "", "", "has_any_word", "has_phrase", "has_only_phrase", "has_beginning", "has_number_eq", "has_pattern",
              "all_words", "has_only_text", "has_number_lt", "has_number_lte", "has_number_gt", "has_number_gte",
              "has_date_lt", "has_date_eq", "has_date_gt", "has_phone", "has_district", "has_category"]
# ordinary answers, plus words whose generated category name collides with a reserved one
# ("Other", "Expired", "Success", …): they are ordinary condition values all the same
WORDS = ["yes", "no", "maybe", "red", "blue", "7", "stop", "go", "Alpha", "beta gamma",
         "other", "Other", "OTHER", "expired", "complete", "success", "failure", "all responses", "yes_alt", "Yes"]


def field_key(name: str) -> str:
    return name.strip().lower().replace(" ", "_")


class SheetGen:
    """Builds one core sheet row by row, tracking what each earlier row may still emit."""

    def __init__(self, rng: random.Random, n_rows: int, noop: bool = False, dups: bool = False):
        self.rng = rng
        self.dups = dups   # re-declared tests and shared category names (legal, but outside C02's single-meaning sheets)
        self.n = n_rows
        self.rows: list[dict] = []
        self.nodes: list[dict] = []   # info about node-producing rows: id, type, used tests, var, ...
        self.noop = noop
        self.counter = 0
        self._reserved_used = False

    # -- helpers
    def _id(self):
        self.counter += 1
        if self.counter > 1 and not self._reserved_used and self.rng.random() < 0.04:
            # a row id that coincides with a reserved word of the `from` column / a row type: an id like any other —
            # except that `from = start` keeps meaning "nothing leads here"
            self._reserved_used = True
            return self.rng.choice(["start", "go_to", "None", "no_op"])
        return f"r{self.counter}"

    def _edge_for(self, src: dict):
        """a (condition dict) compatible with the source row's kind, or None if exhausted"""
        rng = self.rng
        t = src["type"]
        cond = {"value": "", "variable": "", "type": "", "name": ""}
        if t in ACTION_TYPES or t == "no_op":
            if rng.random() < (0.55 if t != "no_op" else 0.4):
                return cond  # unconditional
            if src.get("var") is None:
                src["var"] = rng.choice(["", "", "@fields.color", "@results.answer"]) if t != "no_op" else rng.choice(["@fields.color", "@results.answer"])
            cond["variable"] = src["var"]
            return self._fresh_test(src, cond)
        if t == "wait_for_response":
            r = rng.random()
            if r < 0.3:
                return cond
            if r < 0.45 and src["timeout"] > 0:
                cond["value"] = rng.choice(["No Response", "no response"])
                return cond
            return self._fresh_test(src, cond)
        if t == "split_by_value":
            if rng.random() < 0.3:
                return cond
            return self._fresh_test(src, cond)
        if t == "split_by_group":
            if rng.random() < 0.3:
                return cond
            free = [g for g in ["GrpA", "GrpB", "GrpC", "Grp D"] if g not in src["tests"]]
            if not free:
                return cond
            g = rng.choice(free)
            src["tests"].add(g)
            cond["value"] = g
            return cond
        if t == "split_random":
            # buckets called by letters, or by NUMBERS (a bucket's number is just its name: buckets are listed in
            # the order in which they are first mentioned, and a bucket mentioned again keeps its place)
            if "buckets" not in src:
                src["buckets"] = rng.choice([["A", "B", "C", "D"], ["A", "B", "C", "D"], ["1", "2", "3", "4"], ["2", "1", "3"], ["1", "2", "10"]])
            cond["value"] = rng.choice(src["buckets"])
            return cond
        if t == "start_new_flow":
            cond["value"] = rng.choice(["completed", "Completed", "complete", "expired", "Expired"])
            return cond
        if t in ("call_webhook", "transfer_airtime"):
            cond["value"] = rng.choice(["", "success", "Success", "failure", "Failure"])
            return cond
        return cond

    def _fresh_test(self, src, cond):
        rng = self.rng
        if self.dups and src.get("declared") and rng.random() < 0.4:
            # the same test once more (same type and argument), under no / the same / another / a shared name
            ty, val, name = rng.choice(src["declared"])
            cond["type"], cond["value"] = ty, val
            names = [n for _, _, n in src["declared"] if n]
            cond["name"] = rng.choice(["", name, "Again%d" % len(src["declared"]), "Again%d" % len(src["declared"])] + names)
            src["declared"].append((ty, val, cond["name"]))
            return cond
        for _ in range(20):
            ty = rng.choice(TEST_TYPES)
            val = rng.choice(WORDS)
            if any(isinstance(x, tuple) for x in src["tests"]) and rng.random() < 0.15:
                # the same kind of test on a value that differs from an earlier one of this row in letter case only:
                # two tests all the same (the sheet says which row each leads to)
                ty0, val0 = rng.choice(sorted((x for x in src["tests"] if isinstance(x, tuple)), key=repr))
                if isinstance(val0, str) and val0:
                    ty = "" if ty0 == "has_any_word" else ty0
                    val = rng.choice([val0.upper(), val0.lower(), val0.title(), val0.swapcase()])
            if src["type"] != "no_op" and rng.random() < 0.15:
                # a test that takes no argument: the condition cell is blank (or carries a value that only
                # names the category), the edge is conditional all the same
                ty = rng.choice(NO_ARG_TESTS)
                val = "" if rng.random() < 0.7 else val
            # a test is identified by its type and argument; a no-argument test by its type alone
            key = (ty or "has_any_word", "" if ty in NO_ARG_TESTS else val)
            if key in src["tests"]:
                continue
            if val.lower() == "no response":
                continue
            src["tests"].add(key)
            cond["type"] = ty
            cond["value"] = val
            if rng.random() < (0.45 if self.dups else 0.2):
                src["ncat"] = src.get("ncat", 0) + 1
                cond["name"] = f"Cat{src['ncat']}"
            elif self.dups and rng.random() < 0.6:
                names = [n for _, _, n in src.get("declared", []) if n]
                if names:
                    cond["name"] = rng.choice(names)      # two different tests, one category
            if self.dups:
                src.setdefault("declared", []).append((ty, val, cond["name"]))
            return cond
        return {"value": "", "variable": "", "type": "", "name": ""}

    def _pick_sources(self, k_max=3):
        rng = self.rng
        if not self.nodes:
            return []
        k = 1 if rng.random() < 0.6 else rng.randint(2, k_max)
        out = []
        for _ in range(k):
            # prefer recent rows
            pool = [x for x in self.nodes if not x.get("closed")]
            if not pool:
                continue
            idx = len(pool) - 1 - min(int(rng.expovariate(0.6)), len(pool) - 1)
            out.append(pool[idx])
        return out

    def _edges(self, allow_blank_from=True):
        """list of (from, cond) for a new row"""
        rng = self.rng
        if not self.nodes:
            return [("start", {"value": "", "variable": "", "type": "", "name": ""})]
        edges = []
        srcs = self._pick_sources()
        if not srcs:
            return [("start", {"value": "", "variable": "", "type": "", "name": ""})]
        self._edge_srcs = []
        for i, s in enumerate(srcs):
            cond = self._edge_for(s)
            frm = s["id"]
            if allow_blank_from and i == 0 and s is self.nodes[-1] and self.last_group_is(s) and rng.random() < 0.5:
                frm = ""
            edges.append((frm, cond))
            self._edge_srcs.append((s, cond))
        return edges

    def _note_named(self, rid):
        """remember which row each NAMED conditional edge leads to (for `_goto_row`'s shared-category re-entry)"""
        for s, cond in getattr(self, "_edge_srcs", []):
            if cond["name"] and (cond["value"] or cond["type"]) and cond["value"].lower() != "no response" \
                    and (s["type"] in ACTION_TYPES or s["type"] in ("wait_for_response", "split_by_value")):
                s.setdefault("named", []).append((cond["name"], rid))
        self._edge_srcs = []

    def last_group_is(self, s):
        return self._last_group is s

    # -- rows
    def build(self):
        rng = self.rng
        self._last_group = None
        while len(self.rows) < self.n:
            r = rng.random()
            if not self.nodes:
                self._node_row(rng.choice(ACTION_TYPES + ROUTER_TYPES))
            elif r < 0.45:
                self._node_row(rng.choice(ACTION_TYPES))
            elif r < 0.75:
                self._node_row(rng.choice(ROUTER_TYPES))
            elif r < 0.87:
                self._goto_row()
            elif r < 0.93:
                self._exit_row()
            elif self.noop:
                self._noop_row()
            else:
                self._node_row(rng.choice(ACTION_TYPES))
        return self.rows

    def _emit(self, row, edges):
        row = dict(row)
        froms = [e[0] for e in edges]
        conds = [e[1] for e in edges]

        def cell(vals):
            if all(v == "" for v in vals):
                return ""
            if len(vals) == 1:
                return vals[0]
            if vals[-1] == "" and self.rng.random() < 0.5:
                # the SHORT spelling of the same list: trailing blanks left out (a list shorter than the row's edges
                # leaves the remaining edges blank; a one-element list keeps its separator — `x;` — so that it is not
                # the scalar `x`, which would stand for every edge)
                short = list(vals)
                while short and short[-1] == "":
                    short.pop()
                return ";".join(short) + (";" if len(short) == 1 else "")
            s = ";".join(vals)
            if vals[-1] == "":
                s += ";"
            return s

        row["from"] = cell(froms) if froms != [""] else ""
        if len(froms) > 1 and all(f == "" for f in froms):
            row["from"] = ";".join(froms) + ";"
        row["condition"] = cell([c["value"] for c in conds])
        row["condition_var"] = cell([c["variable"] for c in conds])
        row["condition_type"] = cell([c["type"] for c in conds])
        row["condition_name"] = cell([c["name"] for c in conds])
        self.rows.append(row)

    def _node_row(self, t):
        rng = self.rng
        rid = self._id()
        info = {"id": rid, "type": t, "tests": set(), "var": None, "timeout": 0}
        row = {"row_id": rid, "type": t}
        n = len(self.rows)
        if t == "send_message":
            row["message_text"] = f"msg {n}"
            if rng.random() < 0.06:
                # a LONG message (beyond every limit the tool knows for other kinds of text): still one message
                row["message_text"] = f"msg {n} " + " ".join(rng.choice(WORDS) or "w" for _ in range(rng.randint(140, 260)))
            if rng.random() < 0.3:
                row["choices"] = rng.choice(["a;b", "Yes;No;Maybe", "one"])
            if rng.random() < 0.15:
                row["image"] = "http://x/i.png"
            if rng.random() < 0.1:
                row["attachments"] = "audio:http://x/a.mp3;video:http://x/v.mp4"
            if rng.random() < 0.08:
                row["audio"] = "http://x/b.mp3"
            if rng.random() < 0.08:
                row["video"] = "http://x/w.mp4"
        elif t == "save_value":
            row["message_text"] = f"val{n}"
            row["save_name"] = rng.choice(["color", "Fav Food", "age"])
        elif t in ("add_to_group", "remove_from_group"):
            # (a group may well be called like a flow: they are different objects with identifiers of their own)
            row["message_text"] = rng.choice(["GrpA", "GrpB", "Grp D", "GrpA", "child one"])
            if rng.random() < 0.25:
                # several groups in one cell: the action names every one of them, in order
                row["message_text"] = ";".join(rng.sample(["GrpA", "GrpB", "Grp D", "GrpC", "child one"], rng.randint(2, 3)))
        elif t == "save_flow_result":
            row["message_text"] = f"res{n}"
            row["save_name"] = rng.choice(["answer", "score"])
            if rng.random() < 0.4:
                row["result_category"] = "Good"
        elif t == "set_contact_language":
            row["message_text"] = rng.choice(["eng", "fra"])
        elif t == "set_contact_name":
            row["message_text"] = f"Name {n}"
        elif t == "set_contact_status":
            row["message_text"] = rng.choice(["active", "blocked", "stopped", "archived"])
        elif t == "set_contact_timezone":
            row["message_text"] = rng.choice(["Africa/Nairobi", "Europe/Berlin"])
        elif t == "set_contact_channel":
            row["message_text"] = rng.choice(["Channel 1", "WhatsApp line"])
        elif t == "add_contact_urn":
            row["message_text"] = f"+1555{n:04d}"
            if rng.random() < 0.5:
                row["urn_scheme"] = rng.choice(["tel", "whatsapp"])
        elif t == "wait_for_response":
            if rng.random() < 0.5:
                info["timeout"] = rng.choice([60, 300])
                row["no_response"] = str(info["timeout"])
            if rng.random() < 0.5:
                row["save_name"] = rng.choice(["answer", "reply"])
        elif t == "split_by_value":
            row["message_text"] = rng.choice(["@fields.color", "@results.answer", "@contact.name"])
            if rng.random() < 0.3:
                row["save_name"] = "split_res"
        elif t == "split_by_group":
            row["message_text"] = "GrpA"
        elif t == "split_random":
            if rng.random() < 0.3:
                row["save_name"] = "rnd"
        elif t == "start_new_flow":
            row["message_text"] = rng.choice(["child one", "child_two"])
        elif t == "call_webhook":
            row["message_text"] = rng.choice(["", "{}"])
            row["webhook.url"] = "http://example.com/hook"
            row["webhook.method"] = rng.choice(["", "GET", "POST"])
            row["save_name"] = rng.choice(["hook res", "wh"])
            if rng.random() < 0.4:
                row["webhook.headers"] = "Accept;text/plain|X-A;b"
        elif t == "transfer_airtime":
            row["message_text"] = "USD;5|KES;20.5"
            row["save_name"] = "air res"
        if rng.random() < 0.12:
            row["_ui_position"] = f"{rng.randint(0, 900)};{rng.randint(0, 900)}"
        self._edge_srcs = []
        edges = self._edges()
        self._emit(row, edges)
        self._note_named(rid)
        self.nodes.append(info)
        self._last_group = info

    def _shared_category_goto(self, tg):
        """a go_to row adding ANOTHER test to a category that an earlier edge of the same row named, leading to the
        same row as that edge: one category, two tests, one destination — single meaning; the new test is declared
        after (and is tried after) every test declared in between, whatever category those belong to"""
        rng = self.rng
        ok_ids = {x["id"] for x in tg}
        cands = [(x, nm, t) for x in self.nodes if not x.get("closed") for nm, t in x.get("named", []) if t in ok_ids]
        if not cands:
            return False
        src, name, tgt = rng.choice(cands)
        for _ in range(6):
            cond = self._edge_for(src)
            if (cond["value"] or cond["type"]) and cond["value"].lower() != "no response":
                break
        else:
            return False
        cond["name"] = name
        self._emit({"row_id": "", "type": "go_to", "message_text": tgt}, [(src["id"], cond)])
        self.shared_cat_gotos = getattr(self, "shared_cat_gotos", 0) + 1
        return True

    def _goto_row(self):
        rng = self.rng
        if not self.dups and rng.random() < 0.3:
            tg0 = [x for x in self.nodes if x["type"] != "no_op" and not x.get("merged")]
            if self._shared_category_goto(tg0):
                return
        self._edge_srcs = []
        edges = self._edges()
        # (a go_to into a row merged into an earlier row's node would enter that node at its first action: F-C02-d)
        tg = [x for x in self.nodes if x["type"] != "no_op" and not x.get("merged")]
        if not tg:
            return self._node_row(rng.choice(ACTION_TYPES))
        if len(edges) > 1 and rng.random() < 0.5:
            dests = [rng.choice(tg)["id"] for _ in edges]
        else:
            dests = [rng.choice(tg)["id"]]
        dests = [d for d in dests]
        row = {"row_id": "", "type": "go_to", "message_text": ";".join(dests) + (";" if len(dests) == 1 and False else "")}
        self._emit(row, edges)

    def _exit_row(self):
        row = {"row_id": "", "type": self.rng.choice(["hard_exit", "loose_exit"])}
        self._emit(row, self._edges())

    def _noop_row(self, constrained=False):
        """a no_op inside NoopStable by construction (most of the time; always when `constrained`):
        in-edges from non-no_op rows, then immediately the rows that leave it — conditional ones
        first — while its sources receive no other edge."""
        rng = self.rng
        rid = self._id()
        info = {"id": rid, "type": "no_op", "tests": set(), "var": None, "timeout": 0}
        if not constrained and rng.random() < 0.2:
            # unconstrained variant (often outside NoopStable; exercised for C01 only)
            edges = self._edges()
            self._emit({"row_id": rid, "type": "no_op"}, edges)
            self.nodes.append(info)
            self._last_group = info
            return
        cands = [x for x in self.nodes if x["type"] != "no_op" and not x.get("closed")]
        if not cands:
            return self._node_row(rng.choice(ACTION_TYPES))
        srcs = []
        for _ in range(1 if rng.random() < 0.6 else 2):
            idx = len(cands) - 1 - min(int(rng.expovariate(0.6)), len(cands) - 1)
            if cands[idx] not in srcs:
                srcs.append(cands[idx])
        edges = [(x["id"], self._edge_for(x)) for x in srcs]
        self._emit({"row_id": rid, "type": "no_op"}, edges)
        self.nodes.append(info)
        self._last_group = info
        frozen = list(srcs)
        # leaving rows: k conditional (one variable), then 0/1 unconditional
        kc = rng.choice([0, 0, 1, 2, 3])
        ku = 1 if (kc == 0 or rng.random() < 0.6) else 0
        info["var"] = rng.choice(["@fields.color", "@results.answer"])
        blank = {"value": "", "variable": "", "type": "", "name": ""}
        for j in range(kc + ku):
            if j < kc:
                cond = self._fresh_test(info, {"value": "", "variable": info["var"], "type": "", "name": ""})
                if not cond["value"]:
                    continue
                cond["variable"] = info["var"]
                if self.dups and rng.random() < 0.5:
                    # the conditions leaving one no_op row test DIFFERENT variables (legal; outside C02's
                    # single-meaning sheets: the junction has one decision)
                    cond["variable"] = rng.choice(["@fields.color", "@results.answer", "@fields.age_group"])
            else:
                cond = dict(blank)
            t = rng.choice(ACTION_TYPES + ["wait_for_response", "split_by_value"])
            self._forced_node_row(t, [(rid if (j > 0 or rng.random() < 0.5) else "", cond)], frozen)
        info["closed"] = True   # no further edge leaves it (keeps conditional-before-unconditional)

    def _forced_node_row(self, t, edges, frozen):
        """a node row with the given edges plus (sometimes) extra edges from non-frozen rows"""
        saved = self._edges
        rng = self.rng

        def forced(allow_blank_from=True):
            extra = []
            if rng.random() < 0.25:
                pool = [x for x in self.nodes if x not in frozen and not x.get("closed") and x["type"] != "no_op"]
                if pool:
                    x = rng.choice(pool)
                    extra.append((x["id"], self._edge_for(x)))
            return list(edges) + extra

        self._edges = forced
        try:
            self._node_row(t)
        finally:
            self._edges = saved


def gen_core_sheet(rng: random.Random, n_rows: int, noop: bool = False, dups: bool = False) -> list[dict]:
    return SheetGen(rng, n_rows, noop, dups).build()


# ------------------------------------------------------------------ reference table (rows → kind/act/operand)

KIND = {
    "wait_for_response": "wait", "split_by_value": "split_value", "split_by_group": "split_group",
    "split_random": "split_random", "start_new_flow": "enter_flow", "call_webhook": "webhook",
    "transfer_airtime": "airtime", "no_op": "no_op", "go_to": "go_to", "hard_exit": "hard_exit",
    "loose_exit": "loose_exit",
}


def _num(v: str):
    try:
        return int(v)
    except ValueError:
        return float(v)


def reference_row(row) -> dict:
    """What a parsed FlowRowModel means, read off docs/sheets.md: the row's kind, the action it
    performs (observable content as canonical JSON) and the operand it decides on."""
    t = row.type
    kind = KIND.get(t, "action")
    act = None
    operand = ""
    if t == "send_message":
        atts = []
        for ty, v in (("image", row.image), ("audio", row.audio), ("video", row.video)):
            if v.strip():
                atts.append(f"{ty}:{v.strip()}")
        atts += [a for a in row.attachments if a]
        act = {"type": "send_msg", "text": row.mainarg_message_text, "attachments": atts,
               "quick_replies": [q for q in row.choices if q]}
    elif t == "save_value":
        act = {"type": "set_contact_field", "field": {"name": row.save_name, "key": field_key(row.save_name)}, "value": row.mainarg_value}
    elif t == "add_to_group":
        # every listed group: the first as written, further blank entries skipped
        act = {"type": "add_contact_groups", "groups": [{"name": row.mainarg_groups[0]}] + [{"name": g} for g in row.mainarg_groups[1:] if g]}
    elif t == "remove_from_group":
        # every listed group: the first as written, further blank entries skipped
        act = {"type": "remove_contact_groups", "groups": [{"name": row.mainarg_groups[0]}] + [{"name": g} for g in row.mainarg_groups[1:] if g]}
    elif t == "save_flow_result":
        act = {"type": "set_run_result", "name": row.save_name, "value": row.mainarg_value}
        if row.result_category:
            act["category"] = row.result_category
    elif t.startswith("set_contact_"):
        act = {"type": t, t.replace("set_contact_", ""): row.mainarg_value}
    elif t == "add_contact_urn":
        act = {"type": "add_contact_urn", "path": row.mainarg_value, "scheme": row.urn_scheme or "tel"}
    elif t == "start_new_flow":
        act = {"type": "enter_flow", "flow": {"name": row.mainarg_flow_name}}
        operand = "@child.run.status"
    elif t == "call_webhook":
        hdrs = row.webhook.headers
        headers = {} if hdrs in ([], [""]) else {k: v for k, v in hdrs}
        act = {"type": "call_webhook", "result_name": row.save_name, "url": row.webhook.url,
               "method": row.webhook.method or "POST", "body": row.webhook.body, "headers": headers}
        operand = f"@results.{field_key(row.save_name)}.category"
    elif t == "transfer_airtime":
        act = {"type": "transfer_airtime", "amounts": {k: _num(v) for k, v in row.mainarg_dict}, "result_name": row.save_name}
        operand = f"@results.{field_key(row.save_name)}"
    elif t == "wait_for_response":
        operand = "@input.text"
    elif t == "split_by_value":
        operand = row.mainarg_expression
    elif t == "split_by_group":
        operand = "@contact.groups"
    out = {
        "row_id": row.row_id,
        "kind": kind,
        "edges": [{"from": e.from_, "condition": {"value": e.condition.value, "variable": e.condition.variable,
                                                  "type": e.condition.type, "name": e.condition.name}} for e in row.edges],
        "act": json.dumps(act, sort_keys=True, ensure_ascii=False) if act is not None else None,
        "operand": operand,
        "save_name": row.save_name,
        "timeout": int(row.no_response) if (t == "wait_for_response" and row.no_response) else 0,
        "dests": list(row.mainarg_destination_row_ids),
    }
    return out


# ------------------------------------------------------------------ NoopStable (DESIGN §5 C02 notes)


def resolve_edges(parsed_rows):
    """Pass 1 of the reference reading, on parsed FlowRowModels: list of
    (row index of edge, source row index, condition, target) with target = row index | 'exit';
    returns None when a `from` / go_to destination does not resolve."""
    prev = None
    ids = {}
    out = []
    for k, row in enumerate(parsed_rows):
        t = row.type
        is_node = t not in ("go_to", "hard_exit", "loose_exit")
        edges = list(row.edges)
        if t == "go_to":
            dests = list(row.mainarg_destination_row_ids)
            if len(dests) == 1:
                dests = dests * len(edges)
            if len(dests) != len(edges):
                return None
        for j, e in enumerate(edges):
            blank = e.from_ == "" and e.condition.value == "" and e.condition.variable == "" and e.condition.type == "" and e.condition.name == ""
            if j > 0 and blank:
                continue
            if e.from_ == "start":
                continue
            if e.from_ == "":
                src = prev
            else:
                if e.from_ not in ids:
                    return None
                src = ids[e.from_]
            if src is None:
                continue
            if t == "go_to":
                if dests[j] not in ids:
                    return None
                tgt = ids[dests[j]]
            elif is_node:
                tgt = k
            else:
                tgt = "exit"
            out.append((k, src, e.condition, tgt))
        if is_node:
            if row.row_id:
                ids[row.row_id] = k
            prev = k
    return out


def noop_stable(parsed_rows) -> bool:
    es = resolve_edges(parsed_rows)
    if es is None:
        return False
    for n, row in enumerate(parsed_rows):
        if row.type != "no_op":
            continue
        leaving = [(k, c) for (k, s, c, t) in es if s == n]
        incoming = [(k, s) for (k, s, c, t) in es if t == n]
        if not leaving:
            return False
        # in-edges come from non-no_op rows, created by the no_op row itself (not by a go_to)
        for k, s in incoming:
            if k != n or parsed_rows[s].type == "no_op":
                return False
        last = max(k for k, _ in leaving)
        srcs = {s for _, s in incoming}
        for (k, s, c, t) in es:
            if s in srcs and n < k <= last:
                return False
        seen_uncond = False
        for k, c in leaving:
            cond = bool(c.value or c.variable or c.type or c.name)
            if cond and seen_uncond:
                return False
            if not cond:
                seen_uncond = True
            if cond and not c.variable:
                return False
    return True
