"""Seeded generator of RapidPro flow definitions in the export schema ("foreign-style"), inside the
part of the schema the sheet format can express (DESIGN §5 C04 `Expressible`):
every node reachable from the first; conditional categories connected; one case per category, in
category order; single-argument or no-argument tests; add/remove-group actions with 1-3 groups; group splits with one group per case and
compiler-style category names; webhooks without headers; no pass-through-only action types.
Graph shapes: trees, joins, cycles, self loops.  Texts over an alphabet with separators, escapes,
newlines and non-ASCII (trimmed, template-free — C07's representable domain)."""
from __future__ import annotations

import random
import uuid as _uuid

SPECIAL = ["|", ";", "\\", ",", '"', "\n", "é", "日本", "a|b", "x;y", "\\;", "tab\there", "q'uote", "ü ber", "\U0001F600",
           # text that is not in Unicode normal form (decomposed accents, singleton code points, jamo): a string is the
           # sequence of its code points, in a flow file and in a sheet alike
           "cafe\u0301", "\u212b", "\u2126m", "q\u0323\u0307", "\u1100\u1161", "\u037e", "A\u030a"]
WORDS = ["yes", "no", "red", "blue", "stop", "go", "one two", "7", "Alpha"]
TESTS1 = ["has_any_word", "has_phrase", "has_only_phrase", "has_beginning", "has_number_eq", "has_pattern", "has_only_text", "has_number_gt",
          "all_words", "has_number_lt", "has_number_lte", "has_number_gte", "has_date_lt", "has_date_eq", "has_date_gt", "has_district", "has_category"]
TESTS0 = ["has_text", "has_number", "has_email", "has_date", "has_time", "has_state", "has_error"]


class FlowGen:
    def __init__(self, rng: random.Random, n_nodes: int, special_text=True, ui=False):
        self.rng = rng
        self.n = n_nodes
        self.special = special_text
        self.ui = ui
        self._u = 0

    def uuid(self):
        # deterministic from the rng so that a case replays exactly
        return str(_uuid.UUID(int=self.rng.getrandbits(128), version=4))

    def text(self, base):
        rng = self.rng
        if self.special and rng.random() < 0.08:
            # nothing a readable row id can be made of (no ASCII letter or digit at all)
            return rng.choice(["你好！", "日本語のテキスト", "\U0001F600\U0001F600", "¿¡?", "Привет"])
        s = base
        if rng.random() < 0.5:
            # long shared prefixes: readable row ids (first 15 mangled characters) collide across nodes
            s = rng.choice(["Thank you for your feedback, ", "Thank you for your honesty, ", "Please tell us more about "]) + base
        if self.special and rng.random() < 0.5:
            s = s + " " + rng.choice(SPECIAL)
            if rng.random() < 0.3:
                s = rng.choice(SPECIAL) + s
        return s.strip()

    def word(self):
        rng = self.rng
        w = rng.choice(WORDS)
        if self.special and rng.random() < 0.3:
            w = w + rng.choice(["|", ";", "\\", "é", " x", "e\u0301", "\u212b"])
        return w.strip()

    # ---- actions
    def action(self, k):
        rng = self.rng
        t = rng.choice(["send_msg", "send_msg", "send_msg", "set_contact_field", "add_contact_groups", "remove_contact_groups",
                        "set_run_result", "set_contact_name", "set_contact_language", "add_contact_urn"])
        a = {"uuid": self.uuid(), "type": t}
        if t == "send_msg":
            a["text"] = self.text(f"message {k}")
            n_att = rng.choice([0, 0, 0, 1, 2])
            a["attachments"] = [rng.choice(["image", "audio", "video"]) + f":http://x.org/f{k}_{j}" for j in range(n_att)]
            a["quick_replies"] = [self.word() for _ in range(rng.choice([0, 0, 2, 3]))]
        elif t == "set_contact_field":
            name = rng.choice(["Color", "fav food", "age"])
            a["field"] = {"name": name, "key": name.strip().lower().replace(" ", "_")}
            a["value"] = self.text(f"v{k}")
        elif t in ("add_contact_groups", "remove_contact_groups"):
            # group names may carry the cell separators and the escape character (the exported cell is a
            # one-element list: it must be escaped like any other list cell)
            # several groups in one action (1-3; the same name may come twice): every name is exported, the first
            # group's uuid travels in obj_id, the others are referenced by name (uuids filled in by `build`, one per name)
            a["groups"] = [{"name": rng.choice(["GrpA", "GrpB", "Grp C", "GrpA", "Parents; Teachers", "Staff|Volunteers", "a\\b"]), "uuid": None}
                           for _ in range(rng.choice([1, 1, 1, 2, 2, 3]))]
        elif t == "set_run_result":
            a["name"] = rng.choice(["answer", "score"])
            a["value"] = self.text(f"r{k}")
            if rng.random() < 0.4:
                a["category"] = "Good"
        elif t == "set_contact_name":
            a["name"] = self.text(f"Name {k}")
        elif t == "set_contact_language":
            a["language"] = rng.choice(["eng", "fra"])
        elif t == "add_contact_urn":
            a["path"] = f"+1555{k:04d}"
            a["scheme"] = rng.choice(["tel", "whatsapp"])
        return a

    # ---- nodes with open out-slots
    def build(self, name="flow"):
        rng = self.rng
        kinds = []
        for i in range(self.n):
            kinds.append(rng.choice(["basic", "basic", "basic", "wait", "wait", "split", "group", "random", "enter", "webhook", "airtime"]))
        nodes = []
        group_uuids = {}

        def guid(gname):
            if gname not in group_uuids:
                group_uuids[gname] = self.uuid()
            return group_uuids[gname]

        for i, kind in enumerate(kinds):
            node = {"uuid": self.uuid(), "actions": [], "exits": []}
            slots = []  # (exit dict, must_connect)

            def cat(name):
                e = {"uuid": self.uuid(), "destination_uuid": None}
                c = {"uuid": self.uuid(), "name": name, "exit_uuid": e["uuid"]}
                node["exits"].append(e)
                return c, e

            if kind == "basic":
                node["actions"] = [self.action(i * 10 + j) for j in range(rng.choice([1, 1, 2, 3]))]
                for a in node["actions"]:
                    for g in a.get("groups", []):
                        g["uuid"] = guid(g["name"])
                e = {"uuid": self.uuid(), "destination_uuid": None}
                node["exits"] = [e]
                slots.append((e, False))
            elif kind in ("wait", "split", "group"):
                m = rng.choice([1, 2, 2, 3])
                cases, cats = [], []
                used = set()
                gnames = ["GrpA", "GrpB", "Grp C"]
                rng.shuffle(gnames)
                for j in range(m):
                    if kind == "group":
                        gname = gnames[j]
                        cname = "None_" + gname.title()
                        c, e = cat(cname)
                        cases.append({"uuid": self.uuid(), "type": "has_group", "arguments": [guid(gname), gname], "category_uuid": c["uuid"]})
                    else:
                        for _ in range(30):
                            if rng.random() < 0.15:
                                ty, args = rng.choice(TESTS0), []
                            else:
                                ty, args = rng.choice(TESTS1), [self.word()]
                            if (ty, tuple(args)) not in used:
                                break
                        used.add((ty, tuple(args)))
                        cname = f"Cat {j} " + (rng.choice(["é", "|x", "y;z"]) if self.special and rng.random() < 0.3 else "")
                        c, e = cat(cname.strip())
                        cases.append({"uuid": self.uuid(), "type": ty, "arguments": args, "category_uuid": c["uuid"]})
                    cats.append(c)
                    slots.append((e, True))
                dc, de = cat("Other")
                cats.append(dc)
                filed_under_default = kind != "group" and rng.random() < 0.15
                if filed_under_default:
                    # a rule filed under the router's DEFAULT category (by name): the default exit is shared by
                    # that rule and by "everything else"
                    for _ in range(30):
                        ty, args = rng.choice(TESTS1), [self.word()]
                        if (ty, tuple(args)) not in used:
                            break
                    used.add((ty, tuple(args)))
                    cases.append({"uuid": self.uuid(), "type": ty, "arguments": args, "category_uuid": dc["uuid"]})
                slots.append((de, filed_under_default))
                router = {"type": "switch", "operand": {"wait": "@input.text", "split": rng.choice(["@fields.color", "@results.answer", "@contact.name"]), "group": "@contact.groups"}[kind],
                          "cases": cases, "categories": cats, "default_category_uuid": dc["uuid"]}
                if kind == "wait":
                    router["wait"] = {"type": "msg"}
                    if rng.random() < 0.5:
                        tc, te = cat("No Response")
                        cats.append(tc)
                        slots.append((te, False))
                        router["wait"]["timeout"] = {"seconds": rng.choice([60, 300]), "category_uuid": tc["uuid"]}
                    router["result_name"] = rng.choice(["answer", "reply", ""])
                node["router"] = router
            elif kind == "random":
                cats = []
                for j in range(rng.choice([2, 3])):
                    c, e = cat(f"Bucket {j + 1}")
                    cats.append(c)
                    slots.append((e, True))
                node["router"] = {"type": "random", "categories": cats}
            elif kind in ("enter", "webhook", "airtime"):
                if kind == "enter":
                    node["actions"] = [{"uuid": self.uuid(), "type": "enter_flow", "flow": (lambda nm: {"name": nm, "uuid": guid("flow:" + nm)})(rng.choice(["child one", "child_two"]))}]
                    operand, first, second, ty, arg = "@child.run.status", "Complete", "Expired", "has_only_text", "completed"
                elif kind == "webhook":
                    rn = rng.choice(["hook res", "wh"])
                    node["actions"] = [{"uuid": self.uuid(), "type": "call_webhook", "result_name": rn, "url": "http://example.com/h", "method": rng.choice(["GET", "POST"]),
                                        "body": "", "headers": {}}]
                    operand, first, second, ty, arg = f"@results.{rn.replace(' ', '_')}.category", "Success", "Failure", "has_only_text", "Success"
                else:
                    rn = "air res"
                    node["actions"] = [{"uuid": self.uuid(), "type": "transfer_airtime", "amounts": {"USD": 5, "KES": 20.5}, "result_name": rn}]
                    operand, first, second, ty, arg = "@results.air_res", "Success", "Failure", "has_category", "Success"
                c1, e1 = cat(first)
                c2, e2 = cat(second)
                cases = [{"uuid": self.uuid(), "type": ty, "arguments": [arg], "category_uuid": c1["uuid"]}]
                if kind == "enter":
                    cases.append({"uuid": self.uuid(), "type": "has_only_text", "arguments": ["expired"], "category_uuid": c2["uuid"]})
                node["router"] = {"type": "switch", "operand": operand, "cases": cases, "categories": [c1, c2], "default_category_uuid": c2["uuid"]}
                slots += [(e1, False), (e2, False)]
            nodes.append((node, slots))

        # spanning tree: node k hangs off a free slot of an earlier node (reachability)
        free = [(0, s) for s in nodes[0][1]]
        keep = 1
        for k in range(1, self.n):
            if not free:
                break
            idx = rng.randrange(len(free))
            _, (e, _) = free.pop(idx)
            e["destination_uuid"] = nodes[k][0]["uuid"]
            free += [(k, s) for s in nodes[k][1]]
            keep = k + 1
        nodes = nodes[:keep]
        ids = [n["uuid"] for n, _ in nodes]
        # remaining slots: must-connect ones get any target (joins / back edges / self loops), others sometimes
        for k, (e, must) in free:
            if k >= keep:
                continue
            if must or rng.random() < 0.45:
                e["destination_uuid"] = rng.choice(ids)
        flow = {
            "uuid": self.uuid(), "name": name, "language": "eng", "type": "messaging",
            "nodes": [n for n, _ in nodes], "spec_version": "13.1.0", "revision": 0, "expire_after_minutes": 10080,
            "metadata": {}, "localization": {},
        }
        if self.ui:
            flow["_ui"] = {"nodes": {n["uuid"]: {"position": {"left": 10 * i, "top": 20 * i}, "type": "execute_actions"} for i, (n, _) in enumerate(nodes)}}
        groups = [{"name": g, "uuid": u} for g, u in group_uuids.items() if not g.startswith("flow:")]
        return {"campaigns": [], "fields": [], "flows": [flow], "groups": groups, "site": "https://rapidpro.idems.international",
                "triggers": [], "version": "13"}


def gen_container(rng: random.Random, n_nodes: int, special_text=True, ui=False, name="flow"):
    return FlowGen(rng, n_nodes, special_text, ui).build(name)


# ------------------------------------------------------------------ exporter order model (which router test orders survive)


def exit_edge_pairs(node):
    """(destination, is_conditional) in the order the exporter emits a node's leaving edges"""
    r = node.get("router")
    ex = {e["uuid"]: e.get("destination_uuid") for e in node["exits"]}
    if not r:
        return [(node["exits"][0].get("destination_uuid"), False)]
    if r["type"] == "random":
        return [(ex.get(c["exit_uuid"]), True) for c in r["categories"]]
    out = []
    d = r["default_category_uuid"]
    t = (r.get("wait") or {}).get("timeout", {}).get("category_uuid")
    cats = [c for c in r["categories"] if c["uuid"] not in (d, t)] + [c for c in r["categories"] if c["uuid"] == d] + [c for c in r["categories"] if c["uuid"] == t and t]
    covered = set()
    for c in cats:
        for k in r["cases"]:
            if k["category_uuid"] == c["uuid"]:
                covered.add(c["uuid"])
                out.append((ex.get(c["exit_uuid"]), True))
                break
    if d not in covered:
        dc = [c for c in r["categories"] if c["uuid"] == d][0]
        out.append((ex.get(dc["exit_uuid"]), False))
    if t:
        tc = [c for c in r["categories"] if c["uuid"] == t][0]
        out.append((ex.get(tc["exit_uuid"]), False))
    return out


def order_stable(flow) -> bool:
    """Would the exporter's row order reproduce, for every router, the order of its conditional
    edges?  (Python mirror of the DFS of FlowContainer._to_rows_recurse; DESIGN §5 C04 OrderStable.)"""
    nodes = {n["uuid"]: n for n in flow["nodes"]}
    visited, completed = set(), set()
    rows = []            # list of row tokens, final order
    edge_row = {}        # (src uuid, pair index) -> row token carrying that edge
    counter = [0]

    def rec(u):
        visited.add(u)
        pairs = exit_edge_pairs(nodes[u])
        nonlocal rows
        for i in range(len(pairs) - 1, -1, -1):
            dest, _ = pairs[i]
            if not dest or dest not in nodes:
                continue
            if dest in completed:
                edge_row[(u, i)] = ("node", dest)
            elif dest in visited:
                counter[0] += 1
                tok = ("goto", counter[0])
                rows.insert(0, tok)
                edge_row[(u, i)] = tok
            else:
                edge_row[(u, i)] = ("node", dest)
                rec(dest)
        completed.add(u)
        rows = [("node", u)] + rows

    import sys
    sys.setrecursionlimit(10000)
    rec(flow["nodes"][0]["uuid"])
    pos = {tok: i for i, tok in enumerate(rows)}
    for u, n in nodes.items():
        if u not in completed:
            continue
        pairs = exit_edge_pairs(n)
        last = -1
        for i, (dest, cond) in enumerate(pairs):
            if not cond or (u, i) not in edge_row:
                continue
            p = pos[edge_row[(u, i)]]
            if p < last:
                return False
            last = p
    return True


def reachable_all(flow) -> bool:
    nodes = {n["uuid"]: n for n in flow["nodes"]}
    seen = set()
    todo = [flow["nodes"][0]["uuid"]]
    while todo:
        u = todo.pop()
        if u in seen or u not in nodes:
            continue
        seen.add(u)
        for e in nodes[u]["exits"]:
            if e.get("destination_uuid"):
                todo.append(e["destination_uuid"])
    return len(seen) == len(nodes)
