"""Sugared flow sheets (begin_for / begin_block / include_if / insert_as_block), their
desugared twins, and small content-index workbooks with templates, data rows and arguments."""
from __future__ import annotations

import random

from . import sheets as G

H = G.HEADERS


def _cp():
    from rpft.parsers.common.cellparser import CellParser

    return CellParser()


# ------------------------------------------------------------------ generator


class SugarGen:
    def __init__(self, rng: random.Random, budget: int, max_depth=3):
        self.rng = rng
        self.budget = budget
        self.max_depth = max_depth
        self.rows: list[dict] = []
        self.n = 0

    def _id(self, p="s"):
        self.n += 1
        return f"{p}{self.n}"

    def text(self, scope):
        rng = self.rng
        t = f"text {len(self.rows)}"
        for v in scope:
            if rng.random() < 0.7:
                t += " {{" + v + "}}"
        # (the text never ENDS in a reference: a value that renders to nothing would leave a trailing blank, which the
        # twin's cell loses when it is read while the sugared cell is trimmed before it is instantiated — an artefact of
        # comparing through cells, nothing C03 speaks about)
        return t + " ." if t.endswith("}}") else t

    def include_if(self, scope):
        rng = self.rng
        r = rng.random()
        if r < 0.6:
            return ""
        if r < 0.7:
            return rng.choice(["TRUE", "true", "True"])
        if r < 0.85:
            return rng.choice(["FALSE", "false", "False"])
        loopvars = [v for v in scope if not v.startswith("i")]
        if loopvars:
            v = rng.choice(loopvars)
            return "{{" + v + " == '" + rng.choice(["a", "b", "zz"]) + "'}}"
        return "{{1 == " + rng.choice(["1", "2"]) + "}}"

    def body(self, depth, scope, local_ids, first_from):
        """emit rows of one body; `local_ids`: ids usable as `from` here; returns nothing"""
        rng = self.rng
        n_items = rng.randint(1, 4)
        pending_from = first_from  # `from` for the first emitted node row (None → blank)
        for it in range(n_items):
            if self.budget <= 0:
                break
            r = rng.random()

            def frm():
                nonlocal pending_from
                if pending_from is not None:
                    f, pending_from = pending_from, None
                    return f
                if local_ids and rng.random() < 0.4:
                    return rng.choice(local_ids[-3:])
                if depth >= 1 and rng.random() < 0.06:
                    # a row attached to `start` in the middle of a block / loop body, after other rows: an entry
                    # fragment nothing leads to (a shared 'help' message that is only a go_to target, say)
                    return "start"
                return ""

            if r < 0.45 or depth >= self.max_depth:
                rid = self._id()
                row = {"row_id": rid, "type": "send_message", "from": frm(), "message_text": self.text(scope),
                       "include_if": self.include_if(scope)}
                if rng.random() < 0.2:
                    row["choices"] = "A;B"
                self.rows.append(row)
                self.budget -= 1
                if row["include_if"] == "" or row["include_if"].lower() == "true":
                    local_ids.append(rid)
            elif r < 0.6:
                # a wait with two answers and a join
                w = self._id("w")
                self.rows.append({"row_id": w, "type": "wait_for_response", "from": frm(),
                                  "no_response": rng.choice(["", "", "120"])})
                a, b = self._id(), self._id()
                self.rows.append({"row_id": a, "type": "send_message", "from": w, "condition": rng.choice(["yes", "y"]),
                                  "message_text": self.text(scope)})
                self.rows.append({"row_id": b, "type": "send_message", "from": w, "condition": "",
                                  "message_text": self.text(scope)})
                k = rng.random()
                if k < 0.3:
                    self.rows.append({"row_id": "", "type": rng.choice(["hard_exit", "loose_exit"]), "from": a})
                    local_ids += [w, b]
                elif k < 0.6:
                    j = self._id()
                    self.rows.append({"row_id": j, "type": "send_message", "from": f"{a};{b}", "message_text": self.text(scope)})
                    local_ids += [w, a, b, j]
                else:
                    local_ids += [w, a, b]
                self.budget -= 3
            elif r < 0.68 and [x for x in local_ids if x[0] in "sw"]:
                nodes_only = [x for x in local_ids if x[0] in "sw"]
                self.rows.append({"row_id": "", "type": "go_to", "from": frm() or rng.choice(local_ids), "message_text": rng.choice(nodes_only)})
                self.budget -= 1
            elif r < 0.74 and [x for x in local_ids if x[0] in "LB"]:
                # an exit row attached to a whole block / loop (by id, or blank `from` right after it)
                blocks = [x for x in local_ids if x[0] in "LB"]
                last_is_block = self.rows and self.rows[-1]["type"] in ("end_for", "end_block")
                f = "" if (last_is_block and rng.random() < 0.5) else rng.choice(blocks)
                self.rows.append({"row_id": "", "type": rng.choice(["hard_exit", "hard_exit", "loose_exit"]), "from": f})
                self.budget -= 1
            elif r < 0.86:
                self.loop(depth, scope, local_ids, frm())
            else:
                self.block(depth, scope, local_ids, frm())

    def loop(self, depth, scope, local_ids, frm):
        rng = self.rng
        bid = self._id("L")
        # mostly one name per depth; sometimes a name already bound outside (shadowing must compose)
        var = f"v{depth}" if (depth == 0 or rng.random() < 0.75) else f"v{rng.randrange(depth)}"
        idx = f"i{depth}" if (depth == 0 or rng.random() < 0.75) else f"i{rng.randrange(depth)}"
        use_idx = rng.random() < 0.4
        k = rng.choice([0, 1, 1, 2, 2, 3])
        elems = [rng.choice(["a", "b", "c", "d"]) for _ in range(k)]
        style = rng.random()
        if k == 0:
            cell = rng.choice(["{@[]@}", "{@range(0)@}"])
        elif style < 0.5:
            cell = ";".join(elems) + (";" if k == 1 else "")
        elif style < 0.75:
            cell = "{@range(" + str(k) + ")@}"
        else:
            cell = "{@[" + ",".join(repr(e) for e in elems) + "]@}"
        if k >= 1 and rng.random() < 0.2:
            # the LAST element is falsy but is an element all the same (blank text, zero): the loop runs for it, and
            # its variables are gone after end_for like any other loop's
            if rng.random() < 0.5:
                cell = ";".join(elems[:-1] + [""]) + ";"
            else:
                cell = "{@[" + ",".join([repr(e) for e in elems[:-1]] + [rng.choice(["''", "0", "0.0", "[]"])]) + "]@}"
        if k >= 1 and rng.random() < 0.15:
            # a native list produced by a template filter: a lazy iterable, a list of elements all the same
            lit = "[" + ",".join(repr(e) for e in elems) + "]"
            cell = rng.choice(["{@" + lit + "|reverse@}", "{@" + lit + "|map('upper')@}", "{@" + lit + "|select('ne', 'zz')@}",
                               "{@range(" + str(k) + ")|reverse@}", "{@" + lit + "|map('lower')|reverse@}"])
        outer_idx = [x for x in scope if x.startswith("i")]
        if outer_idx and rng.random() < 0.35:
            # the list depends on an enclosing loop: empty on one pass, non-empty on another
            cell = "{@range(" + rng.choice(outer_idx) + ")@}"
        inc = rng.choice(["", "", "", "FALSE"])
        if scope and rng.random() < 0.3:
            inc = self.include_if(scope) or inc
        self.rows.append({"row_id": bid, "type": "begin_for", "from": frm, "loop_variable": var + (";" + idx if use_idx else ""),
                          "message_text": cell, "include_if": inc})
        self.budget -= 1
        inner_scope = scope + [var] + ([idx] if use_idx else [])
        self.body(depth + 1, inner_scope, [], None)
        self.rows.append({"row_id": "", "type": "end_for"})
        if self.rows[-1 - 0]["type"] == "end_for":
            pass
        local_ids.append(bid)

    def block(self, depth, scope, local_ids, frm):
        rng = self.rng
        bid = self._id("B")
        excluded = rng.random() < 0.25
        inc = "FALSE" if excluded else ""
        if not excluded and scope and rng.random() < 0.4:
            # included on some passes of the enclosing loop only
            inc = self.include_if(scope)
        self.rows.append({"row_id": bid, "type": "begin_block", "from": frm, "include_if": inc})
        self.budget -= 1
        if excluded and rng.random() < 0.5:
            # contents of an excluded block are never evaluated: an unevaluable template is harmless
            self.rows.append({"row_id": "", "type": "send_message", "from": "", "message_text": "{{ nothing.here.at_all }}"})
        self.body(depth + 1, scope, [], None)
        self.rows.append({"row_id": "", "type": "end_block"})
        if not excluded:
            local_ids.append(bid)

    def build(self):
        # the first row: attached to `start`, or (nothing precedes it) with a blank `from` — the flow begins there all the same
        first = {"row_id": "s0", "type": "send_message", "from": "start" if self.rng.random() < 0.8 else "", "message_text": "hello"}
        self.rows.append(first)
        ids = ["s0"]
        while self.budget > 0:
            self.body(0, [], ids, None)
        return self.rows


def gen_block_exit_sheet(rng: random.Random) -> list[dict]:
    """a block (possibly holding nested blocks / loops) that ends with SEVERAL still-unconnected exits
    — ordinary ones and hard ones, at different nesting depths — followed by a row whose edge names
    the block.  The block is entered from an action row, so nothing leading into it has a loose exit."""
    rows = [{"row_id": "s0", "type": "send_message", "from": "start", "message_text": "hello"},
            {"row_id": "B", "type": "begin_block", "from": "s0"},
            {"row_id": "x1", "type": "send_message", "from": "", "message_text": "in block"}]
    n = [0]

    def nid(p):
        n[0] += 1
        return f"{p}{n[0]}"

    def multi_exit(prev):
        """a decision with several loose ends"""
        kind = rng.choice(["wait", "split", "wait"])
        w = nid("w")
        if kind == "wait":
            rows.append({"row_id": w, "type": "wait_for_response", "from": prev, "no_response": rng.choice(["", "60"])})
        else:
            rows.append({"row_id": w, "type": "split_by_value", "from": prev, "message_text": "@fields.mood"})
        for word in rng.sample(["yes", "no", "maybe", "later"], rng.randint(1, 3)):
            r = rng.random()
            if r < 0.35:
                a = nid("a")
                rows.append({"row_id": a, "type": "send_message", "from": w, "condition": word, "message_text": f"answer {word}"})
                if rng.random() < 0.3:
                    rows.append({"row_id": "", "type": "hard_exit", "from": a})
            elif r < 0.55:
                rows.append({"row_id": "", "type": "loose_exit", "from": w, "condition": word})
            elif r < 0.75:
                rows.append({"row_id": "", "type": "hard_exit", "from": w, "condition": word})
        return w

    def nested(depth, prev):
        kind = rng.choice(["block", "loop", "plain"]) if depth < 2 else "plain"
        if kind == "plain":
            return multi_exit(prev)
        bid = nid("I")
        if kind == "block":
            rows.append({"row_id": bid, "type": "begin_block", "from": prev})
            end = "end_block"
        else:
            rows.append({"row_id": bid, "type": "begin_for", "from": prev, "loop_variable": f"v{depth}", "message_text": rng.choice(["a;", "a;b"])})
            end = "end_for"
        first = nid("f")
        rows.append({"row_id": first, "type": "send_message", "from": "", "message_text": "nested"})
        nested(depth + 1, first if rng.random() < 0.5 else "")
        if rng.random() < 0.4:
            nested(depth + 1, "")
        rows.append({"row_id": "", "type": end})
        return bid

    last = nested(0, "x1" if rng.random() < 0.5 else "")
    if rng.random() < 0.4:
        nested(0, last if last.startswith("I") and rng.random() < 0.5 else "")
    rows.append({"row_id": "", "type": "end_block"})
    rows.append({"row_id": "R", "type": "send_message", "from": "B", "message_text": "after the block"})
    if rng.random() < 0.5:
        rows.append({"row_id": "R2", "type": "send_message", "from": "R", "message_text": "the end"})
    return rows


def gen_sugar_sheet(rng: random.Random, budget: int) -> list[dict]:
    return SugarGen(rng, budget).build()


# ------------------------------------------------------------------ desugaring (the statement of C03, executable)


class DesugarError(Exception):
    pass


class DesugarRenderError(DesugarError):
    """a cell of a delivered row cannot be instantiated in its context (e.g. undefined variable)"""


def _is_false(rendered: str) -> bool:
    return rendered.strip().lower() == "false"


def desugar(rows: list[dict], context: dict | None = None) -> list[dict]:
    """The desugared form C03 speaks of: each loop replaced by a block holding the body repeated
    once per list element, in order, with the loop (and index) variable substituted; rows and
    whole blocks whose include_if is false removed, their contents never evaluated.
    Substitution uses the repo's own template engine on each cell (the meaning of `{{v}}` is not
    what C03 is about)."""
    cp = _cp()
    out: list[dict] = []

    def render_row(row, ctx):
        new = {}
        for k, v in row.items():
            if row.get("type") == "begin_for" and k in ("message_text", "loop_variable"):
                new[k] = v   # read with cp.parse below (may be a native list)
                continue
            if v is None or v == "":
                new[k] = ""
            else:
                res = cp.parse_as_string(v, ctx)
                if not isinstance(res, str):
                    raise DesugarRenderError(f"cell {k} does not render to text")
                new[k] = res
        return new

    def skip_block(pos, end_type):
        """position after the terminator matching an omitted block"""
        while pos < len(rows):
            t = rows[pos].get("type", "")
            if t == "begin_for":
                pos = skip_block(pos + 1, "end_for")
            elif t == "begin_block":
                pos = skip_block(pos + 1, "end_block")
            elif t in ("end_for", "end_block"):
                if t != end_type:
                    raise DesugarError("mismatched terminator")
                return pos + 1
            else:
                pos += 1
        raise DesugarError("unterminated block")

    def block(pos, end_type, ctx, emit):
        """process rows from pos until the terminator `end_type` (None: end of sheet)"""
        while True:
            if pos >= len(rows):
                if end_type is None:
                    return pos
                raise DesugarError("unterminated block")
            raw = rows[pos]
            t = raw.get("type", "")
            if t in ("end_for", "end_block"):
                if t != end_type:
                    raise DesugarError("mismatched terminator")
                return pos + 1
            row = render_row(raw, ctx)
            included = not _is_false(row.get("include_if", ""))
            if t == "begin_for":
                if not included:
                    pos = skip_block(pos + 1, "end_for")
                    continue
                lv = cp.parse(raw.get("loop_variable", ""), ctx)
                if lv is None:
                    raise DesugarRenderError("loop variable cannot be instantiated")
                lv = lv if isinstance(lv, list) else [lv]
                var = lv[0] if lv and lv[0] else None
                if not var:
                    raise DesugarError("loop without variable")
                idx = lv[1] if len(lv) >= 2 and lv[1] else None
                items = cp.parse(raw.get("message_text", ""), ctx)
                if items is None or lv is None:
                    raise DesugarRenderError("loop list / loop variable cannot be instantiated")
                begin = dict(row)
                begin.update({"type": "begin_block", "message_text": "", "loop_variable": "", "include_if": ""})
                emit(begin)
                end = pos + 1
                items = list(items) if not isinstance(items, str) else [items]
                if not items:
                    end = skip_block(pos + 1, "end_for")
                for i, entry in enumerate(items):
                    c2 = dict(ctx)
                    c2[var] = entry
                    if idx:
                        c2[idx] = i
                    end = block(pos + 1, "end_for", c2, emit)
                emit({"row_id": "", "type": "end_block"})
                pos = end
            elif t == "begin_block":
                if not included:
                    pos = skip_block(pos + 1, "end_block")
                    continue
                b = dict(row)
                b["include_if"] = ""
                emit(b)
                pos = block(pos + 1, "end_block", ctx, emit)
                emit({"row_id": "", "type": "end_block"})
            else:
                if included:
                    r = dict(row)
                    r["include_if"] = ""
                    emit(r)
                pos += 1

    from ..flows import LogCapture

    with LogCapture():
        block(0, None, dict(context or {}), out.append)
    return out


def uses_sugar(rows) -> dict:
    types = [r.get("type") for r in rows]
    return {
        "loops": types.count("begin_for"),
        "blocks": types.count("begin_block"),
        "include_if": sum(1 for r in rows if r.get("include_if")),
        "nested": _max_depth(rows),
    }


def _max_depth(rows):
    d = m = 0
    for r in rows:
        if r.get("type") in ("begin_for", "begin_block"):
            d += 1
            m = max(m, d)
        elif r.get("type") in ("end_for", "end_block"):
            d -= 1
    return m


# ------------------------------------------------------------------ content-index workbooks


def _csv(headers, rows):
    from ..flows import rows_to_csv

    return rows_to_csv(headers, rows)


def gen_index_workbook(rng: random.Random):
    """a small workbook: data sheet (inferred model), a template with arguments instantiated for one
    row / in bulk, a plain flow that inserts the template as a block.  Returns (sheets, None)."""
    ids = [f"row{k}" for k in range(1, rng.randint(2, 4) + 1)]
    data_rows = [{"ID": i, "word": rng.choice(["alpha", "beta", "gamma"]), "count:int": str(rng.randint(0, 3)),
                  "items.1": "x" + i, "items.2": "y" + i} for i in ids]
    data_csv = _csv(["ID", "word", "count:int", "items.1", "items.2"], data_rows)
    tmpl_rows = [
        {"row_id": "t1", "type": "send_message", "from": "start", "message_text": "T {{word}} {{extra}}"},
        {"row_id": "tl", "type": "begin_for", "from": "t1", "loop_variable": "it;k", "message_text": "{@items@}"},
        {"row_id": "t2", "type": "send_message", "from": "", "message_text": "item {{k}} {{it}}", "include_if": rng.choice(["", "{{k == 0}}", ""])},
        {"row_id": "", "type": "end_for"},
        {"row_id": "t3", "type": "wait_for_response", "from": "tl"},
        {"row_id": "t4", "type": "send_message", "from": "t3", "condition": "{{word}}", "message_text": "matched {{word}}"},
    ]
    if rng.random() < 0.5:
        tmpl_rows.append({"row_id": "", "type": "hard_exit", "from": "t4"})
    if rng.random() < 0.5:
        tmpl_rows.append({"row_id": "t5", "type": "add_to_group", "from": "t3", "message_text": "G {{word}}"})
    main_rows = [{"row_id": "m1", "type": "send_message", "from": "start", "message_text": "main"}]
    # the template is inserted one to three times — sometimes with exactly the same data row and
    # arguments (every insertion must get identifiers of its own)
    prev = "m1"
    picks = []
    for k in range(rng.choice([1, 2, 2, 3])):
        if picks and rng.random() < 0.5:
            pick, arg = rng.choice(picks)
        else:
            pick, arg = rng.choice(ids), rng.choice(["E1", "", "E2"])
        picks.append((pick, arg))
        bid = f"ins{k}"
        main_rows.append({"row_id": bid, "type": "insert_as_block", "from": prev, "message_text": "tmpl", "data_sheet": "data",
                          "data_row_id": pick, "template_arguments": arg})
        aft = f"aft{k}"
        main_rows.append({"row_id": aft, "type": "send_message", "from": bid, "message_text": f"after block {k}"})
        prev = aft
    if rng.random() < 0.5:
        main_rows.append({"row_id": "m4", "type": "start_new_flow", "from": prev, "message_text": "tmpl - " + rng.choice(ids)})
    second_rows = None
    if rng.random() < 0.5:
        pick, arg = rng.choice(picks)
        second_rows = [
            {"row_id": "s1", "type": "send_message", "from": "start", "message_text": "second flow"},
            {"row_id": "s2", "type": "insert_as_block", "from": "s1", "message_text": "tmpl", "data_sheet": "data", "data_row_id": pick, "template_arguments": arg},
        ]
    index_rows = [
        {"type": "data_sheet", "sheet_name": "data"},
        {"type": "template_definition", "sheet_name": "tmpl", "template_arguments": "extra;;dflt|"},
        {"type": "create_flow", "sheet_name": "tmpl", "data_sheet": "data", "data_row_id": "" if rng.random() < 0.6 else rng.choice(ids),
         "template_arguments": rng.choice(["", "X"])},
        {"type": "create_flow", "sheet_name": "main"},
    ]
    if second_rows is not None:
        index_rows.append({"type": "create_flow", "sheet_name": "second"})
    rng.shuffle(index_rows)
    # data sheet must be registered before flows are parsed, which happens after the whole index: any order works
    ih = ["type", "sheet_name", "data_sheet", "data_row_id", "new_name", "template_arguments", "data_model", "status"]
    sheets = {
        "content_index": _csv(ih, index_rows),
        "data": data_csv,
        "tmpl": _csv(H, tmpl_rows),
        "main": _csv(H, main_rows),
    }
    if second_rows is not None:
        sheets["second"] = _csv(H, second_rows)
    return sheets, None
