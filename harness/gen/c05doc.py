"""C05 — type-directed generator of RapidPro export documents, the `≈` normaliser of the
property statement (written independently of the code under test), and the trigger /
repair functions of the known findings F-C05-a..d.  Pure JSON in, pure JSON out: nothing
here imports the code under test.
"""
from __future__ import annotations

import copy
import random

# ----------------------------------------------------------------------------- schema data
# (the generator's own knowledge of the RapidPro export schema; the action_map of the code
#  is extracted separately by harness/tables/t05_actions.py and compared in the check)

PASS_THROUGH = {
    "add_contact_urn": {"scheme": "tel", "path": "@results.phone.value"},
    "add_input_labels": {"labels": [{"uuid": "3f65d88a-95dc-4140-9451-943e94e06fea", "name": "Spam"}]},
    "call_classifier": {"classifier": {"uuid": "1c06c884-39dd-4ce4-ad9f-9a01cbe6c000", "name": "Booking"}, "input": "@input.text", "result_name": "Intent"},
    "call_resthook": {"resthook": "new-registration", "result_name": "r"},
    "call_webhook": {"method": "GET", "url": "http://localhost:49998/?cmd=success", "headers": {"Authorization": "Token AA"}, "body": "", "result_name": "webhook"},
    "open_ticket": {"ticketer": {"uuid": "19dc6346-9623-4fe4-be80-538d493ecdf5", "name": "Support"}, "topic": {"uuid": "472a7a73-96cb-4736-b567-056d987cc5b4", "name": "Weather"}, "body": "@input", "assignee": None, "result_name": "Help"},
    "play_audio": {"audio_url": "http://uploads.temba.io/2353262.m4a"},
    "say_msg": {"text": "Hi @contact.name", "audio_url": "http://x/y.m4a"},
    "send_broadcast": {"urns": ["tel:+12065551212"], "text": "Hi", "groups": [], "contacts": []},
    "send_email": {"addresses": ["@urns.mailto"], "subject": "s", "body": "b"},
    "start_session": {"groups": [{"uuid": "1e1ce1e1-9288-4504-869e-022d1003c72a", "name": "Customers"}], "flow": {"uuid": "b7cf0d83-f1c9-411c-96fd-c511a4cfa86d", "name": "Registration"}, "exclusions": {"in_a_flow": True}},
    "transfer_airtime": {"amounts": {"RWF": 500, "USD": 0.5}, "result_name": "Reward"},
}
CONTACT_PROPS = ["channel", "language", "name", "status", "timezone"]
SPECIAL = ["send_msg", "set_contact_field", "add_contact_groups", "remove_contact_groups", "set_run_result", "enter_flow"] + [
    "set_contact_" + p for p in CONTACT_PROPS
]
ROUTER_ACTIONS = ["enter_flow", "call_webhook", "transfer_airtime"]  # first action of a switch-router node

# router tests and their arities (0 = must carry no argument)
TESTS = {
    "all_words": 1, "has_any_word": 1, "has_beginning": 1, "has_category": 1, "has_date": 0, "has_date_eq": 1,
    "has_date_gt": 1, "has_date_lt": 1, "has_district": 1, "has_email": 0, "has_error": 0, "has_intent": 2,
    "has_number": 0, "has_number_between": 2, "has_number_eq": 1, "has_number_gt": 1, "has_number_gte": 1,
    "has_number_lt": 1, "has_number_lte": 1, "has_only_phrase": 1, "has_only_text": 1, "has_pattern": 1,
    "has_phone": 1, "has_phrase": 1, "has_state": 0, "has_text": 0, "has_time": 0, "has_top_intent": 2, "has_ward": 2,
}
GROUP_ATTRS = ["query", "status", "system", "count"]
TRIGGER_TYPES = ["K", "C", "M", "T"]
# operands of a switch router: "@" + namespace + 0, 1 or 2+ dotted path segments.  The three
# namespaces the editor shows as a field / result split, and look-alikes that are plain expressions.
OPERAND_NAMESPACES = ["contact", "fields", "results"]
OPERAND_NEAR_NAMESPACES = ["input", "contacts", "field", "result", "parent.fields", "child.results", "run.results", "urns", "node"]
OPERAND_SEGMENTS = ["age", "name", "language", "channel", "groups", "quiz", "x", "urn", "category", "path", "value", "first_name",
                    "a", "b", "tel", "fields", "results", "contact", "text", "0", "Name", "created_on", "category_localized"]
OPERAND_EXPRESSIONS = ["@input.text", "@contact.groups", "@(1+1)", "@(urn_parts(contact.urn).scheme)", "@(fields.a.b & results.x.y)",
                       "@(lower(contact.name))", "@(default(urn_parts(contact.urn).path, \"\"))", "@ contact.name", "contact.name", "@@contact.name"]
URN_SCHEMES = ["tel", "mailto", "whatsapp", "telegram", "facebook"]
CONTACT_PROPERTIES_UI = {"name": "Name", "language": "Language", "channel": "Channel"}  # contact properties the editor lists by title
STRINGS = ["a", "Hello @contact.name", "x y", "é日\U0001F600", "with \"quote\" and \\", "line\nbreak", "0", "False", " "]
JUNK = [None, True, False, 0, 1, -3, 1.5, "", "s", [], {}, [1, "a", None], {"k": {"n": [True, {}]}}, {"topic": "t", "all_urns": False}]


class Gen:
    """One document per instance; every choice comes from `rng`."""

    def __init__(self, rng: random.Random, avoid=frozenset(("a", "b", "c", "d")), size=None):
        self.r = rng
        self.avoid = set(avoid)  # known-finding triggers the main stream must not produce
        self.n = 0
        self.size = size if size is not None else rng.choice([0, 1, 1, 2, 2, 3])
        self.strata: dict[str, int] = {}

    # -- small helpers
    def tick(self, s):
        self.strata[s] = self.strata.get(s, 0) + 1

    def uuid(self):
        self.n += 1
        return "%08x-%04x-4%03x-8%03x-%012x" % (self.n, self.r.getrandbits(16), self.r.getrandbits(12), self.r.getrandbits(12), self.r.getrandbits(48))

    def s(self):
        return self.r.choice(STRINGS)

    def junk(self):
        return copy.deepcopy(self.r.choice(JUNK))

    def some(self, k):
        return self.r.randint(0, k)

    def opt(self, d, key, present, empties):
        """optional key: absent / one of its empty values / a present value"""
        c = self.r.random()
        if c < 0.34:
            self.tick(f"opt.{key}.absent")
        elif c < 0.6:
            d[key] = copy.deepcopy(self.r.choice(empties))
            self.tick(f"opt.{key}.empty")
        else:
            d[key] = present
            self.tick(f"opt.{key}.present")

    # -- groups / flows references
    def group_ref(self, attrs=True):
        g = dict(self.r.choice(self.groups))
        if attrs:
            for a in GROUP_ATTRS:
                c = self.r.random()
                if c < 0.15:
                    g[a] = None
                    self.tick("groupref.attr.null")
                elif c < 0.3:
                    g[a] = {"query": 'age > "18"', "status": "R", "system": False, "count": self.r.randint(0, 9)}[a]
                    self.tick("groupref.attr.present")
        if self.r.random() < 0.5:
            g = dict(reversed(list(g.items())))
        return g

    def flow_ref(self, defined_only=False, site="action"):
        """A reference {name, uuid} to a flow.  A reference carries the name the flow had when the
        referring object was saved: after a flow has been renamed, RapidPro exports references to
        ONE uuid under DIFFERENT names (`renamed` documents).  Every name still belongs to one
        uuid only (the schema's name -> uuid dictionary stays functional).  A trigger may only
        use a name the document already knows: the flow's own name, or an older name that a
        flow / campaign of this document has used."""
        pool = self.flow_ids if (defined_only or self.r.random() < 0.6 and self.flow_ids) else self.flow_ids + self.extern_flows
        name, uuid = self.r.choice(pool)
        self.tick("flowref.defined" if (name, uuid) in self.flow_ids else "flowref.external")
        if self.renamed and self.r.random() < 0.4:
            used = self.used_aliases.setdefault(uuid, [])
            if site == "trigger":
                older = self.r.choice(used) if used else None
            else:
                older = self.r.choice(alias_names(name))
                if older not in used:
                    used.append(older)
            if older is not None:
                name = older
                self.tick("flowref.older_name." + site)
        return {"name": name, "uuid": uuid} if self.r.random() < 0.5 else {"uuid": uuid, "name": name}

    # -- actions
    def action(self, typ=None):
        r = self.r
        if typ is None:
            typ = r.choice(SPECIAL + list(PASS_THROUGH)) if r.random() < 0.8 else r.choice(list(PASS_THROUGH))
        if typ in ("add_contact_groups", "remove_contact_groups") and not self.groups:
            typ = "send_msg"
        a = {"type": typ, "uuid": self.uuid()}
        self.tick("action." + typ)
        if typ in PASS_THROUGH:
            body = copy.deepcopy(PASS_THROUGH[typ])
            keys = list(body)
            r.shuffle(keys)
            for k in keys:
                if r.random() < 0.85:
                    a[k] = body[k]
            for _ in range(r.choice([0, 0, 1, 2])):
                a["x_" + r.choice(["extra", "topic", "all_urns", "groups", "flow", "é"])] = self.junk()
                self.tick("passthrough.extra_key")
            if r.random() < 0.3:  # key order of the input must not matter
                a = dict(reversed(list(a.items())))
        elif typ == "send_msg":
            a["text"] = self.s()
            a["attachments"] = [r.choice(["image:http://x/i.png", "audio:a", "video/mp4:@fields.v"]) for _ in range(self.some(2))]
            a["quick_replies"] = [self.s() for _ in range(self.some(3))]
            self.opt(a, "all_urns", True, [False, None])
            self.opt(a, "topic", r.choice(["event", "account", "agent"]), ["", None])
            if r.random() < 0.3:
                a["templating"] = {
                    "uuid": self.uuid(),
                    "template": {"uuid": self.uuid(), "name": self.s()},
                    "variables": [self.s() for _ in range(self.some(2))],
                }
                self.tick("send_msg.templating")
        elif typ == "set_contact_field":
            key = r.choice(["gender", "age_1", "x"])
            a["field"] = {"key": key, "name": r.choice(["Gender", "Age 1", key])}
            if "a" not in self.avoid and r.random() < 0.5:
                a["field"]["type"] = r.choice(["text", "number"])
                self.tick("typed_contact_field")
            a["value"] = self.s()
        elif typ.startswith("set_contact_"):
            p = typ[len("set_contact_"):]
            a[p] = {"uuid": self.uuid(), "name": "Facebook Channel"} if p == "channel" else r.choice(["eng", "Bob Smith", "blocked", "Africa/Kigali", ""])
        elif typ in ("add_contact_groups", "remove_contact_groups"):
            a["groups"] = [self.group_ref() for _ in range(self.some(3))]
            if typ == "remove_contact_groups":
                self.opt(a, "all_groups", True, [False, None])
        elif typ == "set_run_result":
            a["name"] = self.s()
            a["value"] = self.s()
            self.opt(a, "category", r.choice(["Male", "Cat 2"]), ["", None])
        elif typ == "enter_flow":
            a["flow"] = self.flow_ref(site="action")
        if typ not in PASS_THROUGH and r.random() < 0.2:
            a = dict(reversed(list(a.items())))
        return a

    # -- exits / routers / nodes
    def dest(self):
        c = self.r.random()
        if c < 0.5 and self.node_ids:
            return self.r.choice(self.node_ids)
        if c < 0.6:
            return self.uuid()  # dangling destination: the loader does not care
        return None

    def exit(self):
        e = {"uuid": self.uuid()}
        d = self.dest()
        if d is None:
            if self.r.random() < 0.5:
                e["destination_uuid"] = None
                self.tick("opt.destination_uuid.empty")
            else:
                self.tick("opt.destination_uuid.absent")
        else:
            e["destination_uuid"] = d
            self.tick("opt.destination_uuid.present")
        if self.r.random() < 0.5:
            e = dict(reversed(list(e.items())))
        return e

    def category(self, name, exit_uuid):
        return {"uuid": self.uuid(), "name": name, "exit_uuid": exit_uuid}

    def case(self, cats):
        r = self.r
        typ = r.choice(list(TESTS))
        if self.groups and r.random() < 0.2:
            g = r.choice(self.groups)
            typ, args = "has_group", [g["uuid"], g["name"]]
        else:
            args = [self.s() for _ in range(TESTS[typ])]
        self.tick("case." + ("noarg" if not args else typ if typ == "has_group" else "args"))
        return {"uuid": self.uuid(), "type": typ, "arguments": args, "category_uuid": r.choice(cats)["uuid"]}

    def operand(self):
        """operand of a plain switch router: a path "@ns.seg.seg…" with 0, 1 or 2+ segments in each of
        the three namespaces the editor knows (and in look-alike namespaces), a urn-scheme lookup,
        or another expression"""
        r = self.r
        c = r.random()
        if c < 0.2:
            self.tick("operand.expression")
            return r.choice(OPERAND_EXPRESSIONS)
        if c < 0.28:
            self.tick("operand.urn_scheme_path")
            return '@(default(urn_parts(urns.%s).path, ""))' % r.choice(URN_SCHEMES)
        near = c < 0.4
        ns = r.choice(OPERAND_NEAR_NAMESPACES if near else OPERAND_NAMESPACES)
        k = r.choice([0, 1, 1, 1, 2, 2, 3])
        segs = [r.choice(OPERAND_SEGMENTS) for _ in range(k)]
        if segs and r.random() < 0.4:
            segs[0] = r.choice(["name", "language", "channel", "groups"])  # the paths the editor treats specially under @contact
        op = "@" + ns + "".join("." + x for x in segs)
        self.tick("operand.%s.segments=%s" % ("near_namespace" if near else ns, k if k < 2 else "2+"))
        return op

    def switch_router(self, operand=None, order="ok", exit_order="ok"):
        """returns (router, exits).  order: ok | default_first | default_middle | noresp_not_last;
        exit_order: ok | permuted"""
        r = self.r
        n_other = self.some(3)
        wait = r.choice([None, None, "plain", "timeout"])
        exits, others = [], []
        for i in range(n_other):
            e = self.exit()
            exits.append(e)
            others.append(self.category(r.choice(["Yes", "No", "Cat %d" % i, self.s()]), e["uuid"]))
        r.shuffle(others)  # category order need not follow anything else
        exits = [next(e for e in exits if e["uuid"] == c["exit_uuid"]) for c in others]
        e = self.exit()
        default = self.category(r.choice(["Other", "All Responses", "Expired", "Failure"]), e["uuid"])
        cats = others + [default]
        exits.append(e)
        nr = None
        if wait == "timeout":
            e = self.exit()
            nr = self.category("No Response", e["uuid"])
            cats.append(nr)
            exits.append(e)
        if order != "ok":
            paired = list(zip(cats, exits))
            paired.remove((default, next(x for x in exits if x["uuid"] == default["exit_uuid"])))
            dpair = (default, next(x for x in exits if x["uuid"] == default["exit_uuid"]))
            if order == "default_first" or len(paired) < 1:
                paired.insert(0, dpair)
            elif order == "default_middle":
                paired.insert(max(0, len(paired) - (2 if nr else 1)), dpair)
            cats, exits = [list(t) for t in zip(*paired)]
        if exit_order == "permuted":
            exits = exits[1:] + exits[:1]
        cases = [self.case(cats if r.random() < 0.9 else [default]) for _ in range(self.some(4))]
        if len({c["category_uuid"] for c in cases}) < len(cases):
            self.tick("router.shared_category")
        rt = {
            "type": "switch",
            "operand": operand or self.operand(),
            "cases": cases,
            "categories": cats,
            "default_category_uuid": default["uuid"],
        }
        if wait == "plain":
            rt["wait"] = {"type": "msg"}
        elif wait == "timeout":
            rt["wait"] = {"type": "msg", "timeout": {"seconds": r.choice([1, 60, 300, 86400]), "category_uuid": nr["uuid"]}}
        self.tick("router.switch.wait=%s" % wait)
        self.opt(rt, "result_name", r.choice(["Result 1", "x"]), ["", None])
        if r.random() < 0.3:
            rt = dict(reversed(list(rt.items())))
        return rt, exits

    def random_router(self, exit_order="ok"):
        r = self.r
        exits, cats = [], []
        for i in range(r.randint(1, 4)):
            e = self.exit()
            exits.append(e)
            cats.append(self.category("Bucket %d" % (i + 1), e["uuid"]))
        if exit_order == "permuted" and len(exits) > 1:
            exits = exits[1:] + exits[:1]
        rt = {"type": "random", "categories": cats}
        self.opt(rt, "result_name", "Rnd", ["", None])
        self.tick("router.random")
        return rt, exits

    def node(self, uuid, kind=None, **kw):
        r = self.r
        kind = kind or r.choice(["basic", "basic", "basic", "switch", "switch", "random", "router_action"])
        self.tick("node." + kind)
        nd = {"uuid": uuid}
        if kind == "basic":
            k = r.choice([0, 1, 1, 1, 2, 3])
            nd["actions"] = [self.action() for _ in range(k)]
            nd["exits"] = [self.exit()]
        elif kind == "switch":
            nd["actions"] = []
            nd["router"], nd["exits"] = self.switch_router(**kw)
        elif kind == "random":
            nd["actions"] = []
            nd["router"], nd["exits"] = self.random_router(**{k: v for k, v in kw.items() if k == "exit_order"})
        else:
            t = r.choice(ROUTER_ACTIONS)
            nd["actions"] = [self.action(t)]
            op = {"enter_flow": "@child.run.status", "call_webhook": "@results.webhook.category", "transfer_airtime": "@results.reward"}[t]
            nd["router"], nd["exits"] = self.switch_router(operand=op, **kw)
        if r.random() < 0.3:
            nd = dict(reversed(list(nd.items())))
        return nd

    def flow(self, name, uuid, node_kw=None):
        r = self.r
        n_nodes = r.choice([0, 1, 2, 3, 5]) if self.size else r.choice([0, 1])
        self.node_ids = [self.uuid() for _ in range(n_nodes)]
        nodes = []
        for i, u in enumerate(self.node_ids):
            kw = (node_kw or {}) if i == 0 else {}
            nodes.append(self.node(u, **kw))
        self.tick("flow.nodes=%s" % (n_nodes if n_nodes < 3 else "3+"))
        f = {
            "uuid": uuid,
            "name": name,
            "language": r.choice(["eng", "base", "fra"]),
            "type": r.choice(["messaging", "voice", "background"]),
            "nodes": nodes,
            "spec_version": r.choice(["13.1.0", "13.2.0"]),
            "revision": r.randint(0, 99),
            "expire_after_minutes": r.choice([10080, 5, 0]),
            "metadata": r.choice([{}, {"revision": r.randint(0, 99)}, {"a": [1, {"b": None}]}]),
            "localization": r.choice([{}, {}, {"fra": {self.uuid(): {"text": ["Bonjour"]}}}]),
        }
        c = r.random()
        if c < 0.3:
            self.tick("ui.absent")
        elif c < 0.4:
            f["_ui"] = r.choice([{}, {"nodes": {}}, {"nodes": {}, "stickies": {}}])
            self.tick("ui.empty")
        else:
            ui = {}
            ids = list(self.node_ids)
            r.shuffle(ids)
            by_id = {n["uuid"]: n for n in nodes}
            for u in ids:
                nd = by_id[u]
                dots = _operand_class(nd)
                if r.random() < 0.8:
                    left, top = r.randint(0, 2000), r.choice([0, 10, 33.5, 1200])
                    if r.random() < 0.85:
                        # the entry the editor keeps for this node (type and config follow from the node)
                        ent = editor_ui(nd, left, top)
                        self.tick("ui.entry." + ui_entry_class(ent))
                        if dots:
                            self.tick("ui.entry.plain_split." + dots)
                    else:
                        # an entry that is NOT the editor's (older exports, hand-written files): position only matters
                        ent = {"position": {"left": left, "top": top}, "type": "execute_actions"}
                        if r.random() < 0.3:
                            ent["config"] = {"cases": {}}
                        self.tick("ui.entry.foreign")
                    if r.random() < 0.3:
                        ent = dict(reversed(list(ent.items())))
                    ui[u] = ent
                else:
                    self.tick("ui.entry.none(node without position)")
                    if dots:
                        self.tick("ui.no_entry.plain_split." + dots)
            f["_ui"] = {"nodes": ui}
            if r.random() < 0.3:
                f["_ui"]["stickies"] = {}
            self.tick("ui.positions")
        if r.random() < 0.3:
            f = dict(reversed(list(f.items())))
        return f

    # -- campaigns / triggers
    def event(self):
        r = self.r
        kind = "F" if (self.flow_ids or self.extern_flows) and r.random() < 0.5 else "M"
        ev = {
            "uuid": self.uuid(),
            "offset": r.randint(-10, 6000),
            "unit": r.choice(["M", "H", "D", "W"]),
            "event_type": kind,
            "delivery_hour": r.choice([-1, 0, 18]),
            "message": None,
            "relative_to": r.choice([{"label": "Created On", "key": "created_on"}, {"key": "last_seen_on", "label": "Last Seen On"}]),
            "start_mode": r.choice(["I", "S", "P"]),
        }
        if kind == "F":
            ev["flow"] = self.flow_ref(site="event")
        else:
            ev["message"] = r.choice([{"eng": "SPAM", "fra": "SPAMME"}, {"eng": self.s()}])
            ev["base_language"] = r.choice(["eng", "fra"])
        self.tick("event." + kind)
        return ev

    def campaign(self):
        c = {
            "uuid": self.uuid(),
            "name": self.s(),
            "group": self.group_ref(),
            "events": [self.event() for _ in range(self.some(3))],
        }
        self.tick("campaign")
        return c

    def trigger(self, legacy=None):
        r = self.r
        t = r.choice(TRIGGER_TYPES)
        legacy = r.random() < 0.3 if legacy is None else legacy
        tr = {"trigger_type": t, "flow": self.flow_ref(defined_only=True, site="trigger")}
        kws = [r.choice(["hi", "join now", "é"]) for _ in range(r.randint(1, 2))] if t == "K" else []
        if legacy:
            tr["keyword"] = kws[0] if kws else None
            if t == "K" and r.random() < 0.5:
                tr["match_type"] = r.choice(["F", "O"])
            self.tick("trigger.legacy." + t)
        else:
            tr["keywords"] = kws
            if r.random() < 0.5:
                tr["keyword"] = kws[0] if kws else None
            if t == "K":
                tr["match_type"] = r.choice(["F", "O"])
            else:
                self.opt(tr, "match_type", "O", ["", None])
            self.tick("trigger.new." + t)
        tr["groups"] = [self.group_ref(attrs=False) for _ in range(self.some(2))] if self.groups else []
        if self.groups:
            self.opt(tr, "exclude_groups", [self.group_ref(attrs=False) for _ in range(r.randint(1, 2))], [[]])
        else:
            self.opt(tr, "exclude_groups", [], [[]])
        tr["channel"] = r.choice([None, None, self.uuid()])
        if r.random() < 0.3:
            tr = dict(reversed(list(tr.items())))
        return tr

    # -- document
    def document(self, node_kw=None, top_group_attrs=False, force_flow=False, force_legacy=False):
        r = self.r
        names = ["test group", "Customers", "g é", "Registered Users"]
        r.shuffle(names)
        self.groups = [{"name": n, "uuid": self.uuid()} for n in names[: r.choice([0, 1, 2, 4]) if not top_group_attrs else r.randint(1, 3)]]
        # one object under several names: a renamed group is listed (and referred to) under its
        # older name too, with the SAME uuid; references to a renamed flow keep the older name
        self.renamed = r.random() < 0.3
        self.used_aliases = {}
        if self.renamed and self.groups and not top_group_attrs:
            for g in r.sample(self.groups, r.randint(1, min(2, len(self.groups)))):
                self.groups.insert(r.randint(0, len(self.groups)), {"name": r.choice(alias_names(g["name"])), "uuid": g["uuid"]})
                self.tick("group.older_name_same_uuid")
        fnames = ["flow A", "flow_b", "ﬂöw c"]
        r.shuffle(fnames)
        nf = max(1 if force_flow else 0, min(self.size, r.choice([0, 1, 1, 2, 3])))
        self.flow_ids = [(n, self.uuid()) for n in fnames[:nf]]
        self.extern_flows = [("Registration", self.uuid()), ("Collect Language", self.uuid())]
        flows = [self.flow(n, u, node_kw if i == 0 else None) for i, (n, u) in enumerate(self.flow_ids)]
        self.tick("doc.flows=%d" % nf)
        campaigns = [self.campaign() for _ in range(r.choice([0, 0, 1, 2]))] if self.groups else []
        triggers = [self.trigger(legacy=True if force_legacy else None) for _ in range(r.choice([0, 1, 2, 4]) or (1 if force_legacy else 0))] if self.flow_ids else []
        groups = [dict(g) for g in self.groups]
        if top_group_attrs:
            g = groups[r.randrange(len(groups))]
            a = r.choice(GROUP_ATTRS)
            g[a] = {"query": 'gender = "F"', "status": "R", "system": False, "count": 3}[a]
        d = {
            "campaigns": campaigns,
            "fields": r.choice([[], [{"key": "age_1", "name": "Age 1", "type": "text"}]]),
            "flows": flows,
            "groups": groups,
            "site": r.choice(["https://rapidpro.idems.international", "https://example.org"]),
            "triggers": triggers,
            "version": "13",
        }
        if r.random() < 0.3:
            d = dict(reversed(list(d.items())))
        return d


# -- `_ui.nodes[uuid]`: what the editor keeps about a node besides its position.  The entry is a
#    function of the node (this is the generator's own statement of the export format, written
#    from the format's description, not from the code under test):
#      no router                         execute_actions                (no config)
#      random router                     split_by_random                config null
#      router behind enter_flow/call_webhook/transfer_airtime
#                                        split_by_subflow/_webhook/_airtime   config {}
#      switch router that waits          wait_for_response              config {cases: {}}
#      operand @contact.groups           split_by_groups                config {cases: {}}
#      operand urn scheme                split_by_scheme                config {cases: {}}
#      operand path of a urn scheme      split_by_contact_field         operand {id: scheme, type: scheme, name: Scheme}
#      operand @contact.P / @fields.P    split_by_contact_field         operand {id: P, type: field|property, name: P|Title}
#      operand @results.P                split_by_run_result            operand {id: P, type: result, name: P}
#      anything else                     split_by_expression            config {cases: {}}
#    P is the WHOLE path after the namespace ("quiz.category", "urn.path"), not its first segment.

UI_ENTRY_CLASSES = ["execute_actions", "split_by_random", "split_by_subflow", "split_by_webhook", "split_by_airtime", "wait_for_response",
                    "split_by_groups", "split_by_scheme", "split_by_contact_field.scheme", "split_by_contact_field.field",
                    "split_by_contact_field.property", "split_by_run_result.result", "split_by_expression"]
_URN_PATH = ('@(default(urn_parts(urns.', ').path, ""))')


def _operand_path(op, ns):
    head = "@" + ns + "."
    return op[len(head):] if op.startswith(head) and len(op) > len(head) else None


def editor_ui(node, left, top):
    ent = {"position": {"left": left, "top": top}}
    rt = node.get("router")
    if rt is None:
        ent["type"] = "execute_actions"
        return ent
    if rt.get("type") == "random":
        ent["type"], ent["config"] = "split_by_random", None
        return ent
    acts = node.get("actions") or []
    if acts:
        ent["type"] = {"enter_flow": "split_by_subflow", "call_webhook": "split_by_webhook", "transfer_airtime": "split_by_airtime"}[acts[0]["type"]]
        ent["config"] = {}
        return ent
    op = rt["operand"]
    config = {"cases": {}}
    if "wait" in rt:
        typ = "wait_for_response"
    elif op == "@contact.groups":
        typ = "split_by_groups"
    elif op == "@(urn_parts(contact.urn).scheme)":
        typ = "split_by_scheme"
    elif op.startswith(_URN_PATH[0]) and op.endswith(_URN_PATH[1]) and op[len(_URN_PATH[0]):-len(_URN_PATH[1])] in URN_SCHEMES:
        scheme = op[len(_URN_PATH[0]):-len(_URN_PATH[1])]
        typ = "split_by_contact_field"
        config["operand"] = {"id": scheme, "type": "scheme", "name": scheme[:1].upper() + scheme[1:]}
    elif _operand_path(op, "contact") is not None:
        path = _operand_path(op, "contact")
        typ = "split_by_contact_field"
        if path in CONTACT_PROPERTIES_UI:
            config["operand"] = {"id": path, "type": "property", "name": CONTACT_PROPERTIES_UI[path]}
        else:
            config["operand"] = {"id": path, "type": "field", "name": path}
    elif _operand_path(op, "fields") is not None:
        path = _operand_path(op, "fields")
        typ = "split_by_contact_field"
        config["operand"] = {"id": path, "type": "field", "name": path}
    elif _operand_path(op, "results") is not None:
        path = _operand_path(op, "results")
        typ = "split_by_run_result"
        config["operand"] = {"id": path, "type": "result", "name": path}
    else:
        typ = "split_by_expression"
    ent["type"], ent["config"] = typ, config
    return ent


def ui_entry_class(ent):
    t = ent["type"]
    o = (ent.get("config") or {}).get("operand")
    return t + ("." + o["type"] if o else "")


def _operand_class(node):
    """for a plain switch node that does not wait: namespace and number of path segments of its operand"""
    rt = node.get("router")
    if rt is None or rt.get("type") != "switch" or node.get("actions") or "wait" in rt:
        return None
    op = rt["operand"]
    for ns in OPERAND_NAMESPACES:
        if op == "@" + ns:
            return ns + ".segments=0"
        p = _operand_path(op, ns)
        if p is not None:
            k = p.count(".") + 1
            return "%s.segments=%s" % (ns, k if k < 2 else "2+")
    return "other_operand"


def alias_names(name):
    """older names of a renamed object: distinct from every current name of the generator's
    pools and from the aliases of every other object (prefix / suffix / case / whitespace)"""
    return [name + " v1", "Old " + name, "Copy of " + name, name.upper(), name + " ", name + "."]


def generate(seed, avoid=frozenset("abcd"), **kw):
    g = Gen(random.Random(seed), avoid=avoid)
    d = g.document(**kw)
    return d, g.strata


# ----------------------------------------------------------------------------- ≈ (smallest relation)
# Two documents are related iff their normal forms are EQUAL (dict key order ignored, list
# order kept).  The normal form only
#   * drops an optional key whose value is "empty" — per key, only the values listed:
#       exit.destination_uuid (null); group query/status/system/count (null); send_msg.all_urns,
#       remove_contact_groups.all_groups (null, false); send_msg.topic, set_run_result.category,
#       router.result_name, trigger.match_type (null, ""); trigger.exclude_groups ([]),
#     (DESIGN §5 lists the first eight; result_name and match_type are the two further
#      "optional labels" of the schema the code omits when empty)
#   * reduces `_ui` to {node uuid: (left, top)} and {node uuid: the rest of the entry (type, config, …)};
#     the rest is compared field for field when the input entry is the editor's entry for that node
#     (`approx_diff` drops it on both sides otherwise: for an entry the editor would not have
#     written only the position can be asked back),
#   * brings a trigger to the two-keyword-forms shape the statement prescribes
#     (keywords := [keyword] for legacy triggers; keyword := first keyword) and fills the
#     default match type "F" of a keyword trigger that has none.
# Nothing else is touched; pass-through actions are compared verbatim.

EMPTY_FLAG = (None, False)
EMPTY_LABEL = (None, "")


def _is(v, empties):
    return any(v is e or (type(v) is type(e) and v == e) for e in empties)


def _drop(d, key, empties):
    if key in d and _is(d[key], empties):
        del d[key]


def norm_group(g):
    g = dict(g)
    for a in GROUP_ATTRS:
        _drop(g, a, (None,))
    return g


def norm_action(a):
    t = a.get("type")
    if t in PASS_THROUGH or t not in SPECIAL:
        return a
    a = dict(a)
    if t == "send_msg":
        _drop(a, "all_urns", EMPTY_FLAG)
        _drop(a, "topic", EMPTY_LABEL)
    elif t == "remove_contact_groups":
        _drop(a, "all_groups", EMPTY_FLAG)
        a["groups"] = [norm_group(g) for g in a["groups"]]
    elif t == "add_contact_groups":
        a["groups"] = [norm_group(g) for g in a["groups"]]
    elif t == "set_run_result":
        _drop(a, "category", EMPTY_LABEL)
    return a


def norm_node(n):
    n = dict(n)
    exits = []
    for e in n["exits"]:
        e = dict(e)
        _drop(e, "destination_uuid", (None,))
        exits.append(e)
    n["exits"] = exits
    n["actions"] = [norm_action(a) for a in n.get("actions", [])]
    if "router" in n:
        rt = dict(n["router"])
        _drop(rt, "result_name", EMPTY_LABEL)
        n["router"] = rt
    return n


def norm_flow(f):
    f = dict(f)
    nodes = []
    for n in f["nodes"]:
        nodes.append(norm_node(n))
    f["nodes"] = nodes
    ui = f.pop("_ui", None)
    pos, rest = {}, {}
    if isinstance(ui, dict):
        for u, ent in (ui.get("nodes") or {}).items():
            pos[u] = [ent["position"]["left"], ent["position"]["top"]]
            rest[u] = {k: v for k, v in ent.items() if k != "position"}
    f["_ui_positions"] = pos
    f["_ui_entries"] = rest
    return f


def editor_entries(d):
    """{(flow index, node uuid)} of the `_ui.nodes` entries of d that are exactly the editor's entry
    for their node (those come back field for field), and the number of the other entries"""
    full, other = set(), 0
    for fi, f in enumerate(d.get("flows", [])):
        ui = f.get("_ui")
        if not isinstance(ui, dict):
            continue
        by_id = {n.get("uuid"): n for n in f.get("nodes", [])}
        for u, ent in (ui.get("nodes") or {}).items():
            try:
                ok = u in by_id and strict_eq(ent, editor_ui(by_id[u], ent["position"]["left"], ent["position"]["top"]))
            except Exception:  # noqa: BLE001  (a node outside the schema: no editor entry to compare with)
                ok = False
            if ok:
                full.add((fi, u))
            else:
                other += 1
    return full, other


def approx_diff(inp, out):
    """paths where norm(inp) and norm(out) differ = where out is NOT ≈ inp"""
    ni, no = norm(inp), norm(out)
    full, _ = editor_entries(inp)
    for fi, (fa, fb) in enumerate(zip(ni["flows"], no["flows"])):
        for u in list(fa["_ui_entries"]):
            if (fi, u) not in full:
                fa["_ui_entries"].pop(u, None)
                fb["_ui_entries"].pop(u, None)
    return diff_paths(ni, no)


def norm_trigger(t):
    t = dict(t)
    if "keywords" not in t:
        kw = t.get("keyword")
        t["keywords"] = [] if kw is None else [kw]
    t["keyword"] = t["keywords"][0] if t["keywords"] else None
    _drop(t, "match_type", EMPTY_LABEL)
    if "match_type" not in t and t.get("trigger_type") == "K":
        t["match_type"] = "F"
    _drop(t, "exclude_groups", ([],))
    t["groups"] = [norm_group(g) for g in t["groups"]]
    if "exclude_groups" in t:
        t["exclude_groups"] = [norm_group(g) for g in t["exclude_groups"]]
    return t


def norm_campaign(c):
    c = dict(c)
    c["group"] = norm_group(c["group"])
    return c


def norm(d):
    d = dict(d)
    d["flows"] = [norm_flow(f) for f in d["flows"]]
    d["groups"] = [norm_group(g) for g in d["groups"]]
    d["campaigns"] = [norm_campaign(c) for c in d["campaigns"]]
    d["triggers"] = [norm_trigger(t) for t in d["triggers"]]
    return d


def strict_eq(a, b):
    """JSON equality that does not confuse True/1/1.0 (Python's == does)."""
    if isinstance(a, bool) or isinstance(b, bool):
        return type(a) is type(b) and a == b
    if isinstance(a, (int, float)) and isinstance(b, (int, float)):
        return a == b
    if type(a) is not type(b):
        return False
    if isinstance(a, dict):
        return a.keys() == b.keys() and all(strict_eq(a[k], b[k]) for k in a)
    if isinstance(a, list):
        return len(a) == len(b) and all(strict_eq(x, y) for x, y in zip(a, b))
    return a == b


def diff_paths(a, b, p="", out=None, limit=40):
    """JSON-pointer-like paths where a and b differ (a = expected, b = got)."""
    out = [] if out is None else out
    if len(out) >= limit:
        return out
    if isinstance(a, dict) and isinstance(b, dict):
        for k in list(a.keys()) + [k for k in b if k not in a]:
            if k not in a:
                out.append((f"{p}/{k}", "added", None, b[k]))
            elif k not in b:
                out.append((f"{p}/{k}", "missing", a[k], None))
            else:
                diff_paths(a[k], b[k], f"{p}/{k}", out, limit)
    elif isinstance(a, list) and isinstance(b, list):
        if len(a) != len(b):
            out.append((p, "length", len(a), len(b)))
        for i, (x, y) in enumerate(zip(a, b)):
            diff_paths(x, y, f"{p}/{i}", out, limit)
    elif not strict_eq(a, b):
        out.append((p, "value", a, b))
    return out


# ----------------------------------------------------------------------------- known findings
# trigger predicates (on the input), repair transforms (counterfactual), diff patterns


def _nodes(d):
    for fi, f in enumerate(d.get("flows", [])):
        for ni, n in enumerate(f.get("nodes", [])):
            yield fi, ni, n


def ordered_cats(rt):
    """OrderedCats of Props/C05.lean for one switch router."""
    cats = [c["uuid"] for c in rt["categories"]]
    dflt = rt["default_category_uuid"]
    to = rt.get("wait", {}).get("timeout")
    if to is not None:
        return len(cats) >= 2 and cats[-1] == to["category_uuid"] and cats[-2] == dflt
    return bool(cats) and cats[-1] == dflt


def exits_by_cats(n):
    return [e["uuid"] for e in n["exits"]] == [c["exit_uuid"] for c in n["router"]["categories"]]


def trig_a(d):
    return [
        f"/flows/{fi}/nodes/{ni}/actions/{ai}/field/type"
        for fi, ni, n in _nodes(d)
        for ai, a in enumerate(n.get("actions", []))
        if a.get("type") == "set_contact_field" and a.get("field", {}).get("type")
    ]


def trig_b(d):
    return [f"/groups/{gi}/{a}" for gi, g in enumerate(d.get("groups", [])) for a in GROUP_ATTRS if g.get(a) is not None]


def trig_c(d):
    return [
        f"/flows/{fi}/nodes/{ni}"
        for fi, ni, n in _nodes(d)
        if n.get("router", {}).get("type") == "switch" and not ordered_cats(n["router"])
    ]


def trig_d(d):
    return [f"/flows/{fi}/nodes/{ni}/exits" for fi, ni, n in _nodes(d) if "router" in n and not exits_by_cats(n)]


def repair(d, which):
    """the finding's repair transform: the nearest document outside the trigger"""
    d = copy.deepcopy(d)
    if "a" in which:
        for _, _, n in _nodes(d):
            for a in n.get("actions", []):
                if a.get("type") == "set_contact_field":
                    a.get("field", {}).pop("type", None)
    if "b" in which:
        for g in d.get("groups", []):
            for a in GROUP_ATTRS:
                g.pop(a, None)
    if "c" in which:
        for _, _, n in _nodes(d):
            rt = n.get("router", {})
            if rt.get("type") == "switch" and not ordered_cats(rt):
                to = rt.get("wait", {}).get("timeout")
                special = [rt["default_category_uuid"]] + ([to["category_uuid"]] if to else [])
                cats = rt["categories"]
                rt["categories"] = [c for c in cats if c["uuid"] not in special] + [
                    c for u in special for c in cats if c["uuid"] == u
                ]
                which = set(which) | {"d"}
    if "d" in which:
        for _, _, n in _nodes(d):
            if "router" in n and not exits_by_cats(n):
                n["exits"] = [e for c in n["router"]["categories"] for e in n["exits"] if e["uuid"] == c["exit_uuid"]][: len(n["router"]["categories"])]
    return d


TRIGGERS = {"a": trig_a, "b": trig_b, "c": trig_c, "d": trig_d}


def pattern_ok(fid, trig_paths, path):
    """does a differing path (of norm(input) vs norm(output)) fit the finding's pattern?"""
    if fid == "a":
        return path in trig_paths
    if fid == "b":
        return path in trig_paths
    if fid == "c":
        return any(path.startswith(t + "/router/categories") or path.startswith(t + "/exits") for t in trig_paths)
    if fid == "d":
        return any(path.startswith(t) for t in trig_paths)
    return False


# ----------------------------------------------------------------------------- quirk stream
# Near-valid documents OUTSIDE the property's domain (tie B only): they drive the error
# branches and the quirks of from_dict/render that `Valid` excludes.


def _pick(r, xs):
    xs = list(xs)
    return r.choice(xs) if xs else None


def quirk(d, r: random.Random):
    """apply one random out-of-domain mutation; returns (doc, name) or (None, None)"""
    d = copy.deepcopy(d)
    nodes = [n for _, _, n in _nodes(d)]
    routers = [n for n in nodes if "router" in n]
    switches = [n for n in routers if n["router"]["type"] == "switch"]
    actions = [(n, a) for n in nodes for a in n.get("actions", [])]
    muts = []

    def m(name, cond=True):
        def deco(f):
            if cond:
                muts.append((name, f))
            return f
        return deco

    @m("node_uuid_empty", nodes)
    def _():
        _pick(r, nodes)["uuid"] = ""

    @m("exit_uuid_empty", nodes)
    def _():
        _pick(r, _pick(r, nodes)["exits"])["uuid"] = ""

    @m("basic_two_exits", [n for n in nodes if "router" not in n])
    def _():
        n = _pick(r, [n for n in nodes if "router" not in n])
        n["exits"] = n["exits"] + [{"uuid": "ffffffff-0000-4000-8000-000000000001", "destination_uuid": None}]

    @m("basic_no_exit", [n for n in nodes if "router" not in n])
    def _():
        _pick(r, [n for n in nodes if "router" not in n])["exits"] = []

    @m("hard_exit", nodes)
    def _():
        _pick(r, _pick(r, nodes)["exits"])["destination_uuid"] = "HARD_EXIT"

    @m("dest_empty_string", nodes)
    def _():
        _pick(r, _pick(r, nodes)["exits"])["destination_uuid"] = ""

    @m("default_uuid_unknown", switches)
    def _():
        _pick(r, switches)["router"]["default_category_uuid"] = "nope"

    @m("category_exit_unknown", routers)
    def _():
        _pick(r, _pick(r, routers)["router"]["categories"])["exit_uuid"] = "nope"

    @m("unreferenced_exit", routers)
    def _():
        n = _pick(r, routers)
        n["exits"] = n["exits"] + [{"uuid": "ffffffff-0000-4000-8000-000000000002", "destination_uuid": None}]

    @m("shared_exit", [n for n in routers if len(n["router"]["categories"]) > 1])
    def _():
        n = _pick(r, [n for n in routers if len(n["router"]["categories"]) > 1])
        n["router"]["categories"][0]["exit_uuid"] = n["router"]["categories"][1]["exit_uuid"]

    @m("duplicate_exit_uuid", [n for n in routers if len(n["exits"]) > 1])
    def _():
        n = _pick(r, [n for n in routers if len(n["exits"]) > 1])
        n["exits"][1]["uuid"] = n["exits"][0]["uuid"]

    @m("duplicate_category_uuid", [n for n in routers if len(n["router"]["categories"]) > 1])
    def _():
        n = _pick(r, [n for n in routers if len(n["router"]["categories"]) > 1])
        n["router"]["categories"][0]["uuid"] = n["router"]["categories"][-1]["uuid"]

    @m("timeout_zero_seconds", [n for n in switches if "timeout" in n["router"].get("wait", {})])
    def _():
        _pick(r, [n for n in switches if "timeout" in n["router"].get("wait", {})])["router"]["wait"]["timeout"]["seconds"] = 0

    @m("timeout_category_unknown", [n for n in switches if "timeout" in n["router"].get("wait", {})])
    def _():
        _pick(r, [n for n in switches if "timeout" in n["router"].get("wait", {})])["router"]["wait"]["timeout"]["category_uuid"] = "nope"

    @m("timeout_is_default", [n for n in switches if "timeout" in n["router"].get("wait", {})])
    def _():
        n = _pick(r, [n for n in switches if "timeout" in n["router"].get("wait", {})])
        n["router"]["wait"]["timeout"]["category_uuid"] = n["router"]["default_category_uuid"]

    @m("wait_type_other", [n for n in switches if "wait" in n["router"]])
    def _():
        _pick(r, [n for n in switches if "wait" in n["router"]])["router"]["wait"]["type"] = "dial"

    @m("case_unknown_test", [n for n in switches if n["router"]["cases"]])
    def _():
        _pick(r, _pick(r, [n for n in switches if n["router"]["cases"]])["router"]["cases"])["type"] = "has_nothing"

    @m("noarg_test_with_args", [n for n in switches if n["router"]["cases"]])
    def _():
        c = _pick(r, _pick(r, [n for n in switches if n["router"]["cases"]])["router"]["cases"])
        c["type"], c["arguments"] = "has_text", ["x"]

    @m("has_group_one_arg", [n for n in switches if n["router"]["cases"]])
    def _():
        c = _pick(r, _pick(r, [n for n in switches if n["router"]["cases"]])["router"]["cases"])
        c["type"], c["arguments"] = "has_group", ["u-only"]

    @m("has_group_unlisted", [n for n in switches if n["router"]["cases"]])
    def _():
        c = _pick(r, _pick(r, [n for n in switches if n["router"]["cases"]])["router"]["cases"])
        c["type"], c["arguments"] = "has_group", ["99999999-0000-4000-8000-000000000009", "unlisted group"]

    @m("case_uuid_empty", [n for n in switches if n["router"]["cases"]])
    def _():
        _pick(r, _pick(r, [n for n in switches if n["router"]["cases"]])["router"]["cases"])["uuid"] = ""

    @m("category_name_too_long", routers)
    def _():
        _pick(r, _pick(r, routers)["router"]["categories"])["name"] = "x" * r.choice([115, 116])

    @m("switch_with_plain_action", [n for n in switches if not n["actions"]])
    def _():
        _pick(r, [n for n in switches if not n["actions"]])["actions"] = [{"type": "send_msg", "uuid": "u", "text": "t", "attachments": [], "quick_replies": []}]

    @m("router_action_two_actions", [n for n in switches if n["actions"]])
    def _():
        n = _pick(r, [n for n in switches if n["actions"]])
        n["actions"] = n["actions"] + [copy.deepcopy(n["actions"][0])]

    @m("random_with_actions", [n for n in routers if n["router"]["type"] == "random"])
    def _():
        _pick(r, [n for n in routers if n["router"]["type"] == "random"])["actions"] = [{"type": "play_audio", "uuid": "u", "audio_url": "x"}]

    @m("empty_attachment", [a for _, a in actions if a["type"] == "send_msg"])
    def _():
        a = _pick(r, [a for _, a in actions if a["type"] == "send_msg"])
        a["attachments"] = ["", "image:x", ""]

    @m("field_key_empty", [a for _, a in actions if a["type"] == "set_contact_field"])
    def _():
        _pick(r, [a for _, a in actions if a["type"] == "set_contact_field"])["field"]["key"] = ""

    @m("templating_uuid_empty", [a for _, a in actions if "templating" in a])
    def _():
        _pick(r, [a for _, a in actions if "templating" in a])["templating"]["uuid"] = ""

    @m("group_ref_other_uuid", [a for _, a in actions if a.get("groups") and a["type"] in ("add_contact_groups", "remove_contact_groups")])
    def _():
        a = _pick(r, [a for _, a in actions if a.get("groups") and a["type"] in ("add_contact_groups", "remove_contact_groups")])
        a["groups"][0]["uuid"] = "eeeeeeee-0000-4000-8000-00000000000e"

    @m("group_ref_unlisted", [a for _, a in actions if a["type"] in ("add_contact_groups", "remove_contact_groups")])
    def _():
        a = _pick(r, [a for _, a in actions if a["type"] in ("add_contact_groups", "remove_contact_groups")])
        a["groups"] = a["groups"] + [{"name": "unlisted group", "uuid": "99999999-0000-4000-8000-000000000009"}]

    @m("group_ref_uuid_empty", [a for _, a in actions if a.get("groups") and a["type"] in ("add_contact_groups", "remove_contact_groups")])
    def _():
        _pick(r, [a for _, a in actions if a.get("groups") and a["type"] in ("add_contact_groups", "remove_contact_groups")])["groups"][0]["uuid"] = ""

    @m("flow_ref_other_uuid", [a for _, a in actions if a["type"] == "enter_flow"])
    def _():
        _pick(r, [a for _, a in actions if a["type"] == "enter_flow"])["flow"]["uuid"] = "eeeeeeee-0000-4000-8000-00000000000f"

    @m("top_group_duplicate", d["groups"])
    def _():
        d["groups"].append(dict(d["groups"][0]))

    @m("top_group_uuid_empty", d["groups"])
    def _():
        _pick(r, d["groups"])["uuid"] = ""

    @m("top_groups_cleared", d["groups"])
    def _():
        d["groups"] = []

    @m("flow_uuid_empty", d["flows"])
    def _():
        _pick(r, d["flows"])["uuid"] = ""

    @m("flow_metadata_null", d["flows"])
    def _():
        _pick(r, d["flows"])["metadata"] = r.choice([None, [], 0, ""])

    @m("flow_duplicate_name", len(d["flows"]) > 1)
    def _():
        d["flows"][1]["name"] = d["flows"][0]["name"]

    @m("site_empty")
    def _():
        d["site"] = r.choice(["", None])

    @m("fields_null")
    def _():
        d["fields"] = r.choice([None, {}])

    @m("trigger_flow_undefined", d["triggers"])
    def _():
        _pick(r, d["triggers"])["flow"] = {"name": "no such flow", "uuid": "dddddddd-0000-4000-8000-00000000000d"}

    @m("trigger_K_no_keyword", d["triggers"])
    def _():
        t = _pick(r, d["triggers"])
        t["trigger_type"] = "K"
        t.pop("keyword", None)
        t["keywords"] = r.choice([[], [""]])

    @m("trigger_no_keyword_at_all", d["triggers"])
    def _():
        t = _pick(r, d["triggers"])
        t.pop("keyword", None)
        t.pop("keywords", None)

    @m("trigger_keyword_mismatch", d["triggers"])
    def _():
        t = _pick(r, d["triggers"])
        t["keywords"] = ["one", "two"]
        t["keyword"] = "zero"

    @m("trigger_channel_empty", d["triggers"])
    def _():
        _pick(r, d["triggers"])["channel"] = ""

    @m("trigger_K_without_match_type", d["triggers"])
    def _():
        t = _pick(r, d["triggers"])
        t["trigger_type"] = "K"
        t["keywords"] = ["kw"]
        t.pop("keyword", None)
        t.pop("match_type", None)

    events = [e for c in d["campaigns"] for e in c["events"]]

    @m("event_M_no_language", [e for e in events if e["event_type"] == "M"])
    def _():
        _pick(r, [e for e in events if e["event_type"] == "M"]).pop("base_language")

    @m("event_M_with_flow", [e for e in events if e["event_type"] == "M"] and d["flows"])
    def _():
        f = d["flows"][0]
        _pick(r, [e for e in events if e["event_type"] == "M"])["flow"] = {"name": f["name"], "uuid": f["uuid"]}

    @m("event_F_with_language", [e for e in events if e["event_type"] == "F"])
    def _():
        _pick(r, [e for e in events if e["event_type"] == "F"])["base_language"] = "eng"

    @m("event_uuid_empty", events)
    def _():
        _pick(r, events)["uuid"] = ""

    @m("campaign_uuid_empty", d["campaigns"])
    def _():
        _pick(r, d["campaigns"])["uuid"] = ""

    if not muts:
        return None, None
    name, f = r.choice(muts)
    f()
    return d, name
