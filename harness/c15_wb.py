"""C15 helpers, part 1: workbooks as JSON-able dicts, the valid base workbooks, and the
runner of the REAL command (`python -m rpft.cli create_flows … -f csv -o out.json`).

A workbook is {"name": str, "sheets": {sheet: {"h": [headers], "rows": [ {header: cell} ]}},
"models": None | {"module": str, "source": str}}.
"""
from __future__ import annotations

import copy
import csv
import io
import json
import os
import random
import shutil
import subprocess
import tempfile

from . import core
from .flows import rows_to_csv
from .gen import sheets as G
from .gen import sugar as S

FH = list(G.HEADERS)
IH = ["type", "sheet_name", "data_sheet", "data_row_id", "new_name", "template_arguments", "data_model",
      "operation.type", "operation.expression", "operation.order", "group", "status"]
TH = ["type", "keywords", "flow", "groups", "exclude_groups", "channel", "match_type"]
CH = ["offset", "unit", "event_type", "delivery_hour", "message", "relative_to", "start_mode", "flow", "base_language"]

U = ["11111111-1111-4111-8111-111111111111", "22222222-2222-4222-8222-222222222222",
     "33333333-3333-4333-8333-333333333333", "44444444-4444-4444-8444-444444444444"]
SENTINEL = b"SENTINEL: previous output, must survive a failing run\n\x00\xff"


def sheet(headers, rows):
    return {"h": list(headers), "rows": [dict(r) for r in rows]}


def wb_new(name, sheets, models=None):
    return {"name": name, "sheets": sheets, "models": models}


def wb_copy(wb):
    return copy.deepcopy(wb)


def csv_texts(wb) -> dict[str, str]:
    return {n: rows_to_csv(s["h"], s["rows"]) for n, s in wb["sheets"].items()}


def sheet_from_csv(text):
    rd = list(csv.reader(io.StringIO(text)))
    h = rd[0]
    return sheet(h, [dict(zip(h, r)) for r in rd[1:]])


# ------------------------------------------------------------------ base workbooks


def _idx(rows):
    return sheet(IH, rows)


def base_plain(rng):
    w = rng.choice(["yes", "ok", "sure"])
    main = [
        {"row_id": "m1", "type": "send_message", "from": "start", "message_text": "Hello", "choices": "Yes;No"},
        {"row_id": "m2", "type": "wait_for_response", "from": "m1"},
        {"row_id": "m3", "type": "send_message", "from": "m2", "condition": w, "condition_name": "Agree", "message_text": "Good"},
        {"row_id": "m4", "type": "send_message", "from": "m2", "condition": "no", "message_text": "Bad"},
        {"row_id": "m5", "type": "save_value", "from": "m3", "message_text": "val " + w, "save_name": "field one"},
        {"row_id": "m6", "type": "save_flow_result", "from": "m5", "message_text": "res", "save_name": "result one"},
        {"row_id": "m7", "type": "add_to_group", "from": "m4", "message_text": "Group A", "obj_id": U[0]},
        {"row_id": "", "type": "go_to", "from": "m7", "message_text": "m1"},
        {"row_id": "m8", "type": "remove_from_group", "from": "m6", "message_text": "Group A", "obj_id": U[0]},
    ]
    return wb_new("plain", {"content_index": _idx([{"type": "create_flow", "sheet_name": "main"}]), "main": sheet(FH, main)})


BLOCK_ROWS = [
    {"row_id": "b1", "type": "send_message", "from": "start", "message_text": "intro"},
    {"row_id": "bf", "type": "begin_for", "from": "b1", "loop_variable": "x;i", "message_text": "a;b;c"},
    {"row_id": "b2", "type": "send_message", "from": "", "message_text": "item {{x}} {{i}}"},
    {"row_id": "bb", "type": "begin_block", "from": ""},
    {"row_id": "b3", "type": "send_message", "from": "", "message_text": "in block {{x}}"},
    {"row_id": "b4", "type": "save_value", "from": "b3", "message_text": "{{x}}", "save_name": "last item"},
    {"row_id": "", "type": "end_block"},
    {"row_id": "", "type": "end_for"},
    {"row_id": "b5", "type": "wait_for_response", "from": "bf"},
    {"row_id": "b6", "type": "send_message", "from": "b5", "condition": "yes", "message_text": "after"},
    {"row_id": "bx", "type": "begin_block", "from": "b6", "include_if": "FALSE"},
    {"row_id": "b7", "type": "send_message", "from": "", "message_text": "never"},
    {"row_id": "", "type": "begin_for", "from": "", "loop_variable": "y", "message_text": "p;q"},
    {"row_id": "b8", "type": "send_message", "from": "", "message_text": "never {{y}}"},
    {"row_id": "", "type": "end_for"},
    {"row_id": "", "type": "end_block"},
    {"row_id": "b9", "type": "send_message", "from": "b6", "message_text": "end"},
]


def base_blocks(rng):
    rows = copy.deepcopy(BLOCK_ROWS)
    rows[1]["message_text"] = rng.choice(["a;b;c", "u;v", "one;two;three;four"])
    return wb_new("blocks", {"content_index": _idx([{"type": "create_flow", "sheet_name": "loops"}]), "loops": sheet(FH, rows)})


def _clean_generated(rng, make, tries=40):
    """a generated flow sheet that the real compiler accepts without any record ≥ ERROR"""
    from .flows import compile_index

    for _ in range(tries):
        rows = make()
        sheets = {"content_index": rows_to_csv(IH, [{"type": "create_flow", "sheet_name": "g"}]), "g": rows_to_csv(FH, rows)}
        res = compile_index(sheets)
        if res.ok:
            return rows
    raise core.Infra("generator produced no clean sheet in %d tries" % tries)


def base_multi(rng):
    g1 = _clean_generated(rng, lambda: G.gen_core_sheet(rng, rng.randint(4, 9)))
    g2 = _clean_generated(rng, lambda: G.gen_core_sheet(rng, rng.randint(4, 9), noop=True))
    last = base_plain(rng)["sheets"]["main"]["rows"]
    idx = [{"type": "create_flow", "sheet_name": "gen one"}, {"type": "create_flow", "sheet_name": "gen two", "new_name": "second"},
           {"type": "create_flow", "sheet_name": "last"}]
    return wb_new("multi", {"content_index": _idx(idx), "gen one": sheet(FH, g1), "gen two": sheet(FH, g2), "last": sheet(FH, last)})


def base_sugar(rng):
    s1 = _clean_generated(rng, lambda: S.gen_sugar_sheet(rng, rng.randint(5, 12)))
    s2 = _clean_generated(rng, lambda: S.gen_sugar_sheet(rng, rng.randint(5, 12)))
    idx = [{"type": "create_flow", "sheet_name": "sugar1"}, {"type": "create_flow", "sheet_name": "sugar2"},
           {"type": "create_flow", "sheet_name": "loops"}]
    return wb_new("sugar", {"content_index": _idx(idx), "sugar1": sheet(FH, s1), "sugar2": sheet(FH, s2),
                            "loops": sheet(FH, copy.deepcopy(BLOCK_ROWS))})


DATA_H = ["ID", "word", "count:int", "items.1", "items.2"]


def _data_rows(rng, n, prefix="row"):
    return [{"ID": f"{prefix}{k}", "word": rng.choice(["alpha", "beta", "gamma"]), "count:int": str(rng.randint(0, 3)),
             "items.1": f"x{k}", "items.2": f"y{k}"} for k in range(1, n + 1)]


TMPL_ROWS = [
    {"row_id": "t1", "type": "send_message", "from": "start", "message_text": "T {{word}} {{extra}} {{needed}}"},
    {"row_id": "tl", "type": "begin_for", "from": "t1", "loop_variable": "it;k", "message_text": "{@items@}"},
    {"row_id": "t2", "type": "send_message", "from": "", "message_text": "item {{k}} {{it}}"},
    {"row_id": "", "type": "end_for"},
    {"row_id": "t3", "type": "wait_for_response", "from": "tl"},
    {"row_id": "t4", "type": "send_message", "from": "t3", "condition": "{{word}}", "message_text": "matched {{word}}"},
    {"row_id": "t5", "type": "save_value", "from": "t4", "message_text": "{{count}}", "save_name": "the count"},
]


def base_tmpl(rng):
    data = _data_rows(rng, rng.randint(2, 4))
    ids = [r["ID"] for r in data]
    main = [
        {"row_id": "m1", "type": "send_message", "from": "start", "message_text": "main"},
        {"row_id": "m2", "type": "insert_as_block", "from": "m1", "message_text": "tmpl", "data_sheet": "data",
         "data_row_id": rng.choice(ids), "template_arguments": "E1;N1"},
        {"row_id": "m3", "type": "send_message", "from": "m2", "message_text": "after block"},
        {"row_id": "m4", "type": "start_new_flow", "from": "m3", "message_text": "tmpl - " + ids[0]},
    ]
    idx = [
        {"type": "data_sheet", "sheet_name": "data"},
        {"type": "template_definition", "sheet_name": "tmpl", "template_arguments": "extra;;dflt|needed;;|"},
        {"type": "create_flow", "sheet_name": "tmpl", "data_sheet": "data", "template_arguments": ";N0"},
        {"type": "create_flow", "sheet_name": "tmpl", "data_sheet": "data", "data_row_id": ids[-1], "new_name": "single",
         "template_arguments": "X;N2"},
        {"type": "create_flow", "sheet_name": "main"},
    ]
    return wb_new("tmpl", {"content_index": _idx(idx), "data": sheet(DATA_H, data), "tmpl": sheet(FH, copy.deepcopy(TMPL_ROWS)),
                           "main": sheet(FH, main)})


def base_blockonly(rng):
    """a template that is ONLY inserted as a block (never a flow of its own): whatever is wrong inside it can only be
    noticed while the block is parsed for the flow that inserts it"""
    data = _data_rows(rng, rng.randint(2, 3))
    ids = [r["ID"] for r in data]
    main = [
        {"row_id": "m1", "type": "send_message", "from": "start", "message_text": "main"},
        {"row_id": "m2", "type": "insert_as_block", "from": "m1", "message_text": "blk", "data_sheet": "data",
         "data_row_id": rng.choice(ids), "template_arguments": "E1;N1"},
        {"row_id": "m3", "type": "send_message", "from": "m2", "message_text": "after block"},
    ]
    other = [
        {"row_id": "o1", "type": "send_message", "from": "start", "message_text": "other flow"},
        {"row_id": "o2", "type": "wait_for_response", "from": "o1"},
        {"row_id": "o3", "type": "send_message", "from": "o2", "condition": "yes", "message_text": "yes"},
    ]
    idx = [
        {"type": "data_sheet", "sheet_name": "data"},
        {"type": "template_definition", "sheet_name": "blk", "template_arguments": "extra;;dflt|needed;;|"},
        {"type": "create_flow", "sheet_name": "main"},
        {"type": "create_flow", "sheet_name": "other"},
    ]
    return wb_new("blockonly", {"content_index": _idx(idx), "data": sheet(DATA_H, data), "blk": sheet(FH, copy.deepcopy(TMPL_ROWS)),
                                "main": sheet(FH, main), "other": sheet(FH, other)})


def base_genindex(rng):
    from .flows import compile_index

    for _ in range(40):
        texts, _x = S.gen_index_workbook(rng)
        if compile_index(texts).ok:
            return wb_new("genindex", {n: sheet_from_csv(t) for n, t in texts.items()})
    raise core.Infra("gen_index_workbook produced no clean workbook")


def base_trig(rng):
    one = base_plain(rng)["sheets"]["main"]["rows"]
    two = [
        {"row_id": "a1", "type": "send_message", "from": "start", "message_text": "second flow"},
        {"row_id": "a2", "type": "start_new_flow", "from": "a1", "message_text": "flow one"},
        {"row_id": "a3", "type": "send_message", "from": "a2", "condition": "completed", "message_text": "back"},
    ]
    trig = [
        {"type": "K", "keywords": "join;start", "flow": "flow one", "match_type": "F"},
        {"type": "C", "flow": "flow two", "groups": "Group A"},
        {"type": "K", "keywords": "two", "flow": "flow two", "exclude_groups": "Group B"},
    ]
    camp = [
        {"offset": "1", "unit": "D", "event_type": "F", "relative_to": "Created On", "start_mode": "I", "flow": "flow one"},
        {"offset": "2", "unit": "H", "event_type": "M", "message": "reminder", "relative_to": "Created On", "start_mode": "S",
         "delivery_hour": "9"},
    ]
    idx = [
        {"type": "create_flow", "sheet_name": "flow one"},
        {"type": "create_triggers", "sheet_name": "trigs"},
        {"type": "create_flow", "sheet_name": "flow two"},
        {"type": "create_campaign", "sheet_name": "camp", "group": "Campaign Group", "new_name": "my campaign"},
    ]
    rng.shuffle(idx)
    return wb_new("trig", {"content_index": _idx(idx), "flow one": sheet(FH, one), "flow two": sheet(FH, two),
                           "trigs": sheet(TH, trig), "camp": sheet(CH, camp)})


MODELS_SRC = '''from typing import List
from rpft.parsers.creation.datarowmodel import DataRowModel


class WordModel(DataRowModel):
    word: str = ""
    count: int = 0
    items: List[str] = []


class OtherModel(DataRowModel):
    label: str = ""
'''


def base_models(rng):
    data = _data_rows(rng, 3)
    other = [{"ID": "o1", "label": "first"}, {"ID": "o2", "label": "second"}]
    lab = [
        {"row_id": "l1", "type": "send_message", "from": "start", "message_text": "label {{label}}"},
        {"row_id": "l2", "type": "save_flow_result", "from": "l1", "message_text": "{{label}}", "save_name": "label result"},
    ]
    idx = [
        {"type": "data_sheet", "sheet_name": "data", "data_model": "WordModel"},
        {"type": "data_sheet", "sheet_name": "other", "data_model": "OtherModel"},
        {"type": "template_definition", "sheet_name": "tmpl", "template_arguments": "extra;;dflt|needed;;nd|"},
        {"type": "create_flow", "sheet_name": "tmpl", "data_sheet": "data"},
        {"type": "create_flow", "sheet_name": "lab", "data_sheet": "other", "data_row_id": "o2"},
    ]
    return wb_new("models", {"content_index": _idx(idx), "data": sheet(DATA_H, data), "other": sheet(["ID", "label"], other),
                             "tmpl": sheet(FH, copy.deepcopy(TMPL_ROWS)), "lab": sheet(FH, lab)},
                  models={"module": "c15models", "source": MODELS_SRC})


def base_ops(rng):
    a = _data_rows(rng, 2, "a")
    b = _data_rows(rng, 3, "b")
    a[0]["word"] = "alpha"
    b[0]["word"] = "alpha"
    tm = [
        {"row_id": "w1", "type": "send_message", "from": "start", "message_text": "word {{word}} {{count}}"},
        {"row_id": "w2", "type": "save_value", "from": "w1", "message_text": "{{word}}", "save_name": "the word"},
    ]
    idx = [
        {"type": "data_sheet", "sheet_name": "dataA;dataB", "new_name": "all", "operation.type": "concat", "data_model": "WordModel"},
        {"type": "data_sheet", "sheet_name": "all", "new_name": "alphas", "operation.type": "filter",
         "operation.expression": "word == 'alpha'"},
        {"type": "data_sheet", "sheet_name": "dataB", "new_name": "sortedB", "operation.type": "sort", "data_model": "WordModel",
         "operation.expression": "word", "operation.order": "descending"},
        {"type": "create_flow", "sheet_name": "wtmpl", "data_sheet": "alphas", "new_name": "alpha flow"},
        {"type": "create_flow", "sheet_name": "wtmpl", "data_sheet": "sortedB", "data_row_id": "b2", "new_name": "sorted flow"},
        {"type": "create_flow", "sheet_name": "wtmpl", "data_sheet": "all", "new_name": "all flow"},
    ]
    return wb_new("ops", {"content_index": _idx(idx), "dataA": sheet(DATA_H, a), "dataB": sheet(DATA_H, b), "wtmpl": sheet(FH, tm)},
                  models={"module": "c15models", "source": MODELS_SRC})


def base_webhook(rng):
    method = rng.choice(["GET", "POST", "", "PUT"])
    rows = [
        {"row_id": "h1", "type": "send_message", "from": "start", "message_text": "calling"},
        {"row_id": "h2", "type": "call_webhook", "from": "h1", "webhook.url": "http://example.org/api", "webhook.method": method,
         "webhook.headers": "Authorization;Token abc|Content-Type;application/json|", "save_name": "hook result", "message_text": ""},
        {"row_id": "h3", "type": "send_message", "from": "h2", "condition": "Success", "message_text": "ok"},
        {"row_id": "h4", "type": "send_message", "from": "h2", "condition": "Failure", "message_text": "failed"},
        {"row_id": "h5", "type": "split_by_value", "from": "h3", "message_text": "@fields.color"},
        {"row_id": "h6", "type": "send_message", "from": "h5", "condition": "red", "condition_name": "Red", "message_text": "red"},
        {"row_id": "h7", "type": "send_message", "from": "h5", "condition": "blue", "condition_name": "Blue", "condition_type": "has_phrase", "message_text": "blue"},
        {"row_id": "h8", "type": "save_flow_result", "from": "h6;h7", "message_text": "colour chosen", "save_name": "colour"},
        {"row_id": "h9", "type": "add_to_group", "from": "h8", "message_text": "Hook Group", "obj_id": U[1]},
        {"row_id": "h10", "type": "start_new_flow", "from": "h9", "message_text": "external flow", "obj_id": U[2]},
        {"row_id": "h11", "type": "call_webhook", "from": "h4", "webhook.url": "http://example.org/retry", "webhook.method": "POST",
         "webhook.headers": "", "save_name": "retry result", "message_text": "body"},
        {"row_id": "", "type": "go_to", "from": "h11", "condition": "Failure", "message_text": "h1"},
    ]
    second = [
        {"row_id": "s1", "type": "send_message", "from": "start", "message_text": "second"},
        {"row_id": "s2", "type": "remove_from_group", "from": "s1", "message_text": "Hook Group", "obj_id": U[1]},
        {"row_id": "s3", "type": "start_new_flow", "from": "s2", "message_text": "external flow", "obj_id": U[2]},
    ]
    idx = [{"type": "create_flow", "sheet_name": "hooks"}, {"type": "create_flow", "sheet_name": "second"}]
    return wb_new("webhook", {"content_index": _idx(idx), "hooks": sheet(FH, rows), "second": sheet(FH, second)})


def base_nested(rng):
    data = _data_rows(rng, 2)
    sub = [
        {"type": "data_sheet", "sheet_name": "data"},
        {"type": "create_flow", "sheet_name": "wtmpl", "data_sheet": "data", "new_name": "words"},
    ]
    tm = base_ops(rng)["sheets"]["wtmpl"]["rows"]
    idx = [
        {"type": "create_flow", "sheet_name": "first"},
        {"type": "content_index", "sheet_name": "sub_index"},
        {"type": "create_flow", "sheet_name": "loops", "status": ""},
        {"type": "create_flow", "sheet_name": "nosuchdraft", "status": "draft"},
    ]
    first = base_plain(rng)["sheets"]["main"]["rows"]
    return wb_new("nested", {"content_index": _idx(idx), "sub_index": _idx(sub), "data": sheet(DATA_H, data),
                             "wtmpl": sheet(FH, tm), "first": sheet(FH, first), "loops": sheet(FH, copy.deepcopy(BLOCK_ROWS))})


def base_redef(rng):
    """a valid workbook in which definitions are REPLACED by later rows of the index (legal: the
    tool only warns "Multiple definitions of flow … Overwriting" / "Duplicate campaign definition"):

    * flow `survey` is defined three times from three different sheets — `survey_draft` (replaced
      later), `survey_mid` (in a nested index; replaces and is replaced), `survey_final` (replaces
      the earlier ones and is the one that reaches the output);
    * the bulk flows `bulk - <id>` are defined from template `tmplA`, again from `tmplB`, and one
      of them a third time by a single-row create_flow (a different (data_sheet, data_row_id) key
      with the same flow name);
    * campaign `camp` is defined from `campA` and again from `campB`; the trigger sheet is
      listed twice.

    Every definition is parsed by the tool whether or not it survives, so a fault in any of them
    must stop the command.  `survey_draft` is the only place that refers to flow `draft only flow`
    (without a uuid): a replaced flow does not reach the uuid dictionary, so that name stays unknown."""
    w = rng.choice(["yes", "ok", "sure"])
    draft = [
        {"row_id": "d1", "type": "send_message", "from": "start", "message_text": "Draft question", "choices": "Yes;No"},
        {"row_id": "d2", "type": "wait_for_response", "from": "d1"},
        {"row_id": "d3", "type": "send_message", "from": "d2", "condition": w, "condition_name": "Agree", "message_text": "Good"},
        {"row_id": "d4", "type": "save_value", "from": "d3", "message_text": "val " + w, "save_name": "draft field"},
        {"row_id": "d5", "type": "add_to_group", "from": "d4", "message_text": "Survey Group", "obj_id": U[0]},
        {"row_id": "d6", "type": "start_new_flow", "from": "d5", "message_text": "draft only flow"},
        {"row_id": "d7", "type": "call_webhook", "from": "d2", "condition": "no", "webhook.url": "http://example.org/draft",
         "webhook.method": rng.choice(["GET", "POST", ""]), "webhook.headers": "Accept;text/plain|", "save_name": "draft hook"},
    ]
    mid = [
        {"row_id": "n1", "type": "send_message", "from": "start", "message_text": "Second draft"},
        {"row_id": "n2", "type": "begin_block", "from": "n1"},
        {"row_id": "n3", "type": "save_flow_result", "from": "", "message_text": "mid", "save_name": "mid result"},
        {"row_id": "", "type": "end_block"},
        {"row_id": "n4", "type": "remove_from_group", "from": "n2", "message_text": "Survey Group", "obj_id": U[0]},
    ]
    final = [
        {"row_id": "f1", "type": "send_message", "from": "start", "message_text": "Final question"},
        {"row_id": "ff", "type": "begin_for", "from": "f1", "loop_variable": "x", "message_text": rng.choice(["a;b", "p;q;r"])},
        {"row_id": "f2", "type": "send_message", "from": "", "message_text": "item {{x}}"},
        {"row_id": "", "type": "end_for"},
        {"row_id": "f3", "type": "wait_for_response", "from": "ff"},
        {"row_id": "f4", "type": "save_flow_result", "from": "f3", "condition": "yes", "message_text": "final", "save_name": "final result"},
        {"row_id": "f5", "type": "add_to_group", "from": "f4", "message_text": "Survey Group", "obj_id": U[0]},
    ]
    simple = lambda p, t: [{"row_id": p + "1", "type": "send_message", "from": "start", "message_text": t}]  # noqa: E731
    tmpl_a = [
        {"row_id": "ta1", "type": "send_message", "from": "start", "message_text": "A {{greet}} {{word}}"},
        {"row_id": "ta2", "type": "save_value", "from": "ta1", "message_text": "{{word}}", "save_name": "word a"},
    ]
    tmpl_b = [
        {"row_id": "tb1", "type": "send_message", "from": "start", "message_text": "B {{word}} {{count}}"},
        {"row_id": "tb2", "type": "wait_for_response", "from": "tb1"},
        {"row_id": "tb3", "type": "send_message", "from": "tb2", "condition": "{{word}}", "message_text": "matched"},
    ]
    data = _data_rows(rng, 2)
    camp_a = [{"offset": "1", "unit": "D", "event_type": "F", "relative_to": "Created On", "start_mode": "I", "flow": "welcome"}]
    camp_b = [{"offset": "3", "unit": "H", "event_type": "M", "message": "reminder", "relative_to": "Created On", "start_mode": "S"},
              {"offset": "2", "unit": "W", "event_type": "F", "relative_to": "Created On", "start_mode": "I", "flow": "goodbye"}]
    trig = [{"type": "K", "keywords": "survey", "flow": "survey", "match_type": "F"},
            {"type": "K", "keywords": "bye", "flow": "goodbye"}]
    sub = [{"type": "create_flow", "sheet_name": "survey_mid", "new_name": "survey"}]
    idx = [
        {"type": "create_flow", "sheet_name": "welcome"},
        {"type": "create_flow", "sheet_name": "survey_draft", "new_name": "survey"},
        {"type": "data_sheet", "sheet_name": "data"},
        {"type": "template_definition", "sheet_name": "tmplA", "template_arguments": "greet;;|"},
        {"type": "create_flow", "sheet_name": "tmplA", "data_sheet": "data", "new_name": "bulk", "template_arguments": "hello"},
        {"type": "content_index", "sheet_name": "sub_redef"},
        {"type": "create_campaign", "sheet_name": "campA", "new_name": "camp", "group": "Campaign Group"},
        {"type": "create_triggers", "sheet_name": "trigs"},
        {"type": "create_flow", "sheet_name": "survey_final", "new_name": "survey"},
        {"type": "create_flow", "sheet_name": "tmplB", "data_sheet": "data", "new_name": "bulk"},
        {"type": "create_flow", "sheet_name": "tmplA", "data_sheet": "data", "data_row_id": data[0]["ID"], "new_name": "bulk",
         "template_arguments": "hey"},
        {"type": "create_campaign", "sheet_name": "campB", "new_name": "camp", "group": "Campaign Group"},
        {"type": "create_triggers", "sheet_name": "trigs"},
        {"type": "create_flow", "sheet_name": "goodbye"},
    ]
    return wb_new("redef", {
        "content_index": _idx(idx), "sub_redef": _idx(sub), "welcome": sheet(FH, simple("w", "Welcome")),
        "goodbye": sheet(FH, simple("g", "Goodbye")), "survey_draft": sheet(FH, draft), "survey_mid": sheet(FH, mid),
        "survey_final": sheet(FH, final), "data": sheet(DATA_H, data), "tmplA": sheet(FH, tmpl_a), "tmplB": sheet(FH, tmpl_b),
        "campA": sheet(CH, camp_a), "campB": sheet(CH, camp_b), "trigs": sheet(TH, trig)})


BASES = [base_plain, base_blocks, base_multi, base_sugar, base_tmpl, base_genindex, base_trig, base_models, base_ops,
         base_webhook, base_nested, base_redef, base_blockonly]


def all_bases(seed: int):
    out = []
    for k, f in enumerate(BASES):
        out.append(f(random.Random(seed * 1000 + k)))
    return out


# ------------------------------------------------------------------ the real command


def materialise(wb, root) -> str:
    """write the workbook as a folder of CSV files (+ the data-model module next to it); returns the folder"""
    folder = os.path.join(root, "wb")
    os.makedirs(folder)
    for n, t in csv_texts(wb).items():
        with open(os.path.join(folder, n + ".csv"), "w", encoding="utf-8", newline="") as f:
            f.write(t)
    cwd = os.path.join(root, "cwd")
    os.makedirs(cwd)
    if wb.get("models"):
        with open(os.path.join(cwd, wb["models"]["module"] + ".py"), "w") as f:
            f.write(wb["models"]["source"])
    return folder


def cli_cmd(wb, folder, out):
    cmd = ["/venv/bin/python", "-m", "rpft.cli", "create_flows", folder, "-f", "csv", "-o", out]
    if wb.get("models"):
        cmd += ["--datamodels", wb["models"]["module"]]
    return cmd


# hostile surroundings of a run: what the working directory holds under the name of the log file, where -o points
HOSTILE_ENVS = ("errors.log is a directory", "stale errors.log", "output file exists", "output directory missing")
STALE_LOG = "stale line 1 of an earlier run\nstale line 2 of an earlier run\n"


def run_cli(wb, sentinel: bool, keep=False, env=None):
    """one run of the real command in a fresh scratch directory.  `env` (one of HOSTILE_ENVS): the working directory
    holds a DIRECTORY named errors.log / a non-empty errors.log of an earlier run; -o names an existing file with old
    content (= `sentinel`) / a path inside a directory that does not exist."""
    root = tempfile.mkdtemp(prefix="c15_")
    try:
        folder = materialise(wb, root)
        cwd = os.path.join(root, "cwd")
        out = os.path.join(root, "out.json")
        if env == "errors.log is a directory":
            os.makedirs(os.path.join(cwd, "errors.log"))
        elif env == "stale errors.log":
            with open(os.path.join(cwd, "errors.log"), "w") as f:
                f.write(STALE_LOG)
        elif env == "output file exists":
            sentinel = True
        elif env == "output directory missing":
            out = os.path.join(root, "no_such_dir", "out.json")
        if sentinel:
            with open(out, "wb") as f:
                f.write(SENTINEL)
        env = dict(os.environ)
        env["PYTHONPATH"] = str(core.REPO / "src")
        env["PYTHONWARNINGS"] = "ignore"
        env["PYTHONDONTWRITEBYTECODE"] = "1"
        try:
            p = subprocess.run(cli_cmd(wb, folder, out), cwd=cwd, env=env, stdout=subprocess.PIPE, stderr=subprocess.PIPE, timeout=300)
        except subprocess.TimeoutExpired:
            # a run takes about a second: 300 s without an answer is either a hang of the command (a violation) or a
            # machine under extreme load — decide with one generous retry
            try:
                p = subprocess.run(cli_cmd(wb, folder, out), cwd=cwd, env=env, stdout=subprocess.PIPE, stderr=subprocess.PIPE, timeout=1500)
            except subprocess.TimeoutExpired:
                return {"rc": None, "timeout": True, "stderr": "", "log": "", "stdout": "", "out": None, "others": []}
        log = ""
        lp = os.path.join(cwd, "errors.log")
        if os.path.isfile(lp):
            log = open(lp, encoding="utf-8", errors="replace").read()
            if env == "stale errors.log" and log.startswith(STALE_LOG):
                log = log[len(STALE_LOG):]      # what an earlier run left there is no report of THIS run
        data = None
        if os.path.isfile(out):
            data = open(out, "rb").read()
        others = sorted(x for x in os.listdir(root) if x not in ("wb", "cwd", "out.json"))
        others += sorted("cwd/" + x for x in os.listdir(cwd) if x not in ("errors.log", "__pycache__") and not x.endswith(".py"))
        if os.path.isdir(lp):
            others += sorted("cwd/errors.log/" + x for x in os.listdir(lp))
        return {"rc": p.returncode, "stderr": p.stderr.decode("utf-8", "replace"), "stdout": p.stdout.decode("utf-8", "replace"),
                "log": log, "out": data, "others": others}
    finally:
        if not keep:
            shutil.rmtree(root, ignore_errors=True)


def in_process(wb):
    """converters.create_flows on the same folder, in this process (library mode)"""
    from rpft import converters

    root = tempfile.mkdtemp(prefix="c15_")
    old = os.getcwd()
    import sys
    try:
        folder = materialise(wb, root)
        mod = None
        if wb.get("models"):
            sys.path.insert(0, os.path.join(root, "cwd"))
            sys.modules.pop(wb["models"]["module"], None)
            mod = wb["models"]["module"]
        try:
            from .flows import LogCapture

            with LogCapture():
                return converters.create_flows([folder], None, "csv", data_models=mod, tags=[])
        finally:
            if mod:
                sys.path.remove(os.path.join(root, "cwd"))
                sys.modules.pop(mod, None)
    finally:
        os.chdir(old)
        shutil.rmtree(root, ignore_errors=True)
