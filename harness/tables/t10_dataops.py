"""Data-sheet operation names (contentindexparser.py: the dispatch on `row.operation.type`, the order
word of the sort) and the fields of the `Operation` row model (contentindexrowmodel.py).

HOW IT READS (DESIGN §2.5a)
* operation names, single-source operations, order word: SOURCE STRUCTURE located BY CONTENT — every
  method of `ContentIndexParser` is searched for a dispatch on `….operation.type` (if/elif chain on
  `==`, `match`, dispatch dict; a local assigned from it counts), for `….operation.type in <list>`
  (literal or hoisted constant) and for a comparison of something built from `.order` with a string
  constant.  No private method name is looked up.  All three are SETS (distinct constants of an
  equality dispatch): emitted SORTED, compared up to order.
* `Operation` fields: RUNTIME (pydantic field list).  ORDER EXACT — an operation written in one cell
  is read positionally.
"""
import ast

from .. import t1lib
from ..extract_tables import _find_class, _parse, lean_str_list


def _is_op_type(node) -> bool:
    return t1lib.ends_with(node, "operation", "type")


def _mentions_order(node) -> bool:
    return any(isinstance(n, ast.Attribute) and n.attr == "order" for n in ast.walk(node))


def tables() -> str:
    cls = _find_class(_parse("parsers/creation/contentindexparser.py"), "ContentIndexParser")
    live = t1lib.load("rpft.parsers.creation.contentindexparser")
    resolve = t1lib.Resolver(live.ContentIndexParser, live)
    eq_names = sorted(t1lib.dispatch_keys(cls, _is_op_type, resolve))
    assert eq_names, "no dispatch on operation.type found"
    in_names = sorted({w for c in t1lib.container_consts(cls, _is_op_type, resolve, ops=(ast.In,)) for w in c})
    # string constants compared (== / !=) with something computed from `.order`
    desc = set()
    for n in t1lib.find_all(cls, lambda n: isinstance(n, ast.Compare) and len(n.ops) == 1 and isinstance(n.ops[0], (ast.Eq, ast.NotEq))):
        sides = [n.left, n.comparators[0]]
        for a, b in (sides, sides[::-1]):
            if _mentions_order(a):
                try:
                    v = resolve(b)
                except KeyError:
                    continue
                if isinstance(v, str):
                    desc.add(v)
    fields = list(t1lib.load("rpft.parsers.creation.contentindexrowmodel").Operation.__fields__)
    return (
        "-- sets (equality dispatch on distinct constants): sorted\n"
        f"def dataOpTypeNames : List (List Char) := {lean_str_list(eq_names)}\n"
        f"def dataOpSingleSource : List (List Char) := {lean_str_list(in_names)}\n"
        f"def dataOpOrderWords : List (List Char) := {lean_str_list(sorted(desc))}\n"
        "-- field order of the Operation model: exact (positional cells)\n"
        f"def dataOpFields : List (List Char) := {lean_str_list(fields)}\n"
    )
