"""Data-sheet operation names (contentindexparser.py `_process_data_sheet`, `_data_sheets_sort`)
and the fields of the `Operation` row model (contentindexrowmodel.py)."""
import ast

from ..extract_tables import _find_class, _find_func, _parse, lean_str, lean_str_list


def _is_op_type(node) -> bool:
    # row.operation.type
    return (
        isinstance(node, ast.Attribute) and node.attr == "type"
        and isinstance(node.value, ast.Attribute) and node.value.attr == "operation"
    )


def tables() -> str:
    mod = _parse("parsers/creation/contentindexparser.py")
    cls = _find_class(mod, "ContentIndexParser")
    fn = _find_func(cls, "_process_data_sheet")
    eq_names, in_names = [], []
    for n in ast.walk(fn):
        if isinstance(n, ast.Compare) and _is_op_type(n.left) and len(n.ops) == 1:
            if isinstance(n.ops[0], ast.Eq):
                eq_names.append((n.lineno, ast.literal_eval(n.comparators[0])))
            elif isinstance(n.ops[0], ast.In):
                in_names += list(ast.literal_eval(n.comparators[0]))
    eq_names = [v for _, v in sorted(eq_names)]
    # string constants compared (==) with something that is lower()-ed inside _data_sheets_sort
    fs = _find_func(cls, "_data_sheets_sort")
    desc = []
    for n in ast.walk(fs):
        if isinstance(n, ast.Compare) and len(n.ops) == 1 and isinstance(n.ops[0], (ast.Eq, ast.NotEq)):
            for side in [n.left] + n.comparators:
                if isinstance(side, ast.Constant) and isinstance(side.value, str):
                    desc.append(side.value)
    desc = sorted(set(desc))
    rm = _parse("parsers/creation/contentindexrowmodel.py")
    op = _find_class(rm, "Operation")
    fields = [s.target.id for s in op.body if isinstance(s, ast.AnnAssign)]
    return (
        f"def dataOpTypeNames : List (List Char) := {lean_str_list(eq_names)}\n"
        f"def dataOpSingleSource : List (List Char) := {lean_str_list(in_names)}\n"
        f"def dataOpOrderWords : List (List Char) := {lean_str_list(desc)}\n"
        f"def dataOpFields : List (List Char) := {lean_str_list(fields)}\n"
    )
