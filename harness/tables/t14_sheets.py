"""Sheet-reader constants (converters.py): which reader class serves which `--format`.
Literals only, read with `ast`.  (Keyword arguments such as `ensure_ascii` / `indent` are NOT
tied: changing them is behaviour-preserving, and a harmless edit must not break the build.)"""
import ast

from ..extract_tables import _find_func, _parse, lean_str


def _format_readers():
    """[(format, reader class)] in the order of the if/elif chain of create_sheet_reader"""
    f = _find_func(_parse("converters.py"), "create_sheet_reader")
    out = []
    for n in ast.walk(f):
        if isinstance(n, ast.If) and isinstance(n.test, ast.Compare) and isinstance(n.test.left, ast.Name) \
                and n.test.left.id == "sheet_format" and isinstance(n.test.ops[0], ast.Eq):
            fmt = n.test.comparators[0].value
            call = n.body[0].value
            assert isinstance(call, ast.Call) and isinstance(call.func, ast.Name), ast.dump(n.body[0])
            out.append((fmt, call.func.id))
    assert out, "create_sheet_reader: no format branches found"
    return out


def tables() -> str:
    fr = _format_readers()
    lines = [
        "/-- `create_sheet_reader`: format name → reader class, in source order -/",
        "def sheetFormatReaders : List (List Char × List Char) := ["
        + ", ".join(f"({lean_str(a)}, {lean_str(b)})" for a, b in fr) + "]",
    ]
    return "\n".join(lines) + "\n"
