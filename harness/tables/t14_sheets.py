"""Sheet-reader constants (converters.py): which reader class serves which `--format`.

HOW IT READS (DESIGN §2.5a): BEHAVIOUR.  `converters.create_sheet_reader(fmt, path)` is called for
every candidate format word (string constants of converters.py / cli.py and strings held by
module-level values) with the constructors of all reader classes (live subclasses of
`AbstractSheetReader`) switched off, and the class of the object it returns is recorded; a word it
refuses is not a format.  An if/elif chain, a dispatch dict or a `match` give the same table.
ORDER: the table is a lookup on distinct format words — emitted SORTED by format, compared up to
order.  (Keyword arguments such as `ensure_ascii` / `indent` are NOT tied: changing them is
behaviour-preserving, and a harmless edit must not break the build.)"""
from unittest import mock

from .. import t1lib
from ..extract_tables import _parse, lean_str


def _subclasses(cls):
    out = []
    for c in cls.__subclasses__():
        out.append(c)
        out += _subclasses(c)
    return out


def format_readers():
    """[(format, reader class name)] sorted by format"""
    conv = t1lib.load("rpft.converters")
    sheets = t1lib.load("rpft.parsers.sheets")
    words = t1lib.str_constants(_parse("converters.py"), _parse("cli.py"))
    words += [w for w in t1lib.runtime_strings(conv) if w not in words]
    readers = _subclasses(sheets.AbstractSheetReader)
    assert readers, "no reader classes"
    out = {}
    patches = [mock.patch.object(c, "__init__", lambda self, *a, **k: None) for c in readers if "__init__" in vars(c)]
    for p in patches:
        p.start()
    try:
        for w in words:
            try:
                r = conv.create_sheet_reader(w, "/nonexistent/t1-probe")
            except (Exception, SystemExit):  # noqa: BLE001  (unsupported format)
                continue
            if isinstance(r, sheets.AbstractSheetReader):
                out[w] = type(r).__name__
    finally:
        for p in patches:
            p.stop()
    assert out, "create_sheet_reader accepts no format word"
    return sorted(out.items())


def tables() -> str:
    fr = format_readers()
    lines = [
        "/-- `create_sheet_reader`: format name → reader class (behaviour probe), sorted by format -/",
        "def sheetFormatReaders : List (List Char × List Char) := ["
        + ", ".join(f"({lean_str(a)}, {lean_str(b)})" for a, b in fr) + "]",
    ]
    return "\n".join(lines) + "\n"
