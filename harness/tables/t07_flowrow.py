"""Flow row model (flowrowmodel.py): field lists with types and defaults, header remap tables.

HOW IT READS (DESIGN §2.5a) — nothing here looks at the shape of the source:
* field names / types / defaults: pydantic v1 introspection of the classes of the tree under
  verification (RUNTIME VALUES).  ORDER IS KEPT EXACT: the field order of a row model is semantic
  (a sub-record written positionally in one cell is read back by position).
* the remap tables (`header_name_to_field_name`, `field_name_to_header_name`,
  `header_name_to_field_name_with_context`): BEHAVIOUR.  Each class's own function is evaluated on
  a universe of candidate keys (every string constant of the module's source, every string held by
  a module-level value, every (dotted) field name) and the table is where the function is not the
  identity.  The context rule (`message_text` → the main-argument field of the row's `type`) is
  found with a recording dict: the header on which the function reads the row, and the key it
  reads.  So dict literals inside the methods, module-level constants built by comprehensions /
  `dict.fromkeys` / an inverted table, or an if/elif chain all give the same tables.
  These tables are lookups with unique keys: emitted SORTED by key, compared up to order
  (`Rpft.Canon.sortP` on the model's constant).
"""
from __future__ import annotations

import typing

from .. import t1lib
from ..extract_tables import _parse, lean_pairs, lean_str, lean_str_list

MODULE = "rpft.parsers.creation.flowrowmodel"
REL = "parsers/creation/flowrowmodel.py"
CLASSES = ("Condition", "Webhook", "WhatsAppTemplating", "Edge", "FlowRowModel")


def load_module():
    """import rpft.parsers.creation.flowrowmodel from the tree under verification"""
    return t1lib.load(MODULE)


def descr_pv(v) -> str:
    if isinstance(v, str):
        return '"' + v + '"'
    return "[" + ",".join(descr_pv(x) for x in v) + "]"


def descr_val(v) -> str:
    from pydantic.v1 import BaseModel

    if isinstance(v, bool):
        return "True" if v else "False"
    if isinstance(v, str):
        return '"' + v + '"'
    if isinstance(v, int):
        return str(v)
    if isinstance(v, float):
        return repr(v)
    if isinstance(v, list):
        return "[" + ",".join(descr_val(x) for x in v) + "]"
    if isinstance(v, BaseModel):
        return "{" + ",".join(f"{k}={descr_val(x)}" for k, x in v) + "}"
    raise TypeError(v)


def descr_ty(t, maps) -> str:
    """structural descriptor, the mirror of Rpft.Row.Ty.descr (fields in declaration order, remap
    pairs sorted by key)"""
    from rpft.parsers.common.rowparser import ParserModel

    if t in (str, int, float, bool):
        return t.__name__
    if t is list:
        return "list"
    if typing.get_origin(t) is list:
        (a,) = typing.get_args(t)
        return "List[" + descr_ty(a, maps) + "]"
    if isinstance(t, type) and issubclass(t, ParserModel):
        fs = ""
        for name, f in t.__fields__.items():
            d = "!" if f.required else descr_val(f.get_default())
            fs += f"{name}:{descr_ty(f.outer_type_, maps)}={d};"
        h2f, f2h = maps(t)
        pj = lambda ps: ",".join(f"{a}>{b}" for a, b in sorted(ps))  # noqa: E731
        return f"<{fs}|h2f:{pj(h2f)}|f2h:{pj(f2h)}>"
    raise TypeError(f"unsupported field type {t!r}")


# ------------------------------------------------------------------------------ the universe of keys


def _field_paths(cls, depth=3, prefix="") -> list[str]:
    """field names of a model and the dotted paths into its sub-models (`webhook.body`, `edges.*.from_`)"""
    from rpft.parsers.common.rowparser import ParserModel

    out = []
    for name, f in getattr(cls, "__fields__", {}).items():
        out.append(prefix + name)
        t = f.outer_type_
        sub, star = None, ""
        if isinstance(t, type) and issubclass(t, ParserModel):
            sub = t
        elif typing.get_origin(t) is list:
            (a,) = typing.get_args(t)
            if isinstance(a, type) and issubclass(a, ParserModel):
                sub, star = a, "*."
        if sub is not None and depth > 1:
            out += _field_paths(sub, depth - 1, prefix + name + "." + star)
            if star:
                out += _field_paths(sub, depth - 1, prefix + name + ".")
    return out


_UNIVERSE = {}


def universe(mod=None) -> list[str]:
    mod = mod or load_module()
    key = getattr(mod, "__file__", None)
    if key in _UNIVERSE:
        return _UNIVERSE[key]
    from rpft.parsers.common.rowparser import ParserModel

    u = t1lib.str_constants(_parse(REL))
    u += [s for s in t1lib.runtime_strings(mod) if s not in u]
    seen = set(u)
    for v in list(vars(mod).values()):
        if isinstance(v, type) and issubclass(v, ParserModel):
            for p in _field_paths(v):
                if p not in seen:
                    seen.add(p)
                    u.append(p)
    _UNIVERSE[key] = u
    return u


# ------------------------------------------------------------------------------ probed tables


def class_maps(cls, mod=None):
    """(h2f, f2h) of one model class as its own functions BEHAVE, sorted by key"""
    u = universe(mod)
    u = u + [f for f in getattr(cls, "__fields__", {}) if f not in u]
    return (
        t1lib.probe_map(cls.header_name_to_field_name, u),
        t1lib.probe_map(cls.field_name_to_header_name, u),
    )


def source_maps(mod_ast=None):
    """`maps(cls)` for descr_ty / rowlib.desc_of_class (the argument is kept for old callers)"""
    cache = {}

    def maps(cls):
        if cls not in cache:
            cache[cls] = class_maps(cls)
        return cache[cls]

    return maps


class _Recording(dict):
    """a row that tells which of its cells the remap function looks at"""

    def __init__(self, *a, **k):
        super().__init__(*a, **k)
        self.read = []

    def __getitem__(self, k):
        self.read.append(k)
        return super().__getitem__(k)

    def get(self, k, d=None):
        self.read.append(k)
        return super().get(k, d)

    def __contains__(self, k):
        self.read.append(k)
        return super().__contains__(k)


def context_tables(mod=None):
    """(basic header table, main header, type column, row type → main-argument field) of
    `FlowRowModel.header_name_to_field_name_with_context`, read off its behaviour"""
    mod = mod or load_module()
    f = mod.FlowRowModel.header_name_to_field_name_with_context
    u = universe(mod)
    # 1. on which header does the answer depend on the row, and which cell of the row is read?
    ctx = {}
    for h in u:
        row = _Recording()
        try:
            f(h, row)
        except Exception:  # noqa: BLE001  (KeyError: the empty row has no such cell)
            pass
        if row.read:
            ctx[h] = list(dict.fromkeys(row.read))
    assert len(ctx) == 1, ("context-dependent headers", ctx)
    ((hdr, cols),) = ctx.items()
    assert len(cols) == 1, ("cells of the row read for " + hdr, cols)
    tcol = cols[0]
    # 2. row type → field, for the context-dependent header
    mainarg = t1lib.probe_map(lambda t: f(hdr, {tcol: t}), u, keep=lambda k, r: isinstance(r, str) and r != hdr)
    # 3. the context-free table
    basic = t1lib.probe_map(lambda h: f(h, {}), [h for h in u if h != hdr])
    return basic, hdr, tcol, mainarg


def tables() -> str:
    mod = load_module()
    maps = source_maps()
    basic, hdr, tcol, mainarg = context_tables(mod)
    _, f2h = maps(mod.FlowRowModel)
    edge_h2f, edge_f2h = maps(mod.Edge)
    out = []
    out.append("/-- fields in declaration order (exact); remap pairs sorted by key -/\n")
    out.append(f"def flowRowDescr : List Char := {lean_str(descr_ty(mod.FlowRowModel, maps))}\n")
    for cls in CLASSES:
        c = getattr(mod, cls)
        out.append(f"def fieldNames{cls} : List (List Char) := {lean_str_list(list(c.__fields__))}\n")
    out.append("-- lookup tables read off the behaviour of the remap functions: sorted by key\n")
    out.append(f"def flowF2H : List (List Char × List Char) := {lean_pairs(f2h)}\n")
    out.append(f"def flowBasicHeaderDict : List (List Char × List Char) := {lean_pairs(basic)}\n")
    out.append(f"def flowRowTypeToMainArg : List (List Char × List Char) := {lean_pairs(mainarg)}\n")
    out.append(f"def flowMainHeader : List Char := {lean_str(hdr)}\n")
    out.append(f"def flowTypeColumn : List Char := {lean_str(tcol)}\n")
    out.append(f"def edgeH2F : List (List Char × List Char) := {lean_pairs(edge_h2f)}\n")
    out.append(f"def edgeF2H : List (List Char × List Char) := {lean_pairs(edge_f2h)}\n")
    return "".join(out)
