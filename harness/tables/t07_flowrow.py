"""Flow row model (flowrowmodel.py): field lists with types and defaults (pydantic v1
introspection of the working tree), header remap dictionaries (ast)."""
from __future__ import annotations

import ast
import importlib
import sys
import typing

from ..extract_tables import REPO, _find_class, _find_func, _parse, lean_pairs, lean_str, lean_str_list


def _dict_literal(func: ast.FunctionDef, name: str) -> list[tuple[str, str]]:
    for n in ast.walk(func):
        if isinstance(n, ast.Assign) and any(isinstance(t, ast.Name) and t.id == name for t in n.targets):
            d = ast.literal_eval(n.value)
            assert isinstance(d, dict) and all(isinstance(k, str) and isinstance(v, str) for k, v in d.items())
            # a dict literal with a repeated key keeps the last value at the first position
            return list(d.items())
    raise KeyError(name)


def _class_map(mod, cls_name: str, method: str, var: str = "field_map"):
    cls = _find_class(mod, cls_name)
    for n in cls.body:
        if isinstance(n, ast.FunctionDef) and n.name == method:
            return _dict_literal(n, var)
    return []


def load_module():
    """import rpft.parsers.creation.flowrowmodel from the tree under verification"""
    src = str(REPO / "src")
    if src not in sys.path:
        sys.path.insert(0, src)
    return importlib.import_module("rpft.parsers.creation.flowrowmodel")


def descr_pv(v) -> str:
    if isinstance(v, str):
        return '"' + v + '"'
    return "[" + ",".join(descr_pv(x) for x in v) + "]"


def descr_val(v) -> str:
    from pydantic.v1 import BaseModel

    if isinstance(v, bool):
        return "True" if v else "False"
    if isinstance(v, str):
        return '"' + v + '"'
    if isinstance(v, int):
        return str(v)
    if isinstance(v, float):
        return repr(v)
    if isinstance(v, list):
        return "[" + ",".join(descr_val(x) for x in v) + "]"
    if isinstance(v, BaseModel):
        return "{" + ",".join(f"{k}={descr_val(x)}" for k, x in v) + "}"
    raise TypeError(v)


def descr_ty(t, maps) -> str:
    """structural descriptor, the mirror of Rpft.Row.Ty.descr"""
    from rpft.parsers.common.rowparser import ParserModel

    if t in (str, int, float, bool):
        return t.__name__
    if t is list:
        return "list"
    if typing.get_origin(t) is list:
        (a,) = typing.get_args(t)
        return "List[" + descr_ty(a, maps) + "]"
    if isinstance(t, type) and issubclass(t, ParserModel):
        fs = ""
        for name, f in t.__fields__.items():
            d = "!" if f.required else descr_val(f.get_default())
            fs += f"{name}:{descr_ty(f.outer_type_, maps)}={d};"
        h2f, f2h = maps(t)
        pj = lambda ps: ",".join(f"{a}>{b}" for a, b in ps)
        return f"<{fs}|h2f:{pj(h2f)}|f2h:{pj(f2h)}>"
    raise TypeError(f"unsupported field type {t!r}")


def _probed_map(cls, method: str, universe):
    """the remap as the code BEHAVES (used when the dict literal is not where the translator looks for it):
    every string constant of the module and every field name is put through the class's own function"""
    f = getattr(cls, method, None)
    if f is None:
        return []
    out = []
    for s in universe:
        try:
            r = f(s)
        except Exception:  # noqa: BLE001
            continue
        if isinstance(r, str) and r != s:
            out.append((s, r))
    return out


def source_maps(mod_ast):
    consts = []
    for n in ast.walk(mod_ast):
        if isinstance(n, ast.Constant) and isinstance(n.value, str) and n.value not in consts:
            consts.append(n.value)

    def maps(cls):
        try:
            return (
                _class_map(mod_ast, cls.__name__, "header_name_to_field_name"),
                _class_map(mod_ast, cls.__name__, "field_name_to_header_name"),
            )
        except KeyError:
            universe = consts + [f for f in getattr(cls, "__fields__", {}) if f not in consts]
            return (
                _probed_map(cls, "header_name_to_field_name", universe),
                _probed_map(cls, "field_name_to_header_name", universe),
            )

    return maps


def _main_header(func: ast.FunctionDef):
    """`if header == "message_text": return row_type_to_main_arg[row["type"]]`"""
    for n in ast.walk(func):
        if isinstance(n, ast.If) and isinstance(n.test, ast.Compare) and isinstance(n.test.left, ast.Name) \
                and n.test.left.id == "header" and len(n.test.ops) == 1 and isinstance(n.test.ops[0], ast.Eq):
            hdr = ast.literal_eval(n.test.comparators[0])
            for m in ast.walk(n):
                if isinstance(m, ast.Subscript) and isinstance(m.value, ast.Name) and m.value.id == "row":
                    return hdr, ast.literal_eval(m.slice)
    raise KeyError("message_text rule")


def tables() -> str:
    mod_ast = _parse("parsers/creation/flowrowmodel.py")
    mod = load_module()
    maps = source_maps(mod_ast)
    frm = _find_class(mod_ast, "FlowRowModel")
    ctx = None
    for n in frm.body:
        if isinstance(n, ast.FunctionDef) and n.name == "header_name_to_field_name_with_context":
            ctx = n
    basic = _dict_literal(ctx, "basic_header_dict")
    mainarg = _dict_literal(ctx, "row_type_to_main_arg")
    hdr, tcol = _main_header(ctx)
    f2h = _class_map(mod_ast, "FlowRowModel", "field_name_to_header_name")
    edge_h2f = _class_map(mod_ast, "Edge", "header_name_to_field_name")
    edge_f2h = _class_map(mod_ast, "Edge", "field_name_to_header_name")
    out = []
    out.append(f"def flowRowDescr : List Char := {lean_str(descr_ty(mod.FlowRowModel, maps))}\n")
    for cls in ("Condition", "Webhook", "WhatsAppTemplating", "Edge", "FlowRowModel"):
        c = getattr(mod, cls)
        out.append(f"def fieldNames{cls} : List (List Char) := {lean_str_list(list(c.__fields__))}\n")
    out.append(f"def flowF2H : List (List Char × List Char) := {lean_pairs(f2h)}\n")
    out.append(f"def flowBasicHeaderDict : List (List Char × List Char) := {lean_pairs(basic)}\n")
    out.append(f"def flowRowTypeToMainArg : List (List Char × List Char) := {lean_pairs(mainarg)}\n")
    out.append(f"def flowMainHeader : List Char := {lean_str(hdr)}\n")
    out.append(f"def flowTypeColumn : List Char := {lean_str(tcol)}\n")
    out.append(f"def edgeH2F : List (List Char × List Char) := {lean_pairs(edge_h2f)}\n")
    out.append(f"def edgeF2H : List (List Char × List Char) := {lean_pairs(edge_f2h)}\n")
    return "".join(out)
