"""Constants of the exporter (containers.py FlowContainer: the DFS of `to_rows`, `to_row_data_sheet`;
flowrowmodel.py header names of the uuid-carrying row fields).

HOW IT READS (DESIGN §2.5a)
* excluded headers of `--strip_uuids`: BEHAVIOUR — `FlowContainer.to_row_data_sheet(strip_uuids=…)`
  is called on an empty flow with a spy on `RowDataSheet.__init__`; what it passes as
  `excluded_headers` is recorded (a set: emitted SORTED; without strip_uuids it must be empty).
* headers of the id fields: RUNTIME — `FlowRowModel.field_name_to_header_name` applied to the
  uuid-carrying field names (pydantic field list), sorted.
* the start id, the initial remapping dict, the `|goto.` literal / `go_to` type of back-edge rows and
  the `|` of temporary row ids are intermediate values no caller can observe: SOURCE STRUCTURE,
  located BY CONTENT in whatever method of FlowContainer holds them (`Edge(from_=…)`, the
  all-constant dict holding the start id, the f-string given as `row_id=` to `FlowRowModel(…)`, the
  f-string joining a uuid with `short_name()`), not by the name of a private method or local.
"""
import ast
import inspect
from unittest import mock

from .. import t1lib
from ..extract_tables import _find_class, _parse, lean_str, lean_str_list


def excluded_headers():
    cont = t1lib.load("rpft.rapidpro.models.containers")
    rds = t1lib.load("rpft.parsers.common.rowdatasheet").RowDataSheet
    orig = rds.__init__
    sig = inspect.signature(orig)
    seen = []

    def spy(self, *a, **k):
        b = sig.bind(self, *a, **k)
        b.apply_defaults()
        seen.append(b.arguments.get("excluded_headers"))
        return orig(self, *a, **k)

    out = {}
    for strip in (True, False):
        seen.clear()
        with mock.patch.object(rds, "__init__", spy):
            cont.FlowContainer("t1 probe").to_row_data_sheet(strip_uuids=strip)
        assert len(seen) == 1, ("RowDataSheet constructed", len(seen))
        out[strip] = sorted(seen[0] or [])
        assert all(isinstance(h, str) for h in out[strip])
    if out[False]:
        raise ValueError("excluded_headers without strip_uuids is not empty")
    return out[True]


def _lits(js: ast.JoinedStr, resolve=None) -> str:
    """the literal text of an f-string; a `{NAME}` part that names a hoisted string constant counts as literal text"""
    out = []
    for p in js.values:
        if isinstance(p, ast.Constant):
            out.append(p.value)
        elif resolve is not None and isinstance(p, ast.FormattedValue) and isinstance(p.value, (ast.Name, ast.Attribute)) \
                and p.conversion == -1 and p.format_spec is None:
            try:
                v = resolve(p.value)
            except KeyError:
                continue
            if isinstance(v, str):
                out.append(v)
    return "".join(out)


def tables() -> str:
    excluded = excluded_headers()
    frm = t1lib.load("rpft.parsers.creation.flowrowmodel").FlowRowModel
    id_fields = [f for f in ("obj_id", "node_uuid") if f in frm.__fields__]
    id_headers = sorted(frm.field_name_to_header_name(f) for f in id_fields)

    cls = _find_class(_parse("rapidpro/models/containers.py"), "FlowContainer")
    cmod = t1lib.load("rpft.rapidpro.models.containers")
    resolve = t1lib.Resolver(cmod.FlowContainer, cmod)     # literals, or names of constants hoisted out of the methods

    def const(node):
        try:
            return resolve(node)
        except KeyError:
            return None

    # Edge(from_="start")
    start_from = t1lib.one({
        const(k.value)
        for n in t1lib.find_all(cls, lambda n: isinstance(n, ast.Call) and t1lib.dotted(n.func) == "Edge")
        for k in n.keywords if k.arg == "from_" and isinstance(const(k.value), str)
    }, "Edge(from_=<constant>) in FlowContainer")
    # the initial remapping dict: an all-constant dict that holds the start id
    dicts = []
    for n in t1lib.find_all(cls, lambda n: isinstance(n, ast.Dict) and n.keys and all(k is not None for k in n.keys)):
        d = {const(k): const(v) for k, v in zip(n.keys, n.values)}
        if None in d or None in d.values():
            continue
        if start_from in d and all(isinstance(k, str) and isinstance(v, str) for k, v in d.items()):
            dicts.append(sorted(d.items()))
    start_dict = t1lib.one(dicts, "constant dict holding the start id")
    # back-edge rows: FlowRowModel(row_id=f"…|goto.{…}", type="go_to", …)
    gotos = []
    for n in t1lib.find_all(cls, lambda n: isinstance(n, ast.Call) and t1lib.dotted(n.func) == "FlowRowModel"):
        kw = {k.arg: k.value for k in n.keywords}
        if isinstance(kw.get("row_id"), ast.JoinedStr) and isinstance(kw.get("type"), ast.Constant):
            gotos.append((_lits(kw["row_id"], resolve), kw["type"].value))
    goto_lit, goto_type = t1lib.one(gotos, "FlowRowModel(row_id=f'…', type=…) in FlowContainer")
    # temporary ids: f"{node.uuid}|{node.short_name()}"
    seps = {
        _lits(n, resolve) for n in t1lib.find_all(cls, lambda n: isinstance(n, ast.JoinedStr))
        if any(isinstance(c, ast.Call) and isinstance(c.func, ast.Attribute) and c.func.attr == "short_name" for c in ast.walk(n))
    }
    temp_sep = t1lib.one(seps, "f-string joining a uuid with short_name()")
    return (
        f"def exportExcludedHeaders : List (List Char) := {lean_str_list(excluded)}\n"
        f"def exportIdFieldHeaders : List (List Char) := {lean_str_list(id_headers)}\n"
        f"def exportStartFrom : List Char := {lean_str(start_from)}\n"
        f"def exportStartDict : List (List Char × List Char) := [{', '.join(f'({lean_str(k)}, {lean_str(v)})' for k, v in start_dict)}]\n"
        f"def exportGotoIdLiteral : List Char := {lean_str(goto_lit)}\n"
        f"def exportGotoType : List Char := {lean_str(goto_type)}\n"
        f"def exportTempIdSeparator : List Char := {lean_str(temp_sep)}\n"
    )
