"""Constants of the exporter (containers.py `to_rows`, `_to_rows_recurse`, `to_row_data_sheet`;
flowrowmodel.py header names of the uuid-carrying row fields)."""
import ast

from ..extract_tables import _find_class, _find_func, _parse, lean_str, lean_str_list


def tables() -> str:
    mod = _parse("rapidpro/models/containers.py")
    cls = _find_class(mod, "FlowContainer")
    # excluded_headers = {...} if strip_uuids else {}
    fn = _find_func(cls, "to_row_data_sheet")
    excluded = None
    for n in ast.walk(fn):
        if isinstance(n, ast.Assign) and any(isinstance(t, ast.Name) and t.id == "excluded_headers" for t in n.targets):
            v = n.value
            if isinstance(v, ast.IfExp) and isinstance(v.test, ast.Name) and v.test.id == "strip_uuids":
                excluded = sorted(ast.literal_eval(v.body))
                if ast.literal_eval(v.orelse):
                    raise ValueError("excluded_headers without strip_uuids is not empty")
    if excluded is None:
        raise KeyError("excluded_headers")
    # the start id: Edge(from_="start") and the initial remapping dict
    tr = _find_func(cls, "to_rows")
    start_from, start_dict = None, None
    for n in ast.walk(tr):
        if isinstance(n, ast.Call) and isinstance(n.func, ast.Name) and n.func.id == "Edge":
            for k in n.keywords:
                if k.arg == "from_":
                    start_from = ast.literal_eval(k.value)
        if isinstance(n, ast.Assign) and any(isinstance(t, ast.Name) and t.id == "temp_row_id_to_row_id" for t in n.targets):
            start_dict = sorted(ast.literal_eval(n.value).items())
    # go_to rows: row_id f-string literal part and the type
    rec = _find_func(cls, "_to_rows_recurse")
    goto_lit, goto_type, temp_sep = None, None, None
    for n in ast.walk(rec):
        if isinstance(n, ast.Call) and isinstance(n.func, ast.Name) and n.func.id == "FlowRowModel":
            for k in n.keywords:
                if k.arg == "row_id" and isinstance(k.value, ast.JoinedStr):
                    goto_lit = "".join(p.value for p in k.value.values if isinstance(p, ast.Constant))
                if k.arg == "type":
                    goto_type = ast.literal_eval(k.value)
        if isinstance(n, ast.Assign) and any(isinstance(t, ast.Name) and t.id == "temp_row_id" for t in n.targets):
            if isinstance(n.value, ast.JoinedStr):
                temp_sep = "".join(p.value for p in n.value.values if isinstance(p, ast.Constant))
    # header names of the uuid-carrying fields of FlowRowModel that the model drops
    rm = _parse("parsers/creation/flowrowmodel.py")
    frm = _find_class(rm, "FlowRowModel")
    fmap = None
    f2h = _find_func(frm, "field_name_to_header_name")
    for n in ast.walk(f2h):
        if isinstance(n, ast.Assign) and any(isinstance(t, ast.Name) and t.id == "field_map" for t in n.targets):
            fmap = ast.literal_eval(n.value)
    fields = [s.target.id for s in frm.body if isinstance(s, ast.AnnAssign)]
    id_fields = [f for f in ("obj_id", "node_uuid") if f in fields]
    id_headers = sorted(fmap.get(f, f) for f in id_fields)
    return (
        f"def exportExcludedHeaders : List (List Char) := {lean_str_list(excluded)}\n"
        f"def exportIdFieldHeaders : List (List Char) := {lean_str_list(id_headers)}\n"
        f"def exportStartFrom : List Char := {lean_str(start_from)}\n"
        f"def exportStartDict : List (List Char × List Char) := [{', '.join(f'({lean_str(k)}, {lean_str(v)})' for k, v in start_dict)}]\n"
        f"def exportGotoIdLiteral : List Char := {lean_str(goto_lit)}\n"
        f"def exportGotoType : List Char := {lean_str(goto_type)}\n"
        f"def exportTempIdSeparator : List Char := {lean_str(temp_sep)}\n"
    )
