"""Router test tables (routers.py RouterCase): NO_ARGS_TESTS and the keys of TEST_VALIDATIONS."""
import ast

from ..extract_tables import _find_class, _parse, lean_str_list


def tables() -> str:
    cls = _find_class(_parse("rapidpro/models/routers.py"), "RouterCase")
    no_args = None
    types = None
    for n in cls.body:
        if isinstance(n, ast.Assign) and isinstance(n.targets[0], ast.Name):
            if n.targets[0].id == "NO_ARGS_TESTS":
                no_args = sorted(ast.literal_eval(n.value))
            if n.targets[0].id == "TEST_VALIDATIONS":
                assert isinstance(n.value, ast.Dict)
                types = [ast.literal_eval(k) for k in n.value.keys]
    assert no_args is not None and types is not None
    return (
        f"def routerNoArgsTests : List (List Char) := {lean_str_list(no_args)}\n"
        f"def routerTestTypes : List (List Char) := {lean_str_list(types)}\n"
    )
