"""Router test tables (routers.py RouterCase): the known test types and the tests without arguments.

HOW IT READS (DESIGN §2.5a): BEHAVIOUR — `RouterCase(w, ["x"], <category>)` is built for every candidate
word (string constants of routers.py, strings held by the class's attributes): a word it refuses
(ValueError) is not a test type; a test type whose case comes out with an empty argument list is a
no-argument test.  Names / shapes of the class constants (`NO_ARGS_TESTS`, `TEST_VALIDATIONS`) do not
matter.  Both are SETS (membership tests): emitted SORTED."""
import contextlib
import io

from .. import t1lib
from ..extract_tables import _parse, lean_str_list


def router_tests():
    """(sorted test types, sorted no-argument tests)"""
    routers = t1lib.load("rpft.rapidpro.models.routers")
    words = t1lib.str_constants(_parse("rapidpro/models/routers.py"))
    words += [w for w in t1lib.runtime_strings(routers.RouterCase, routers) if w not in words]
    types, no_args = [], []
    sink = io.StringIO()
    for w in words:
        try:
            with contextlib.redirect_stdout(sink):      # a wrong number of arguments is only a printed warning
                case = routers.RouterCase(w, ["t1 probe"], "t1-category")
        except Exception:  # noqa: BLE001
            continue
        types.append(w)
        if case.arguments == []:
            no_args.append(w)
    assert types and no_args, (types, no_args)
    return sorted(types), sorted(no_args)


def tables() -> str:
    types, no_args = router_tests()
    return (
        "-- sets (membership tests), sorted\n"
        f"def routerNoArgsTests : List (List Char) := {lean_str_list(no_args)}\n"
        f"def routerTestTypes : List (List Char) := {lean_str_list(types)}\n"
    )
