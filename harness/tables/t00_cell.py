"""Cell syntax constants (cellparser.py) and the interpreter's whitespace set."""
from ..extract_tables import _assign_value, _find_class, _find_func, _parse, lean_char


def tables() -> str:
    mod = _parse("parsers/common/cellparser.py")
    cls = _find_class(mod, "CellParser")
    seps = _assign_value(cls, "SEPARATORS")
    esc = _assign_value(cls, "ESCAPE_CHARACTER")
    tmp = _assign_value(_find_func(cls, "cleanse"), "TEMP_CHARACTER")
    assert all(isinstance(s, str) and len(s) == 1 for s in seps), seps
    assert isinstance(esc, str) and len(esc) == 1
    assert isinstance(tmp, str) and len(tmp) == 1
    ws = [c for c in range(0x110000) if not (0xD800 <= c < 0xE000) and chr(c).isspace()]
    return (
        f"def cellSeparators : List Char := [{', '.join(lean_char(s) for s in seps)}]\n"
        f"def cellEscape : Char := {lean_char(esc)}\n"
        f"def cellTempChar : Char := {lean_char(tmp)}\n"
        f"def pyWhitespace : List Nat := [{', '.join(map(str, ws))}]\n"
    )
