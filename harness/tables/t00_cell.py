"""Cell syntax constants (cellparser.py) and the interpreter's whitespace set.

HOW IT READS (DESIGN §2.5a)
* separators, escape character: RUNTIME (class attributes of `CellParser`).  The separators are
  listed BY LEVEL (outer list first): order exact.
* cellUnescapeSinglePass: BEHAVIOUR — `CellParser().cleanse(s)` is compared, for every text of up to
  4 characters over {escape, separators, U+0001, 'a'}, with the one-pass reading "an escape followed by
  an escape or a separator stands for that character, left to right" (a version going through a
  temporary character, or several `str.replace` passes, differs on some of them).  How the pass is
  written (`re.sub`, a precompiled pattern, a hand-written scan) does not matter.
* whitespace: the running interpreter's `str.isspace` over all code points."""
import itertools

from .. import t1lib
from ..extract_tables import lean_char


def _one_pass(s: str, esc: str, seps) -> str:
    out, i = [], 0
    while i < len(s):
        if s[i] == esc and i + 1 < len(s) and (s[i + 1] == esc or s[i + 1] in seps):
            out.append(s[i + 1])
            i += 2
        else:
            out.append(s[i])
            i += 1
    return "".join(out)


def tables() -> str:
    cp_cls = t1lib.load("rpft.parsers.common.cellparser").CellParser
    seps = list(cp_cls.SEPARATORS)
    esc = cp_cls.ESCAPE_CHARACTER
    assert all(isinstance(s, str) and len(s) == 1 for s in seps), seps
    assert isinstance(esc, str) and len(esc) == 1
    cp = cp_cls()
    alphabet = [esc] + seps + ["\x01", "a"]
    single_pass = all(
        cp.cleanse("".join(t)) == _one_pass("".join(t), esc, seps)
        for n in range(0, 5) for t in itertools.product(alphabet, repeat=n)
    )
    ws = [c for c in range(0x110000) if not (0xD800 <= c < 0xE000) and chr(c).isspace()]
    return (
        f"def cellSeparators : List Char := [{', '.join(lean_char(s) for s in seps)}]\n"
        f"def cellEscape : Char := {lean_char(esc)}\n"
        f"def cellUnescapeSinglePass : Bool := {'true' if single_pass else 'false'}\n"
        f"def pyWhitespace : List Nat := [{', '.join(map(str, ws))}]\n"
    )
