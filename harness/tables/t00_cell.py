"""Cell syntax constants (cellparser.py) and the interpreter's whitespace set."""
from ..extract_tables import _assign_value, _find_class, _find_func, _parse, lean_char


def tables() -> str:
    mod = _parse("parsers/common/cellparser.py")
    cls = _find_class(mod, "CellParser")
    seps = _assign_value(cls, "SEPARATORS")
    esc = _assign_value(cls, "ESCAPE_CHARACTER")
    # cleanse unescapes in ONE left-to-right pass (re.sub over escape + [escape|separators]); a
    # version going through a temporary character (str.replace passes) is a different algorithm
    import ast
    cl = _find_func(cls, "cleanse")
    calls = [n.func.attr for n in ast.walk(cl) if isinstance(n, ast.Call) and isinstance(n.func, ast.Attribute)]
    single_pass = "sub" in calls and "replace" not in calls
    assert all(isinstance(s, str) and len(s) == 1 for s in seps), seps
    assert isinstance(esc, str) and len(esc) == 1
    ws = [c for c in range(0x110000) if not (0xD800 <= c < 0xE000) and chr(c).isspace()]
    return (
        f"def cellSeparators : List Char := [{', '.join(lean_char(s) for s in seps)}]\n"
        f"def cellEscape : Char := {lean_char(esc)}\n"
        f"def cellUnescapeSinglePass : Bool := {'true' if single_pass else 'false'}\n"
        f"def pyWhitespace : List Nat := [{', '.join(map(str, ws))}]\n"
    )
