"""C15 detection sites that used to be ERROR-level (finding F-C15-a, repaired): the word lists they test
and the LEVEL at which each of them reports.

HOW IT READS (DESIGN §2.5a)
* report levels (`cliDetectLevels`): BEHAVIOUR — one minimal workbook per detection site is compiled by the
  real `ContentIndexParser` in library mode (a CRITICAL record does not stop there); what is recorded is the
  level name of the FIRST record of level ≥ ERROR, or `EXCEPTION` when an exception arrives before any such
  record.  No message wording is looked at.  A lookup table with distinct keys: SORTED.
* row-type word lists of the action dispatch, the `set_contact_` prefix and its property list: SOURCE
  STRUCTURE located BY CONTENT — the method of `FlowParser` that calls `<row>.type.startswith(<constant>)`;
  in it the equality dispatch on `<row>.type`, the membership test `<row>.type in [...]`, and the test
  `<alias> not in [...]` on the local assigned from `<row>.type.replace(<prefix>, …)`.  Sets: SORTED.
* outcome words: SOURCE STRUCTURE — in the class that defines `add_exit` with `isinstance(…, EnterFlowNode)`,
  the constants compared (`==` / `in [...]`) with `<condition>.value.lower()` below each isinstance test,
  grouped by the node classes named in the test.  Sets: SORTED.
"""
import ast

from .. import t1lib
from ..extract_tables import _find_class, _parse, lean_pairs, lean_str, lean_str_list

IH = ["type", "sheet_name"]


def _csv(headers, rows):
    from ..flows import rows_to_csv

    return rows_to_csv(headers, [dict(zip(headers, r)) for r in rows])


def _first_report(sheets) -> str:
    import logging

    from rpft.parsers.creation.contentindexparser import ContentIndexParser
    from rpft.parsers.creation.tagmatcher import TagMatcher

    from ..flows import LogCapture, mem_reader

    with LogCapture() as cap:
        try:
            ContentIndexParser(mem_reader(sheets), None, TagMatcher([])).parse_all().render()
            exc = False
        except Exception:  # noqa: BLE001
            exc = True
        except SystemExit:
            exc = True
    for lvl, _m in cap.records:
        if lvl >= logging.ERROR:
            return logging.getLevelName(lvl)
    return "EXCEPTION" if exc else "NONE"


def probe_levels():
    idx = _csv(IH, [["create_flow", "f"]])
    H = ["row_id", "type", "from", "condition", "mainarg_flow_name", "mainarg_message_text", "mainarg_dict", "webhook.url", "save_name"]
    HM = H + ["message_text"]

    def flow(rows, headers=H):
        return {"content_index": idx, "f": _csv(headers, rows)}

    def edge(src_row, cond):
        return flow([["a", "send_message", "start", "", "", "hello", "", "", ""], src_row,
                     ["c", "send_message", "b", cond, "", "after", "", "", ""]])

    sites = {
        "unknownIndexType": {"content_index": _csv(IH, [["create_flow", "f"], ["t1_probe_type", "f"]]),
                             "f": _csv(H, [["a", "send_message", "start", "", "", "hello", "", "", ""]])},
        "sheetNameCount": {"content_index": _csv(IH, [["create_flow", "f"], ["t1_probe_type", ""]]),
                           "f": _csv(H, [["a", "send_message", "start", "", "", "hello", "", "", ""]])},
        "badOutcomeFlow": edge(["b", "start_new_flow", "a", "", "other flow", "", "", "", ""], "t1probe"),
        "noDefaultExitFromFlow": edge(["b", "start_new_flow", "a", "", "other flow", "", "", "", ""], ""),
        "badOutcomeWebhook": edge(["b", "call_webhook", "a", "", "", "", "", "http://t1.probe/", "res"], "t1probe"),
        "badOutcomeAirtime": edge(["b", "transfer_airtime", "a", "", "", "", "KES;10|", "", "res"], "t1probe"),
        "unknownContactProperty": flow([["a", "set_contact_t1probe", "start", "", "", "", "", "", ""]]),
        "unknownRowType": flow([["a", "t1_probe_type", "start", "", "", "", "", "", ""]]),
        "rowTypeWithoutMainArg": flow([["a", "t1_probe_type", "start", "", "", "", "", "", "", "x"]], HM),
    }
    control = flow([["a", "send_message", "start", "", "", "hello", "", "", ""],
                    ["b", "start_new_flow", "a", "", "other flow", "", "", "", ""],
                    ["c", "send_message", "b", "Completed", "", "after", "", "", ""]])
    assert _first_report(control) == "NONE", "control workbook of the level probes is not clean"
    return sorted((k, _first_report(v)) for k, v in sites.items())


def _is_row_type(n) -> bool:
    return isinstance(n, ast.Attribute) and n.attr == "type" and isinstance(n.value, ast.Name)


def action_dispatch():
    mod = t1lib.load("rpft.parsers.creation.flowparser")
    cls = _find_class(_parse("parsers/creation/flowparser.py"), "FlowParser")
    resolve = t1lib.Resolver(mod.FlowParser, mod)

    def starts(n):
        return isinstance(n, ast.Call) and isinstance(n.func, ast.Attribute) and n.func.attr == "startswith" \
            and _is_row_type(n.func.value) and n.args

    fns = [fn for fn in t1lib.functions(cls) if t1lib.find_all(fn, starts)]
    fn = t1lib.one(fns, "method of FlowParser testing <row>.type.startswith(…)")
    prefix = t1lib.one({resolve(c.args[0], fn) for c in t1lib.find_all(fn, starts)}, "prefix")
    eq = sorted(t1lib.dispatch_keys(fn, _is_row_type, resolve))
    none_types = sorted({w for c in t1lib.container_consts(fn, _is_row_type, resolve, ops=(ast.In,)) for w in c})

    def is_replace(n):
        return isinstance(n, ast.Call) and isinstance(n.func, ast.Attribute) and n.func.attr == "replace" and _is_row_type(n.func.value)

    props = t1lib.container_consts(fn, is_replace, resolve, ops=(ast.NotIn,))
    props = sorted(t1lib.one(props, "`<property> not in [...]` test"))
    return prefix, eq, none_types, props


def outcome_words():
    tree = _parse("parsers/creation/flowparser.py")
    out = {}
    for cls in [n for n in tree.body if isinstance(n, ast.ClassDef)]:
        for fn in t1lib.functions(cls):
            if fn.name != "add_exit":
                continue
            for n in t1lib.find_all(fn, lambda n: isinstance(n, ast.If)):
                names = sorted({x.id for c in ast.walk(n.test)
                                if isinstance(c, ast.Call) and isinstance(c.func, ast.Name) and c.func.id == "isinstance" and len(c.args) == 2
                                for x in (c.args[1].elts if isinstance(c.args[1], ast.Tuple) else [c.args[1]]) if isinstance(x, ast.Name)})
                if not names or any(not x.endswith("Node") for x in names):
                    continue

                def is_lower(x):
                    return isinstance(x, ast.Call) and isinstance(x.func, ast.Attribute) and x.func.attr == "lower" \
                        and isinstance(x.func.value, ast.Attribute) and x.func.value.attr == "value"

                body = ast.Module(body=n.body, type_ignores=[])
                words = set(t1lib.dispatch_keys(body, is_lower))
                words |= {w for c in t1lib.container_consts(body, is_lower, ops=(ast.In,)) for w in c}
                if words and all(isinstance(w, str) for w in words):
                    out.setdefault(tuple(names), set()).update(words)
    flow = [v for k, v in out.items() if k == ("EnterFlowNode",)]
    hook = [v for k, v in out.items() if "CallWebhookNode" in k]
    return sorted(t1lib.one(flow, "outcome words of EnterFlowNode")), sorted(t1lib.one(hook, "outcome words of CallWebhookNode")), \
        sorted(t1lib.one([k for k in out if "CallWebhookNode" in k], "hook classes"))


def tables() -> str:
    levels = probe_levels()
    prefix, eq, none_types, props = action_dispatch()
    flow_words, hook_words, hook_classes = outcome_words()
    return (
        "-- behaviour probes: level of the first record ≥ ERROR (or EXCEPTION) per detection site; sorted by site\n"
        f"def cliDetectLevels : List (List Char × List Char) := {lean_pairs(levels)}\n"
        "-- sets: sorted\n"
        f"def cliActionRowTypes : List (List Char) := {lean_str_list(eq)}\n"
        f"def cliNodeRowTypes : List (List Char) := {lean_str_list(none_types)}\n"
        f"def cliSetContactPrefix : List Char := {lean_str(prefix)}\n"
        f"def cliContactProperties : List (List Char) := {lean_str_list(props)}\n"
        f"def cliFlowOutcomes : List (List Char) := {lean_str_list(flow_words)}\n"
        f"def cliHookOutcomes : List (List Char) := {lean_str_list(hook_words)}\n"
        f"def cliHookNodeClasses : List (List Char) := {lean_str_list(hook_classes)}\n"
    )
