"""C05: `action_map` of rapidpro/models/actions.py — action type → class, and which of
those classes render by passing their `__dict__` through (DefaultRenderedAction or a
subclass that does not override `render` / `_assign_fields_from_dict`)."""
import ast

from ..extract_tables import _parse, lean_str, lean_str_list


def _classes(mod):
    out = {}
    for n in mod.body:
        if isinstance(n, ast.ClassDef):
            bases = [b.id for b in n.bases if isinstance(b, ast.Name)]
            meths = [m.name for m in n.body if isinstance(m, ast.FunctionDef)]
            out[n.name] = (bases, meths)
    return out


def action_map():
    """[(type, class name)] in source order"""
    mod = _parse("rapidpro/models/actions.py")
    for n in mod.body:
        if isinstance(n, ast.Assign) and any(isinstance(t, ast.Name) and t.id == "action_map" for t in n.targets):
            assert isinstance(n.value, ast.Dict)
            pairs = []
            for k, v in zip(n.value.keys, n.value.values):
                assert isinstance(k, ast.Constant) and isinstance(k.value, str) and isinstance(v, ast.Name)
                pairs.append((k.value, v.id))
            return pairs
    raise KeyError("action_map")


def pass_through_classes():
    mod = _parse("rapidpro/models/actions.py")
    cl = _classes(mod)

    def is_pt(name, seen=()):
        if name == "DefaultRenderedAction":
            # its own render must still be `return self.__dict__`
            for n in mod.body:
                if isinstance(n, ast.ClassDef) and n.name == name:
                    for m in n.body:
                        if isinstance(m, ast.FunctionDef) and m.name == "render":
                            return ast.unparse(m.body[-1]) == "return self.__dict__"
            return False
        if name not in cl or name in seen:
            return False
        bases, meths = cl[name]
        if "render" in meths or "_assign_fields_from_dict" in meths:
            return False
        return any(is_pt(b, seen + (name,)) for b in bases)

    return [c for c in cl if is_pt(c)]


def router_tests():
    """(keys of RouterCase.TEST_VALIDATIONS in source order, sorted NO_ARGS_TESTS)"""
    mod = _parse("rapidpro/models/routers.py")
    tests = noargs = None
    for n in ast.walk(mod):
        if isinstance(n, ast.ClassDef) and n.name == "RouterCase":
            for m in n.body:
                if isinstance(m, ast.Assign) and isinstance(m.targets[0], ast.Name):
                    if m.targets[0].id == "TEST_VALIDATIONS":
                        tests = [k.value for k in m.value.keys]
                    elif m.targets[0].id == "NO_ARGS_TESTS":
                        noargs = sorted(ast.literal_eval(m.value))
    assert tests and noargs
    return tests, noargs


def contact_field_type_bug() -> bool:
    """does ContactFieldReference.render assign the bare name `type` (the builtin) to
    render_dict["type"]?  (F-C05-a; False once the source says `self.type`)"""
    mod = _parse("rapidpro/models/common.py")
    for n in ast.walk(mod):
        if isinstance(n, ast.ClassDef) and n.name == "ContactFieldReference":
            for m in n.body:
                if isinstance(m, ast.FunctionDef) and m.name == "render":
                    for a in ast.walk(m):
                        if (isinstance(a, ast.Assign) and isinstance(a.targets[0], ast.Subscript)
                                and isinstance(a.targets[0].slice, ast.Constant) and a.targets[0].slice.value == "type"):
                            return isinstance(a.value, ast.Name) and a.value.id == "type"
    raise KeyError("ContactFieldReference.render: assignment to render_dict['type'] not found")


def tables() -> str:
    pairs = action_map()
    tests, noargs = router_tests()
    pt = set(pass_through_classes())
    return (
        "def actionTypes : List (List Char) := " + lean_str_list([k for k, _ in pairs]) + "\n"
        "def actionPassThrough : List (List Char) := " + lean_str_list([k for k, c in pairs if c in pt]) + "\n"
        "def routerTests : List (List Char) := " + lean_str_list(tests) + "\n"
        "def routerNoArgTests : List (List Char) := " + lean_str_list(noargs) + "\n"
        "def contactFieldTypeBug : Bool := " + ("true" if contact_field_type_bug() else "false") + "\n"
        "def actionClasses : List (List Char × List Char) := [" + ", ".join(f"({lean_str(k)}, {lean_str(c)})" for k, c in pairs) + "]\n"
    )
