"""C05: the action types of rapidpro/models/actions.py, which of them are loaded and rendered by
passing the document through, and the router test tables.

HOW IT READS (DESIGN §2.5a)
* action types and their classes: RUNTIME — the module's `action_map` (type → class), whatever
  expression builds it.  A lookup table: emitted SORTED by type.
* pass-through types: BEHAVIOUR — `Action.from_dict(d).render() == d` for a document `d` of that type
  carrying a key no class knows: a class that passes `__dict__` through returns it, a class with its
  own `_assign_fields_from_dict` / `render` refuses the document or drops the key.  A set: sorted.
* router tests: BEHAVIOUR (see t04_router_tests).  Sets: sorted.
* contactFieldTypeBug (F-C05-a): BEHAVIOUR — does a typed `ContactFieldReference` render the Python
  builtin `type` instead of its own type?"""
from .. import t1lib
from ..extract_tables import lean_str, lean_str_list
from .t04_router_tests import router_tests


def action_map():
    """[(type, class name)] sorted by type"""
    actions = t1lib.load("rpft.rapidpro.models.actions")
    amap = actions.action_map
    assert isinstance(amap, dict) and amap and all(isinstance(k, str) and isinstance(v, type) for k, v in amap.items())
    return sorted((k, v.__name__) for k, v in amap.items())


def pass_through_types():
    actions = t1lib.load("rpft.rapidpro.models.actions")
    out = []
    for ty, _ in action_map():
        d = {"type": ty, "uuid": "00000000-0000-4000-8000-0000000000a0", "t1_probe_key": {"k": ["v", 1]}}
        try:
            back = actions.Action.from_dict(d).render()
        except Exception:  # noqa: BLE001
            continue
        if back == d:
            out.append(ty)
    return out


def pass_through_classes():
    """class names of the pass-through types (kept for callers that want classes)"""
    pt = set(pass_through_types())
    return sorted({c for t, c in action_map() if t in pt})


def contact_field_type_bug() -> bool:
    common = t1lib.load("rpft.rapidpro.models.common")
    r = common.ContactFieldReference("t1 probe", type="text").render()
    return r.get("type") is type


def tables() -> str:
    pairs = action_map()
    tests, noargs = router_tests()
    pt = pass_through_types()
    return (
        "-- lookup tables / sets: sorted\n"
        "def actionTypes : List (List Char) := " + lean_str_list([k for k, _ in pairs]) + "\n"
        "def actionPassThrough : List (List Char) := " + lean_str_list(pt) + "\n"
        "def routerTests : List (List Char) := " + lean_str_list(tests) + "\n"
        "def routerNoArgTests : List (List Char) := " + lean_str_list(noargs) + "\n"
        "def contactFieldTypeBug : Bool := " + ("true" if contact_field_type_bug() else "false") + "\n"
        "def actionClasses : List (List Char × List Char) := [" + ", ".join(f"({lean_str(k)}, {lean_str(c)})" for k, c in pairs) + "]\n"
    )
