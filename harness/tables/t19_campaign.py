"""Campaign / trigger constants: the code words the row validators accept, field-key limit, defaults,
row-model field lists (campaigneventrowmodel.py, triggerrowmodel.py, campaignparser.py, campaigns.py,
triggers.py, common.py).

HOW IT READS (DESIGN §2.5a): RUNTIME VALUES and BEHAVIOUR only.
* campaignRowFields / triggerRowFields: pydantic field lists (name, required).  ORDER EXACT — pydantic
  validates in declaration order: a validator only sees the fields declared before it
  (`validate_match_type` reads `values["type"]`) and the failing fields are reported in that order.
* units / start modes / event types / trigger types / match types: each row model is instantiated with
  one field set to a candidate word (string constants of the module, single letters, digits, "");
  the word is accepted iff pydantic reports no error for THAT field.  The guard of the match-type rule
  is the trigger type for which a wrong match type is refused.  Sets (`v not in […]`): SORTED.
* field-key limit: longest key `generate_field_key` accepts.
* constructor words: the event type for which a rendered `CampaignEvent` carries `base_language` / carries
  `flow` (listed in this order: [message type, flow type]); the trigger type that needs a keyword and the
  match type it gets when none is given.
* campaign parser defaults: `CampaignParser(…, [row]).parse()` on rows with / without base_language and
  delivery_hour — under which key the message text is filed (the row's base language → `none`, a fixed
  key → `some key`), the default language, the default delivery hour.
"""
import string

from .. import t1lib
from ..extract_tables import _parse, lean_str, lean_str_list
from .t15_limits import _accepts, length_limit


def _words(rel: str) -> list[str]:
    w = t1lib.str_constants(_parse(rel))
    w += [c for c in list(string.ascii_letters) + list(string.digits) + [""] if c not in w]
    return [x for x in w if len(x) <= 16]


def _field_ok(model, base: dict, field: str, word) -> bool:
    """does `model(**base, field=word)` pass the validation of `field`?"""
    from pydantic.v1 import ValidationError

    try:
        model(**{**base, field: word})
    except ValidationError as e:
        return all(err["loc"][0] != field for err in e.errors())
    except KeyError:
        return True      # a later validator tripped over a missing earlier field: not this field's verdict
    return True


def _accepted(model, base, field, words) -> list[str]:
    out = sorted(w for w in words if _field_ok(model, base, field, w))
    assert out and len(out) < len(words), (field, out)
    return out


def _model_fields(model):
    return [(k, bool(f.required)) for k, f in model.__fields__.items()]


def _lean_fields(fs) -> str:
    return "[" + ", ".join(f"({lean_str(k)}, {'true' if r else 'false'})" for k, r in fs) + "]"


def tables() -> str:
    cm_mod = t1lib.load("rpft.parsers.creation.campaigneventrowmodel")
    tm_mod = t1lib.load("rpft.parsers.creation.triggerrowmodel")
    CM, TM = cm_mod.CampaignEventRowModel, tm_mod.TriggerRowModel
    cw = _words("parsers/creation/campaigneventrowmodel.py")
    tw = _words("parsers/creation/triggerrowmodel.py")
    cbase = {"offset": "1", "relative_to": "r"}
    units = _accepted(CM, cbase, "unit", cw)
    start_modes = _accepted(CM, cbase, "start_mode", cw)
    event_types = _accepted(CM, cbase, "event_type", cw)

    tbase = {"keywords": ["k"], "flow": "f"}
    trig_types = _accepted(TM, tbase, "type", tw)
    bad = "~t1 no match type~"
    guards = [t for t in trig_types if not _field_ok(TM, {**tbase, "type": t}, "match_type", bad)]
    match_guard = t1lib.one(guards, "trigger types whose match_type is restricted")
    match_types = _accepted(TM, {**tbase, "type": match_guard}, "match_type", tw)

    common = t1lib.load("rpft.rapidpro.models.common")
    from rpft.rapidpro.models.exceptions import RapidProActionError

    key_limit = length_limit(_accepts(common.generate_field_key, RapidProActionError), "field key limit")

    # CampaignEvent: which event type carries the message language / the flow when rendered
    camp = t1lib.load("rpft.rapidpro.models.campaigns")
    msg_types, flow_types = [], []
    for w in event_types:
        ev = camp.CampaignEvent(1, units[0], w, -1, start_modes[0], relative_to_label="r", flow_name="f",
                                message={"eng": "m"}, base_language="eng")
        r = ev.render()
        if "base_language" in r:
            msg_types.append(w)
        if "flow" in r:
            flow_types.append(w)
    ev_consts = [t1lib.one(msg_types, "message event type"), t1lib.one(flow_types, "flow event type")]

    # Trigger: the type that needs a keyword, the match type it defaults to
    trig = t1lib.load("rpft.rapidpro.models.triggers")
    needs_kw = []
    mk = lambda w, **kw: trig.Trigger(w, flow_name="f", group_names=[], group_uuids=[], **kw)  # noqa: E731
    for w in trig_types:
        try:
            mk(w)
        except ValueError:
            mk(w, keywords=["k"])     # … and is fine with one
            needs_kw.append(w)
    trig_k = t1lib.one(needs_kw, "trigger types that need a keyword")
    default_match = mk(trig_k, keywords=["k"]).match_type
    assert isinstance(default_match, str)

    # CampaignParser.parse: message key, default language, default hour
    cpm = t1lib.load("rpft.parsers.creation.campaignparser")

    def event(**kw):
        row = CM(offset="1", unit=units[0], event_type=ev_consts[0], relative_to="r", start_mode=start_modes[0],
                 message="t1 text", **kw)
        c = cpm.CampaignParser("t1 campaign", "t1 group", [row]).parse()
        return t1lib.one(c.events, "events of a one-row campaign")

    e_default, e_lang = event(), event(base_language="t1l")
    k_default = t1lib.one(e_default.message, "message keys")
    k_lang = t1lib.one(e_lang.message, "message keys")
    default_lang = e_default.base_language
    assert isinstance(default_lang, str) and e_lang.base_language == "t1l"
    if k_lang == "t1l" and k_default == default_lang:
        msg_key_lean = "none"                       # keyed by the event's base language
    else:
        assert k_lang == k_default, (k_lang, k_default)
        msg_key_lean = f"some {lean_str(k_default)}"
    h = e_default.delivery_hour
    assert isinstance(h, int) and event(delivery_hour="7").delivery_hour == 7

    return (
        "-- sets (`v not in […]`): sorted\n"
        f"def campaignUnits : List (List Char) := {lean_str_list(units)}\n"
        f"def campaignStartModes : List (List Char) := {lean_str_list(start_modes)}\n"
        f"def campaignEventTypes : List (List Char) := {lean_str_list(event_types)}\n"
        "-- [message event type, flow event type]\n"
        f"def campaignCtorEventTypes : List (List Char) := {lean_str_list(ev_consts)}\n"
        f"def triggerTypes : List (List Char) := {lean_str_list(trig_types)}\n"
        f"def triggerMatchTypes : List (List Char) := {lean_str_list(match_types)}\n"
        f"def triggerMatchGuard : List Char := {lean_str(match_guard)}\n"
        f"def triggerCtorKeyword : List Char := {lean_str(trig_k)}\n"
        f"def triggerDefaultMatch : List Char := {lean_str(default_match)}\n"
        f"def fieldKeyMaxLen : Nat := {key_limit}\n"
        f"def campaignMessageKey : Option (List Char) := {msg_key_lean}\n"
        f"def campaignDefaultLang : List Char := {lean_str(default_lang)}\n"
        f"def campaignDefaultHour : Int := {'-' + str(-h) if h < 0 else str(h)}\n"
        "-- declaration order (exact): validators see the fields declared before them\n"
        f"def campaignRowFields : List (List Char × Bool) := {_lean_fields(_model_fields(CM))}\n"
        f"def triggerRowFields : List (List Char × Bool) := {_lean_fields(_model_fields(TM))}\n"
    )
