"""Campaign / trigger constants: validator enum lists, field-key limit, defaults, row-model
field lists (campaigneventrowmodel.py, triggerrowmodel.py, campaignparser.py, triggers.py,
common.py).  Literals only, read with `ast` (the field lists additionally by pydantic
introspection, cross-checked against the AST)."""
import ast

from ..extract_tables import _find_class, _find_func, _parse, lean_str, lean_str_list


def _not_in_list(func: ast.FunctionDef):
    """the list literal of the (single) `x not in [...]` test inside a validator"""
    found = []
    for n in ast.walk(func):
        if isinstance(n, ast.Compare) and len(n.ops) == 1 and isinstance(n.ops[0], ast.NotIn):
            found.append(ast.literal_eval(n.comparators[0]))
    assert len(found) == 1, (func.name, found)
    assert all(isinstance(x, str) for x in found[0])
    return found[0]


def _eq_consts(func: ast.FunctionDef, attr_or_key: str):
    """string constants compared with `==` against `<something>.attr` / `<something>["key"]` / name"""
    out = []
    for n in ast.walk(func):
        if isinstance(n, ast.Compare) and len(n.ops) == 1 and isinstance(n.ops[0], ast.Eq):
            left, right = n.left, n.comparators[0]
            name = None
            if isinstance(left, ast.Attribute):
                name = left.attr
            elif isinstance(left, ast.Name):
                name = left.id
            elif isinstance(left, ast.Subscript) and isinstance(left.slice, ast.Constant):
                name = left.slice.value
            if name == attr_or_key and isinstance(right, ast.Constant) and isinstance(right.value, str):
                out.append(right.value)
    return out


def _model_fields(rel: str, cls_name: str, module: str):
    """[(field, required)] in declaration order — AST and pydantic must agree"""
    cls = _find_class(_parse(rel), cls_name)
    from_ast = []
    for n in cls.body:
        if isinstance(n, ast.AnnAssign) and isinstance(n.target, ast.Name):
            from_ast.append((n.target.id, n.value is None))
    import importlib

    model = getattr(importlib.import_module(module), cls_name)
    from_pyd = [(k, bool(f.required)) for k, f in model.__fields__.items()]
    assert from_ast == from_pyd, (from_ast, from_pyd)
    return from_ast


def _lean_fields(fs) -> str:
    return "[" + ", ".join(f"({lean_str(k)}, {'true' if r else 'false'})" for k, r in fs) + "]"


def tables() -> str:
    cm = _find_class(_parse("parsers/creation/campaigneventrowmodel.py"), "CampaignEventRowModel")
    units = _not_in_list(_find_func(cm, "validate_unit"))
    start_modes = _not_in_list(_find_func(cm, "validate_start_mode"))
    event_types = _not_in_list(_find_func(cm, "validate_event_type"))

    tm = _find_class(_parse("parsers/creation/triggerrowmodel.py"), "TriggerRowModel")
    trig_types = _not_in_list(_find_func(tm, "validate_type"))
    vm = _find_func(tm, "validate_match_type")
    match_types = _not_in_list(vm)
    (match_guard,) = _eq_consts(vm, "type")

    # generate_field_key: `len(field_key) <= 36`
    gk = _find_func(_parse("rapidpro/models/common.py"), "generate_field_key")
    limits = [
        n.comparators[0].value
        for n in ast.walk(gk)
        if isinstance(n, ast.Compare) and isinstance(n.ops[0], ast.LtE) and isinstance(n.comparators[0], ast.Constant)
    ]
    assert len(limits) == 1 and isinstance(limits[0], int), limits

    # CampaignParser.parse: message = {"eng": row.message}; base_language = row.base_language or "eng";
    # delivery_hour = -1
    cp = _find_func(_find_class(_parse("parsers/creation/campaignparser.py"), "CampaignParser"), "parse")
    msg_keys, langs, hours = [], [], []

    def int_consts(v):
        """integer literals (incl. negated) in an expression, not looking inside calls"""
        if isinstance(v, ast.Constant) and isinstance(v.value, int) and not isinstance(v.value, bool):
            return [v.value]
        if isinstance(v, ast.UnaryOp) and isinstance(v.op, ast.USub) and isinstance(v.operand, ast.Constant) and isinstance(v.operand.value, int):
            return [-v.operand.value]
        if isinstance(v, ast.IfExp):
            return int_consts(v.body) + int_consts(v.orelse)
        return []

    for n in ast.walk(cp):
        if isinstance(n, ast.Assign) and len(n.targets) == 1 and isinstance(n.targets[0], ast.Name):
            t, v = n.targets[0].id, n.value
            if t == "message":
                for d in ast.walk(v):
                    if isinstance(d, ast.Dict):
                        # a literal key, or the variable holding the event's base language
                        msg_keys += [(ast.literal_eval(k) if isinstance(k, ast.Constant) else ("var", k.id)) for k in d.keys]
            if t == "base_language":
                for b in ast.walk(v):
                    if isinstance(b, ast.BoolOp) and isinstance(b.op, ast.Or) and isinstance(b.values[-1], ast.Constant):
                        langs.append(b.values[-1].value)
            if t == "delivery_hour":
                hours += int_consts(v)
    assert len(msg_keys) == 1 and len(langs) == 1 and len(hours) == 1, (msg_keys, langs, hours)
    assert isinstance(hours[0], int)

    # CampaignEvent.__init__: event_type == "M" / "F";  Trigger.__init__: trigger_type == "K", match_type = "F"
    ce = _find_func(_find_class(_parse("rapidpro/models/campaigns.py"), "CampaignEvent"), "__init__")
    ev_consts = _eq_consts(ce, "event_type")
    tr = _find_func(_find_class(_parse("rapidpro/models/triggers.py"), "Trigger"), "__init__")
    (trig_k,) = _eq_consts(tr, "trigger_type")
    dm = [
        n.value.value
        for n in ast.walk(tr)
        if isinstance(n, ast.Assign) and isinstance(n.targets[0], ast.Attribute) and n.targets[0].attr == "match_type"
        and isinstance(n.value, ast.Constant) and isinstance(n.value.value, str)
    ]
    assert len(dm) == 1, dm

    camp_fields = _model_fields("parsers/creation/campaigneventrowmodel.py", "CampaignEventRowModel",
                                "rpft.parsers.creation.campaigneventrowmodel")
    trig_fields = _model_fields("parsers/creation/triggerrowmodel.py", "TriggerRowModel",
                                "rpft.parsers.creation.triggerrowmodel")

    h = hours[0]
    # none = keyed by the variable base_language; some k = a literal key
    msg_key_lean = "none" if msg_keys[0] == ("var", "base_language") else f"some {lean_str(msg_keys[0])}"
    return (
        f"def campaignUnits : List (List Char) := {lean_str_list(units)}\n"
        f"def campaignStartModes : List (List Char) := {lean_str_list(start_modes)}\n"
        f"def campaignEventTypes : List (List Char) := {lean_str_list(event_types)}\n"
        f"def campaignCtorEventTypes : List (List Char) := {lean_str_list(ev_consts)}\n"
        f"def triggerTypes : List (List Char) := {lean_str_list(trig_types)}\n"
        f"def triggerMatchTypes : List (List Char) := {lean_str_list(match_types)}\n"
        f"def triggerMatchGuard : List Char := {lean_str(match_guard)}\n"
        f"def triggerCtorKeyword : List Char := {lean_str(trig_k)}\n"
        f"def triggerDefaultMatch : List Char := {lean_str(dm[0])}\n"
        f"def fieldKeyMaxLen : Nat := {limits[0]}\n"
        f"def campaignMessageKey : Option (List Char) := {msg_key_lean}\n"
        f"def campaignDefaultLang : List Char := {lean_str(langs[0])}\n"
        f"def campaignDefaultHour : Int := {'-' + str(-h) if h < 0 else str(h)}\n"
        f"def campaignRowFields : List (List Char × Bool) := {_lean_fields(camp_fields)}\n"
        f"def triggerRowFields : List (List Char × Bool) := {_lean_fields(trig_fields)}\n"
    )
