"""Template configuration of CellParser (cellparser.py): the `undefined` policy of BOTH Jinja
environments (read from the source with `ast` AND from the live objects — they must agree), the
delimiters of both environments, the registered filters, the literals of the wrapper
`parse_as_string` (`{`, `{@`, `@}`, the slice offset of the nested check) and whether the
native result is checked for being an `Undefined` object."""
import ast

from ..extract_tables import _find_class, _find_func, _parse, lean_str, lean_str_list


def _env_calls(init: ast.FunctionDef):
    """{attr: Call} for `self.<attr> = <Something>Environment(...)` in __init__"""
    out = {}
    for n in ast.walk(init):
        if isinstance(n, ast.Assign) and len(n.targets) == 1 and isinstance(n.targets[0], ast.Attribute) \
                and isinstance(n.targets[0].value, ast.Name) and n.targets[0].value.id == "self" \
                and isinstance(n.value, ast.Call) and isinstance(n.value.func, ast.Name) \
                and n.value.func.id.endswith("Environment"):
            out[n.targets[0].attr] = n.value
    return out


def _kw(call: ast.Call, name: str):
    for k in call.keywords:
        if k.arg == name:
            return k.value
    return None


def _filters(init: ast.FunctionDef, attr: str):
    """names registered by `self.<attr>.filters["name"] = …`, in source order"""
    out = []
    for n in init.body:
        if isinstance(n, ast.Assign) and len(n.targets) == 1 and isinstance(n.targets[0], ast.Subscript):
            t = n.targets[0]
            v = t.value
            if isinstance(v, ast.Attribute) and v.attr == "filters" and isinstance(v.value, ast.Attribute) \
                    and v.value.attr == attr and isinstance(t.slice, ast.Constant):
                out.append(t.slice.value)
    return out


def _classify(cls) -> str:
    import jinja2

    if isinstance(cls, type) and issubclass(cls, jinja2.StrictUndefined):
        return "strict"
    if cls is jinja2.Undefined:
        return "lenient"
    return "other"


def _tests_undefined(body, var=None):
    """name X such that `body` contains `isinstance(X, Undefined)` and a `str(X)` use"""
    wrap = ast.Module(body=list(body), type_ignores=[])
    tested = {n.args[0].id for n in ast.walk(wrap)
              if isinstance(n, ast.Call) and isinstance(n.func, ast.Name) and n.func.id == "isinstance" and len(n.args) == 2
              and isinstance(n.args[0], ast.Name) and isinstance(n.args[1], ast.Name) and n.args[1].id == "Undefined"}
    used = {n.args[0].id for n in ast.walk(wrap)
            if isinstance(n, ast.Call) and isinstance(n.func, ast.Name) and n.func.id == "str" and n.args and isinstance(n.args[0], ast.Name)}
    both = tested & used
    return both if var is None else (var in both)


def _native_check(mod: ast.Module, func: ast.FunctionDef) -> bool:
    """inside the `try:` that renders, before the `return`: the rendered result is tested for being
    an `Undefined` object and used with `str(...)` (which raises for StrictUndefined) — either in
    place (`if isinstance(result, Undefined): str(result)`) or through a module-level helper called
    with the result (`_raise_if_undefined_inside(result)`)."""
    helpers = {}
    for n in mod.body:
        if isinstance(n, ast.FunctionDef) and n.args.args:
            if _tests_undefined(n.body, n.args.args[0].arg):
                helpers[n.name] = n
    for t in ast.walk(func):
        if not isinstance(t, ast.Try):
            continue
        rendered = None
        for n in t.body:
            if isinstance(n, ast.Assign) and len(n.targets) == 1 and isinstance(n.targets[0], ast.Name) \
                    and any(isinstance(c, ast.Attribute) and c.attr == "render" for c in ast.walk(n.value)):
                rendered = n.targets[0].id
                continue
            if rendered is None:
                continue
            if isinstance(n, ast.Return):
                break
            if isinstance(n, ast.If) and _tests_undefined([n], rendered):
                return True
            if isinstance(n, ast.Expr) and isinstance(n.value, ast.Call) and isinstance(n.value.func, ast.Name) \
                    and n.value.func.id in helpers and n.value.args and isinstance(n.value.args[0], ast.Name) \
                    and n.value.args[0].id == rendered:
                return True
    return False


def _wrapper_literals(func: ast.FunctionDef):
    starts, ends, finds, notin, offs = [], [], [], [], []
    for n in ast.walk(func):
        if isinstance(n, ast.Call) and isinstance(n.func, ast.Attribute) and n.args and isinstance(n.args[0], ast.Constant):
            if n.func.attr == "startswith":
                starts.append(n.args[0].value)
            elif n.func.attr == "endswith":
                ends.append(n.args[0].value)
            elif n.func.attr == "find":
                finds.append(n.args[0].value)
                v = n.func.value
                if isinstance(v, ast.Subscript) and isinstance(v.slice, ast.Slice) and isinstance(v.slice.lower, ast.Constant):
                    offs.append(v.slice.lower.value)
        if isinstance(n, ast.Compare) and len(n.ops) == 1 and isinstance(n.ops[0], ast.NotIn) and isinstance(n.left, ast.Constant):
            notin.append(n.left.value)
    assert len(starts) == len(ends) == len(finds) == len(notin) == len(offs) == 1, (starts, ends, finds, notin, offs)
    assert isinstance(offs[0], int)
    return starts[0], ends[0], finds[0], notin[0], offs[0]


def tables() -> str:
    import importlib

    mod_ast = _parse("parsers/common/cellparser.py")
    cls = _find_class(mod_ast, "CellParser")
    init = _find_func(cls, "__init__")
    calls = _env_calls(init)
    assert set(calls) == {"env", "native_env"}, sorted(calls)

    def undefined_name(call):
        v = _kw(call, "undefined")
        if v is None:
            return "Undefined"          # Jinja's default
        assert isinstance(v, ast.Name), ast.dump(v)
        return v.id

    src_text, src_nat = undefined_name(calls["env"]), undefined_name(calls["native_env"])

    m = importlib.import_module("rpft.parsers.common.cellparser")
    cp = m.CellParser()
    live_text, live_nat = cp.env.undefined, cp.native_env.undefined
    # source and live objects must tell the same story
    import jinja2

    def resolve(name):
        return getattr(m, name, None) or getattr(jinja2, name)

    assert resolve(src_text) is live_text, (src_text, live_text)
    assert resolve(src_nat) is live_nat, (src_nat, live_nat)

    def delim(call, key, default):
        v = _kw(call, key)
        return default if v is None else ast.literal_eval(v)

    nat_start = delim(calls["native_env"], "variable_start_string", "{{")
    nat_end = delim(calls["native_env"], "variable_end_string", "}}")
    txt_start = delim(calls["env"], "variable_start_string", "{{")
    txt_end = delim(calls["env"], "variable_end_string", "}}")
    assert (cp.native_env.variable_start_string, cp.native_env.variable_end_string) == (nat_start, nat_end)
    assert (cp.env.variable_start_string, cp.env.variable_end_string) == (txt_start, txt_end)
    blocks = [cp.env.block_start_string, cp.env.block_end_string, cp.native_env.block_start_string, cp.native_env.block_end_string]

    f_text, f_nat = _filters(init, "env"), _filters(init, "native_env")
    builtin = set(jinja2.Environment().filters)
    for env, names in ((cp.env, f_text), (cp.native_env, f_nat)):
        custom = {k for k, v in env.filters.items() if k not in builtin or v is not jinja2.Environment().filters.get(k)}
        assert custom == set(names), (custom, names)

    pas = _find_func(cls, "parse_as_string")
    w_start, w_end, w_find, w_brace, w_off = _wrapper_literals(pas)
    check = _native_check(mod_ast, pas)

    return (
        "inductive JinjaPolicy where\n  | strict | lenient | other\n  deriving DecidableEq, Repr\n"
        f"def jinjaPolicy : JinjaPolicy := .{_classify(live_text)}\n"
        f"def jinjaNativePolicy : JinjaPolicy := .{_classify(live_nat)}\n"
        f"def jinjaUndefinedName : List Char := {lean_str(src_text)}\n"
        f"def jinjaNativeUndefinedName : List Char := {lean_str(src_nat)}\n"
        f"def jinjaUndefinedLiveName : List Char := {lean_str(live_text.__name__)}\n"
        f"def jinjaNativeUndefinedLiveName : List Char := {lean_str(live_nat.__name__)}\n"
        f"def nativeUndefinedCheck : Bool := {'true' if check else 'false'}\n"
        f"def textVarDelims : List (List Char) := {lean_str_list([txt_start, txt_end])}\n"
        f"def nativeVarDelims : List (List Char) := {lean_str_list([nat_start, nat_end])}\n"
        f"def blockDelims : List (List Char) := {lean_str_list(blocks)}\n"
        f"def jinjaFilters : List (List Char) := {lean_str_list(f_text)}\n"
        f"def jinjaNativeFilters : List (List Char) := {lean_str_list(f_nat)}\n"
        f"def wrapperNativeStart : List Char := {lean_str(w_start)}\n"
        f"def wrapperNativeEnd : List Char := {lean_str(w_end)}\n"
        f"def wrapperNestedNeedle : List Char := {lean_str(w_find)}\n"
        f"def wrapperNestedOffset : Nat := {w_off}\n"
        f"def wrapperShortcutChar : List Char := {lean_str(w_brace)}\n"
    )
