"""Template configuration of CellParser (cellparser.py): the `undefined` policy and the delimiters of BOTH
Jinja environments, the registered filters, whether a native result that is an `Undefined` object is an
error, and the literals of the wrapper `parse_as_string` (`{`, `{@`, `@}`, the slice offset of the
nested check).

HOW IT READS (DESIGN §2.5a)
* policies, undefined classes, delimiters, filters: RUNTIME VALUES of a live `CellParser()` (its `env` /
  `native_env`), cross-checked with BEHAVIOUR: the policy is `strict` only if the configured class is a
  `StrictUndefined` AND rendering a template that names an undefined variable fails; the "live name" is
  the class of the object a template of that environment actually produces for an undefined name.
  How / where the environments are constructed does not matter.  Filters are a set: sorted.
* `strict` vs `strictShallow`: BEHAVIOUR — printing a list that holds the undefined object fails / prints the
  word 'Undefined'.  nativeUndefinedDeepCheck: BEHAVIOUR — the same probe as nativeUndefinedCheck with the name
  inside list / tuple / dict literals (nested).
* nativeUndefinedCheck: BEHAVIOUR — `parse_as_string("{@ <undefined name> @}", <non-empty context>)`
  reports a problem (a record ≥ ERROR on the main logger, or an exception) instead of handing the
  `Undefined` object back.
* wrapper literals: SOURCE STRUCTURE located BY CONTENT — every method of `CellParser` is searched for the
  `.startswith(c)` / `.endswith(c)` / `x[k:].find(c)` / `c not in x` tests (constants in place or hoisted
  to class / module level); they are intermediate decisions no caller can tell apart one by one.
"""
import ast
import logging

from .. import t1lib
from ..extract_tables import _find_class, _parse, lean_str, lean_str_list


def _classify(env, produces_error: bool, repr_fails: bool) -> str:
    import jinja2

    cls = env.undefined
    if isinstance(cls, type) and issubclass(cls, jinja2.StrictUndefined) and produces_error:
        # `strict`: also the repr() of the object fails (a container that holds it cannot be printed);
        # plain StrictUndefined prints as the word 'Undefined' there
        return "strict" if repr_fails else "strictShallow"
    if cls is jinja2.Undefined and not produces_error:
        return "lenient"
    return "other"


def _undefined_object(env, start, end):
    """the object a template of `env` gets when it looks an undefined name up"""
    t = env.from_string(f"{start} t1_probe_nope {end}")
    return t.new_context({}).resolve_or_missing("t1_probe_nope"), env.undefined(name="t1_probe_nope")


def _fails(fn) -> bool:
    try:
        r = fn()
        import jinja2

        if isinstance(r, jinja2.Undefined):
            str(r)        # a StrictUndefined raises when used
    except Exception:  # noqa: BLE001
        return True
    return False


class _Capture(logging.Handler):
    def __init__(self):
        super().__init__(level=logging.DEBUG)
        self.records = []

    def emit(self, record):
        self.records.append(record)


def native_undefined_check(cp, inner: str = "t1_probe_nope") -> bool:
    lg = t1lib.load("rpft.logger.logger")
    logger = lg.get_logger()
    cap = _Capture()
    logger.addHandler(cap)
    raised = False
    try:
        try:
            cp.parse_as_string(f"{cp.native_env.variable_start_string} {inner} {cp.native_env.variable_end_string}", {"t1_defined": 1})
        except BaseException:  # noqa: BLE001  (SystemExit of a ShutdownHandler included)
            raised = True
    finally:
        logger.removeHandler(cap)
    return raised or any(x.levelno >= logging.ERROR for x in cap.records)


def _wrapper_literals(cls_ast, resolve):
    starts, ends, finds, notin, offs = [], [], [], [], []

    def const(node, fn):
        try:
            v = resolve(node, fn)
        except KeyError:
            return None
        return v if isinstance(v, str) else None

    for fn in t1lib.functions(cls_ast):
        nested = {id(x) for g in t1lib.functions(fn) if g is not fn for x in ast.walk(g)}
        for n in ast.walk(fn):
            if id(n) in nested:
                continue
            if isinstance(n, ast.Call) and isinstance(n.func, ast.Attribute) and n.args:
                c = const(n.args[0], fn)
                if c is None:
                    continue
                if n.func.attr == "startswith":
                    starts.append(c)
                elif n.func.attr == "endswith":
                    ends.append(c)
                elif n.func.attr in ("find", "index"):
                    finds.append(c)
                    v = n.func.value
                    if isinstance(v, ast.Subscript) and isinstance(v.slice, ast.Slice) and v.slice.lower is not None:
                        try:
                            offs.append(resolve(v.slice.lower, fn))
                        except KeyError:
                            pass
            if isinstance(n, ast.Compare) and len(n.ops) == 1 and isinstance(n.ops[0], ast.NotIn):
                c = const(n.left, fn)
                if c is not None:
                    notin.append(c)
    if not (len(finds) == len(offs) == 1) and len(starts) == len(ends) == 1:
        # the nested-template test is not written as `text[k:].find(needle)` (e.g. `needle in text[len(needle):]`):
        # read it from BEHAVIOUR — a cell that starts with the marker, ends with the end marker and holds the marker
        # once more is reported, the same cell without the second marker is not; the offset is then the marker's
        # length (no second occurrence can begin before it: the cell starts with the marker)
        probe = _nested_probe(starts[0], ends[0])
        if probe:
            finds, offs = [starts[0]], [len(starts[0])]
    assert len(starts) == len(ends) == len(finds) == len(notin) == len(offs) == 1, (starts, ends, finds, notin, offs)
    assert isinstance(offs[0], int)
    return starts[0], ends[0], finds[0], notin[0], offs[0]


def _nested_probe(start: str, end: str) -> bool:
    m = t1lib.load("rpft.parsers.common.cellparser")
    lg = t1lib.load("rpft.logger.logger")
    logger = lg.get_logger()

    def criticals(text):
        cap = _Capture()
        logger.addHandler(cap)
        try:
            try:
                m.CellParser().parse_as_string(text, {"t1_defined": 1})
            except BaseException:  # noqa: BLE001
                pass
        finally:
            logger.removeHandler(cap)
        return sum(1 for x in cap.records if x.levelno >= logging.CRITICAL)

    return criticals(f"{start} 1 {end} {start} 2 {end}") > criticals(f"{start} 1 {end}")


def tables() -> str:
    import jinja2

    m = t1lib.load("rpft.parsers.common.cellparser")
    cp = m.CellParser()
    envs = {"text": cp.env, "native": cp.native_env}
    delims = {k: (e.variable_start_string, e.variable_end_string) for k, e in envs.items()}
    blocks = [cp.env.block_start_string, cp.env.block_end_string, cp.native_env.block_start_string, cp.native_env.block_end_string]
    pol, name, live = {}, {}, {}
    for k, e in envs.items():
        s, t = delims[k]
        fails = _fails(lambda e=e, s=s, t=t: e.from_string(f"{s} t1_probe_nope {t}").render({"t1_defined": 1}))
        printed = _fails(lambda e=e, s=s, t=t: e.from_string(f"{s} [t1_probe_nope] {t}").render({"t1_defined": 1}) if k == "text"
                         else repr(e.from_string(f"{s} [t1_probe_nope] {t}").render({"t1_defined": 1})))
        pol[k] = _classify(e, fails, printed)
        name[k] = e.undefined.__name__
        got, made = _undefined_object(e, s, t)
        live[k] = type(got).__name__ if isinstance(got, jinja2.Undefined) else type(made).__name__

    builtin = jinja2.Environment().filters
    custom = {k: sorted(f for f, v in e.filters.items() if f not in builtin or v is not builtin.get(f)) for k, e in envs.items()}

    cls_ast = _find_class(_parse("parsers/common/cellparser.py"), "CellParser")
    w_start, w_end, w_find, w_brace, w_off = _wrapper_literals(cls_ast, t1lib.Resolver(m.CellParser, m))
    check = native_undefined_check(cp)
    # BEHAVIOUR: the check of the native result looks inside lists, tuples and dict values, to any depth
    deep = check and all(native_undefined_check(cp, inner) for inner in (
        "[t1_probe_nope]", "(t1_defined, t1_probe_nope)", "{'k': t1_probe_nope}", "[[t1_defined, {'k': (t1_probe_nope,)}]]"))

    return (
        "inductive JinjaPolicy where\n  | strict | strictShallow | lenient | other\n  deriving DecidableEq, Repr\n"
        f"def jinjaPolicy : JinjaPolicy := .{pol['text']}\n"
        f"def jinjaNativePolicy : JinjaPolicy := .{pol['native']}\n"
        f"def jinjaUndefinedName : List Char := {lean_str(name['text'])}\n"
        f"def jinjaNativeUndefinedName : List Char := {lean_str(name['native'])}\n"
        f"def jinjaUndefinedLiveName : List Char := {lean_str(live['text'])}\n"
        f"def jinjaNativeUndefinedLiveName : List Char := {lean_str(live['native'])}\n"
        f"def nativeUndefinedCheck : Bool := {'true' if check else 'false'}\n"
        f"def nativeUndefinedDeepCheck : Bool := {'true' if deep else 'false'}\n"
        f"def textVarDelims : List (List Char) := {lean_str_list(delims['text'])}\n"
        f"def nativeVarDelims : List (List Char) := {lean_str_list(delims['native'])}\n"
        f"def blockDelims : List (List Char) := {lean_str_list(blocks)}\n"
        "-- sets, sorted\n"
        f"def jinjaFilters : List (List Char) := {lean_str_list(custom['text'])}\n"
        f"def jinjaNativeFilters : List (List Char) := {lean_str_list(custom['native'])}\n"
        f"def wrapperNativeStart : List Char := {lean_str(w_start)}\n"
        f"def wrapperNativeEnd : List Char := {lean_str(w_end)}\n"
        f"def wrapperNestedNeedle : List Char := {lean_str(w_find)}\n"
        f"def wrapperNestedOffset : Nat := {w_off}\n"
        f"def wrapperShortcutChar : List Char := {lean_str(w_brace)}\n"
    )
