"""Header syntax constants (rowparser.py RowParser), the attribute names pydantic refuses as
field names of a ParserModel, and the interpreter's non-ASCII decimal digits (int()).

HOW IT READS (DESIGN §2.5a): RUNTIME VALUES only — class attributes of the live `RowParser`, `dir()` of the
live `ParserModel`, `unicodedata` of the running interpreter.  headerSeparators is the triple
[field, type annotation, default value] separator (by role: order exact); the shadowing names are a set
(sorted); the digit zeros ascend."""
import unicodedata

from .. import t1lib
from ..extract_tables import lean_char, lean_str_list


def tables() -> str:
    rp = t1lib.load("rpft.parsers.common.rowparser")
    seps = [getattr(rp.RowParser, k) for k in ("HEADER_FIELD_SEPARATOR", "TYPE_ANNOTATION_SEPARATOR", "DEFAULT_VALUE_SEPARATOR")]
    assert all(isinstance(s, str) and len(s) == 1 for s in seps), seps
    ParserModel = rp.ParserModel
    shadow = sorted(n for n in dir(ParserModel) if not n.startswith("_") and getattr(ParserModel, n, None))
    zeros = [c for c in range(128, 0x110000) if unicodedata.decimal(chr(c), None) == 0]
    n_dec = sum(1 for c in range(128, 0x110000) if unicodedata.decimal(chr(c), None) is not None)
    assert n_dec == 10 * len(zeros) and all(unicodedata.decimal(chr(z + i)) == i for z in zeros for i in range(10))
    return (
        f"def headerSeparators : List Char := [{', '.join(lean_char(s) for s in seps)}]\n"
        f"def parserModelAttrs : List (List Char) := {lean_str_list(shadow)}\n"
        f"def uniDigitZeros : List Nat := [{', '.join(map(str, zeros))}]\n"
    )
