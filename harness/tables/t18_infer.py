"""Header syntax constants (rowparser.py RowParser), the attribute names pydantic refuses as
field names of a ParserModel, and the interpreter's non-ASCII decimal digits (int())."""
import unicodedata

from ..extract_tables import _assign_value, _find_class, _parse, lean_char, lean_str_list


def tables() -> str:
    mod = _parse("parsers/common/rowparser.py")
    cls = _find_class(mod, "RowParser")
    seps = [_assign_value(cls, k) for k in ("HEADER_FIELD_SEPARATOR", "TYPE_ANNOTATION_SEPARATOR", "DEFAULT_VALUE_SEPARATOR")]
    assert all(isinstance(s, str) and len(s) == 1 for s in seps), seps
    from rpft.parsers.common.rowparser import ParserModel

    shadow = sorted(n for n in dir(ParserModel) if not n.startswith("_") and getattr(ParserModel, n, None))
    zeros = [c for c in range(128, 0x110000) if unicodedata.decimal(chr(c), None) == 0]
    n_dec = sum(1 for c in range(128, 0x110000) if unicodedata.decimal(chr(c), None) is not None)
    assert n_dec == 10 * len(zeros) and all(unicodedata.decimal(chr(z + i)) == i for z in zeros for i in range(10))
    return (
        f"def headerSeparators : List Char := [{', '.join(lean_char(s) for s in seps)}]\n"
        f"def parserModelAttrs : List (List Char) := {lean_str_list(shadow)}\n"
        f"def uniDigitZeros : List Nat := [{', '.join(map(str, zeros))}]\n"
    )
