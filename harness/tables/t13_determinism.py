"""C13 constants: the stack discipline of logger.py's context manager and the scratch reset of the
export.

HOW IT READS (DESIGN §2.5a): BEHAVIOUR only — the private attributes and the shape of the code (two
parallel lists or one list of frames; a class with `__enter__` / `__exit__` or a `contextmanager`
generator; where the scratch attributes of the export are called) do not matter.

loggerAddAppends / loggerPopPops : the observables of a fresh `LoggingContextHandler` (its public
    getters `get_<x>()`, named `<x>`) that change on `add(unit, **vars)` / that are back to their previous
    value after `pop()`.  A set: sorted.
loggerEnterAdds / loggerExitPops : by how many frames the processing stack of the module's
    `logging_context_handler` grows when a `with logging_context(..)` block is entered / shrinks when it
    is left normally (nested twice, both levels must agree)
loggerExitConditionalPops : difference between that and what leaving the block BY AN EXCEPTION pops
loggerExitSwallows : 1 if an exception raised inside the block does not come out of it
toRowsScratchReset : `FlowContainer.to_rows()` on a flow with a cycle gives the same rows again after
    every attribute it wrote on the flow object (found by watching attribute assignment and by diffing
    the object's state) has been filled with junk — stale node ids in sets, a stale row in lists
toRowsClearsRowModels : 1 if `to_rows()` also empties the row models (`get_row_models()`) of a node
    the DFS does not reach
(the names of the attributes are listed in comments for the reader; they are not tied)
"""
import copy

from .. import t1lib
from ..extract_tables import lean_str_list


# ------------------------------------------------------------------------------ logger


def _observables(h):
    out = {}
    for name in dir(h):
        if name.startswith("get_") and callable(getattr(h, name)):
            try:
                out[name[4:]] = copy.deepcopy(getattr(h, name)())
            except Exception:  # noqa: BLE001
                continue
    return out


def probe_logger():
    lg = t1lib.load("rpft.logger.logger")
    h = lg.LoggingContextHandler()
    o0 = _observables(h)
    h.add("t1 probe unit", t1_probe_var=1)
    o1 = _observables(h)
    h.add("t1 probe unit 2", t1_probe_var2=2)
    o2 = _observables(h)
    h.pop()
    o3 = _observables(h)
    h.pop()
    o4 = _observables(h)
    add_fields = sorted(k for k in o0 if o1[k] != o0[k] and o2[k] != o1[k])
    pop_fields = sorted(k for k in add_fields if o3[k] == o1[k] and o4[k] == o0[k])

    g = lg.logging_context_handler
    depth = lambda: len(g.get_processing_stack())  # noqa: E731
    base = depth()

    class Probe(Exception):
        pass

    try:
        with lg.logging_context("t1 a", t1_k=1):
            d1 = depth()
            with lg.logging_context("t1 b"):
                d2 = depth()
            d3 = depth()
        d4 = depth()
        assert d1 - base == d2 - d1 and d2 - d3 == d3 - d4, ("nesting levels disagree", base, d1, d2, d3, d4)
        enter_adds, exit_pops = d1 - base, d3 - d4
        swallowed = 0
        try:
            with lg.logging_context("t1 c"):
                raise Probe()
            swallowed = 1
        except Probe:
            pass
        exc_pops = (base + enter_adds) - depth()
    finally:
        while depth() > base:
            g.pop()
    assert depth() == base
    return add_fields, pop_fields, enter_adds, exit_pops, abs(exit_pops - exc_pops), swallowed


# ------------------------------------------------------------------------------ export scratch state


def _flow_dict():
    def node(u, text, dest):
        return {"uuid": u, "actions": [{"uuid": u[:-1] + "a", "type": "send_msg", "text": text, "attachments": [], "quick_replies": []}],
                "exits": [{"uuid": u[:-1] + "e", "destination_uuid": dest}]}
    n1, n2, n3, n4 = (f"00000000-0000-4000-8000-00000000000{i}0" for i in (1, 2, 3, 4))
    return {
        "uuid": "00000000-0000-4000-8000-0000000000f0", "name": "t1 probe", "language": "eng", "type": "messaging",
        "spec_version": "13.1.0", "revision": 0, "expire_after_minutes": 60, "localization": {},
        # n1 → n2 → n3 → n1 (a cycle: the DFS needs its visited / completed sets); n4 is not reachable
        "nodes": [node(n1, "one", n2), node(n2, "two", n3), node(n3, "three", n1), node(n4, "lonely", None)],
    }


def _snap(rows):
    return [r.dict() for r in rows]


def _state(obj):
    out = {}
    for k, v in vars(obj).items():
        try:
            out[k] = repr(v) if not isinstance(v, (set, frozenset)) else repr(sorted(v, key=repr))
        except Exception:  # noqa: BLE001
            out[k] = "?"
    return out


def probe_export():
    cont = t1lib.load("rpft.rapidpro.models.containers")
    from rpft.parsers.creation.flowrowmodel import Edge

    FC = cont.FlowContainer
    flow = FC.from_dict(_flow_dict())
    before = _state(flow)
    assigned = []
    had = "__setattr__" in vars(FC)
    orig = vars(FC).get("__setattr__")

    def spy(self, name, value):
        assigned.append(name)
        object.__setattr__(self, name, value)

    FC.__setattr__ = spy
    try:
        rows1 = _snap(flow.to_rows())
    finally:
        if had:
            FC.__setattr__ = orig
        else:
            del FC.__setattr__
    after = _state(flow)
    assert len(rows1) >= 4, ("probe flow exported", len(rows1))
    scratch = sorted(set(assigned) | {k for k in after if before.get(k) != after[k]})
    # junk: every node id is "already visited / completed", a stale row sits in every list
    uuids = {n.uuid for n in flow.nodes}
    poisoned = []
    for k in scratch:
        v = getattr(flow, k, None)
        if isinstance(v, set):
            setattr(flow, k, set(v) | uuids | {"t1-junk"})
        elif isinstance(v, list):
            setattr(flow, k, [copy.deepcopy(x) for x in v[:1]] + list(v))
        elif isinstance(v, dict):
            setattr(flow, k, {**v, "t1-junk": "t1-junk", **{u: "t1-junk" for u in uuids}})
        else:
            continue
        poisoned.append(k)
    try:
        rows2 = _snap(flow.to_rows())
    except Exception:  # noqa: BLE001  (stale scratch state made the export fail: it is not reset)
        rows2 = None
    # (an export that keeps its traversal state in local variables has nothing to poison: the second export must simply agree)
    scratch_reset = rows2 == rows1
    # a node the DFS does not reach: are its row models emptied as well?
    if rows2 != rows1:
        flow = FC.from_dict(_flow_dict())       # a fresh object for the second question
        flow.to_rows()
    lonely = flow.nodes[-1]
    lonely.initiate_row_models("t1|stale", Edge(from_="start"))
    assert lonely.get_row_models(), "initiate_row_models left no row model"
    try:
        rows3 = _snap(flow.to_rows())
    except Exception:  # noqa: BLE001
        rows3 = None
    clears = 1 if (not lonely.get_row_models() and (rows3 == rows1 or rows2 != rows1)) else 0
    # names, for the reader: what a node's clear_row_model assigns
    node_fields = []
    if hasattr(lonely, "clear_row_model"):
        s0 = _state(lonely)
        lonely.initiate_row_models("t1|stale", Edge(from_="start"))
        s1 = _state(lonely)
        lonely.clear_row_model()
        s2 = _state(lonely)
        node_fields = sorted(k for k in s1 if s1[k] != s2.get(k) or s0.get(k) != s1[k])
    return scratch, poisoned, scratch_reset, clears, node_fields


def tables() -> str:
    add_fields, pop_fields, enter_adds, exit_pops, exit_cond, swallows = probe_logger()
    scratch, poisoned, scratch_reset, clears, node_fields = probe_export()
    return "\n".join([
        "-- observables of LoggingContextHandler (public getters) that add grows / pop restores: a set, sorted",
        f"def loggerAddAppends : List (List Char) := {lean_str_list(add_fields)}",
        f"def loggerPopPops : List (List Char) := {lean_str_list(pop_fields)}",
        f"def loggerEnterAdds : Nat := {enter_adds}",
        f"def loggerExitPops : Nat := {exit_pops}",
        f"def loggerExitConditionalPops : Nat := {exit_cond}",
        f"def loggerExitSwallows : Nat := {swallows}",
        f"-- attributes to_rows writes on the flow object: {', '.join(scratch)}; filled with junk for the probe: {', '.join(poisoned)}",
        f"def toRowsScratchReset : Bool := {'true' if scratch_reset else 'false'}",
        f"def toRowsClearsRowModels : Nat := {clears}",
        f"-- attributes of a node that hold its row models: {', '.join(node_fields)}",
    ]) + "\n"
