"""C13 constants: the *shape* of logger.py's context manager and of the export's scratch reset,
read with `ast` (semantic, not textual: renaming a local does not change them).

loggerAddAppends / loggerPopPops : attributes of `self` that `LoggingContextHandler.add` appends
    to / `pop` pops from, at the top level of the method body (not under if/try/loop)
loggerEnterAdds / loggerExitPops : number of unconditional `logging_context_handler.add(...)` /
    `.pop()` calls at the top level of `logging_context.__enter__` / `__exit__`
loggerExitConditional : number of `.pop()` calls in `__exit__` that are NOT at top level
toRowsResets : attributes of `self` assigned at the top level of `FlowContainer.to_rows` before the
    DFS starts; toRowsClearsRowModels : `clear_row_model()` called for the nodes before the DFS
clearRowModelResets : attributes `BaseNode.clear_row_model` assigns
"""
import ast

from ..extract_tables import _find_class, _find_func, _parse, lean_str_list


def _top_calls(func: ast.FunctionDef, meth: str):
    """calls `<x>.<meth>(...)` that are expression statements directly in the body"""
    out = []
    for st in func.body:
        if isinstance(st, ast.Expr) and isinstance(st.value, ast.Call) and isinstance(st.value.func, ast.Attribute) \
                and st.value.func.attr == meth:
            out.append(st.value)
    return out


def _all_calls(func: ast.FunctionDef, meth: str):
    return [n for n in ast.walk(func) if isinstance(n, ast.Call) and isinstance(n.func, ast.Attribute) and n.func.attr == meth]


def _self_attr(node):
    """`self.<a>` → a"""
    if isinstance(node, ast.Attribute) and isinstance(node.value, ast.Name) and node.value.id == "self":
        return node.attr
    return None


def tables() -> str:
    lg = _parse("logger/logger.py")
    handler = _find_class(lg, "LoggingContextHandler")
    ctx = _find_class(lg, "logging_context")
    add = _find_func(handler, "add")
    pop = _find_func(handler, "pop")
    enter = _find_func(ctx, "__enter__")
    exit_ = _find_func(ctx, "__exit__")
    add_fields = [a for a in (_self_attr(c.func.value) for c in _top_calls(add, "append")) if a]
    pop_fields = [a for a in (_self_attr(c.func.value) for c in _top_calls(pop, "pop")) if a]
    enter_adds = len(_top_calls(enter, "add"))
    exit_pops = len(_top_calls(exit_, "pop"))
    exit_cond = len(_all_calls(exit_, "pop")) - exit_pops
    # `__exit__` must not swallow exceptions either: no `return True`
    swallows = sum(1 for n in ast.walk(exit_) if isinstance(n, ast.Return) and n.value is not None
                   and not (isinstance(n.value, ast.Constant) and n.value.value in (None, False)))

    cont = _parse("rapidpro/models/containers.py")
    fc = _find_class(cont, "FlowContainer")
    to_rows = _find_func(fc, "to_rows")
    resets, clears = [], 0
    for st in to_rows.body:
        calls_dfs = any(isinstance(n, ast.Call) and isinstance(n.func, ast.Attribute) and n.func.attr == "_to_rows_recurse"
                        for n in ast.walk(st))
        if calls_dfs:
            break
        if isinstance(st, ast.Assign):
            for t in st.targets:
                a = _self_attr(t)
                if a:
                    resets.append(a)
        if isinstance(st, ast.For) and _all_calls(st, "clear_row_model"):
            clears += 1
    nodes = _parse("rapidpro/models/nodes.py")
    crm = _find_func(_find_class(nodes, "BaseNode"), "clear_row_model")
    crm_fields = []
    for st in crm.body:
        if isinstance(st, ast.Assign):
            crm_fields += [a for a in (_self_attr(t) for t in st.targets) if a]
    return "\n".join([
        f"def loggerAddAppends : List (List Char) := {lean_str_list(add_fields)}",
        f"def loggerPopPops : List (List Char) := {lean_str_list(pop_fields)}",
        f"def loggerEnterAdds : Nat := {enter_adds}",
        f"def loggerExitPops : Nat := {exit_pops}",
        f"def loggerExitConditionalPops : Nat := {exit_cond}",
        f"def loggerExitSwallows : Nat := {swallows}",
        f"def toRowsResets : List (List Char) := {lean_str_list(resets)}",
        f"def toRowsClearsRowModels : Nat := {clears}",
        f"def clearRowModelResets : List (List Char) := {lean_str_list(crm_fields)}",
    ]) + "\n"
