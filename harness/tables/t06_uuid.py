"""Visiting order of the global-uuid bookkeeping (containers.py, campaigns.py, triggers.py,
actions.py, routers.py): the sequence of record/assign/check calls of each hook, as data.

HOW IT READS (DESIGN §2.5a): SOURCE STRUCTURE — which bookkeeping calls a hook makes, on what, in which
order is a fact about the code's control flow that only the source tells.  The hooks are looked up by
their PUBLIC names (`update_global_uuids`, `validate`, `record_global_uuids`, `assign_global_uuids`: the
protocol every model class implements); local variable names do not matter (a loop variable stands for
the collection it ranges over), and a call of a PRIVATE helper of the same class (`self._x(…)`) is
replaced by the helper's own sequence, so extracting part of a hook into a helper changes nothing.
ORDER EXACT: record-before-assign and the visiting order are what the model is about."""
import ast

from ..extract_tables import _find_class, _find_func, _parse

CALLS = {
    "record_group_uuid", "record_flow_uuid", "record_global_uuids", "assign_global_uuids",
    "generate_missing_uuids", "record_uuid", "assign_uuid", "contains_flow",
    "get_group_uuid", "get_flow_uuid", "get_group_list",
}


def _base(node, loops):
    """what the call is made on / iterates over: `self.X` -> X, loop variable -> its `self.X`"""
    if isinstance(node, ast.Attribute) and isinstance(node.value, ast.Name) and node.value.id == "self":
        return node.attr
    if isinstance(node, ast.Name):
        return loops.get(node.id, node.id)
    if isinstance(node, ast.Attribute):
        return _base(node.value, loops) + "." + node.attr
    return ast.unparse(node)


def call_sequence(func: ast.FunctionDef, cls: ast.ClassDef | None = None, _depth: int = 0) -> list[str]:
    out = []
    helpers = {}
    if cls is not None and _depth < 4:
        helpers = {m.name: m for m in cls.body if isinstance(m, ast.FunctionDef) and m.name.startswith("_")
                   and not m.name.startswith("__") and m.name not in CALLS and m is not func}

    def visit(stmts, loops):
        for s in stmts:
            if isinstance(s, ast.For):
                l2 = dict(loops)
                if isinstance(s.target, ast.Name):
                    l2[s.target.id] = _base(s.iter, loops)
                visit(s.body, l2)
            elif isinstance(s, ast.If):
                scan(s.test, loops)
                visit(s.body, loops)
                visit(s.orelse, loops)
            else:
                scan(s, loops)

    def scan(node, loops):
        calls = [n for n in ast.walk(node) if isinstance(n, ast.Call) and isinstance(n.func, ast.Attribute)
                 and (n.func.attr in CALLS or (n.func.attr in helpers and isinstance(n.func.value, ast.Name) and n.func.value.id == "self"))]
        calls.sort(key=lambda n: (n.lineno, n.col_offset))
        for n in calls:
            if n.func.attr in helpers:      # a private helper of the same class: its own sequence, in place
                out.extend(call_sequence(helpers[n.func.attr], cls, _depth + 1))
                continue
            kws = "".join(f" {k.arg}={ast.unparse(k.value)}" for k in n.keywords)
            args = ""
            if n.func.attr in ("record_group_uuid", "record_flow_uuid", "get_group_uuid", "get_flow_uuid", "contains_flow"):
                args = "(" + ",".join(_arg(a, loops) for a in n.args) + ")"
            out.append(f"{_base(n.func.value, loops)}.{n.func.attr}{args}{kws}")

    def _arg(a, loops):
        if isinstance(a, (ast.Attribute, ast.Name)):
            return _base(a, loops)
        return ast.unparse(a)

    visit(func.body, {})
    return out


def _seq(cls: ast.ClassDef, name: str) -> list[str]:
    return call_sequence(_find_func(cls, name), cls)


def _lean_strings(xs) -> str:
    return "[" + ", ".join('"' + x.replace("\\", "\\\\").replace('"', '\\"') + '"' for x in xs) + "]"


def tables() -> str:
    cont = _parse("rapidpro/models/containers.py")
    camp = _parse("rapidpro/models/campaigns.py")
    trig = _parse("rapidpro/models/triggers.py")
    act = _parse("rapidpro/models/actions.py")
    rout = _parse("rapidpro/models/routers.py")
    nodes = _parse("rapidpro/models/nodes.py")
    rc = _find_class(cont, "RapidProContainer")
    items = [
        ("uuidUpdateSteps", _seq(rc, "update_global_uuids")),
        ("uuidValidateSteps", _seq(rc, "validate")),
        ("uuidFlowRecord", _seq(_find_class(cont, "FlowContainer"), "record_global_uuids")),
        ("uuidNodeRecord", _seq(_find_class(nodes, "BaseNode"), "record_global_uuids")
         + ["|"] + _seq(_find_class(nodes, "RouterNode"), "record_global_uuids")),
        ("uuidCampaignRecord", _seq(_find_class(camp, "Campaign"), "record_global_uuids")),
        ("uuidCampaignAssign", _seq(_find_class(camp, "Campaign"), "assign_global_uuids")),
        ("uuidEventRecord", _seq(_find_class(camp, "CampaignEvent"), "record_global_uuids")),
        ("uuidTriggerRecord", _seq(_find_class(trig, "Trigger"), "record_global_uuids")),
        ("uuidTriggerAssign", _seq(_find_class(trig, "Trigger"), "assign_global_uuids")),
        ("uuidGroupActionRecord", _seq(_find_class(act, "GenericGroupAction"), "record_global_uuids")),
        ("uuidEnterFlowRecord", _seq(_find_class(act, "EnterFlowAction"), "record_global_uuids")),
        ("uuidSwitchRecord", _seq(_find_class(rout, "SwitchRouter"), "record_global_uuids")),
        ("uuidSwitchAssign", _seq(_find_class(rout, "SwitchRouter"), "assign_global_uuids")),
    ]
    # classes of actions.py / routers.py whose record hook does something (body is not `pass`)
    hooked = []
    for mod in (act, rout):
        for c in mod.body:
            if isinstance(c, ast.ClassDef):
                for f in c.body:
                    if isinstance(f, ast.FunctionDef) and f.name == "record_global_uuids" and not all(isinstance(s, ast.Pass) for s in f.body):
                        hooked.append(c.name)
    items.append(("uuidHookedClasses", sorted(hooked)))
    return "".join(f"def {name} : List String := {_lean_strings(v)}\n" for name, v in items)
