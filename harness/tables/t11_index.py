"""Content index row types, the draft word and the index sheet name
(contentindexparser.py `__init__`, `_process_content_index_table`)."""
import ast

from ..extract_tables import _find_class, _find_func, _parse, lean_str, lean_str_list


def _is_attr(node, name) -> bool:
    return isinstance(node, ast.Attribute) and node.attr == name and isinstance(node.value, ast.Name) and node.value.id == "row"


def tables() -> str:
    mod = _parse("parsers/creation/contentindexparser.py")
    cls = _find_class(mod, "ContentIndexParser")
    fn = _find_func(cls, "_process_content_index_table")
    types, status = [], []
    for n in ast.walk(fn):
        if isinstance(n, ast.Compare) and len(n.ops) == 1 and isinstance(n.ops[0], ast.Eq):
            c = n.comparators[0]
            if isinstance(c, ast.Constant) and isinstance(c.value, str):
                if _is_attr(n.left, "type"):
                    types.append((n.lineno, n.col_offset, c.value))
                elif _is_attr(n.left, "status"):
                    status.append(c.value)
    types = [v for _, _, v in sorted(types)]
    init = _find_func(cls, "__init__")
    idx = []
    for n in ast.walk(init):
        if isinstance(n, ast.Call) and isinstance(n.func, ast.Attribute) and n.func.attr == "get_sheets_by_name":
            idx.append(ast.literal_eval(n.args[0]))
    assert len(idx) == 1 and len(status) == 1, (idx, status)
    return (
        f"def indexRowTypes : List (List Char) := {lean_str_list(types)}\n"
        f"def indexDraftWord : List Char := {lean_str(status[0])}\n"
        f"def indexSheetName : List Char := {lean_str(idx[0])}\n"
    )
