"""Content index row types, the draft word and the index sheet name (contentindexparser.py).

HOW IT READS (DESIGN §2.5a): SOURCE STRUCTURE located BY CONTENT — every method of
`ContentIndexParser` is searched for
* the dispatch on `<row>.type` by equality (if/elif chain, `match`, dispatch dict — literal or hoisted;
  the one with the most alternatives is the row-type dispatch, incidental comparisons such as
  `arg_def.type == "sheet"` have one),
* `<row>.status == <constant>` / `<row>.status in (<constant>,)`  (the draft word),
* `….get_sheets_by_name(<constant>)`  (the index sheet name).
No private method name is looked up.  The row types are the distinct constants of an equality
dispatch, i.e. a SET: emitted SORTED, compared up to order.
"""
import ast

from .. import t1lib
from ..extract_tables import _find_class, _parse, lean_str, lean_str_list


def _row_attr(name):
    def pred(node) -> bool:
        return isinstance(node, ast.Attribute) and node.attr == name and isinstance(node.value, ast.Name)
    return pred


def tables() -> str:
    cls = _find_class(_parse("parsers/creation/contentindexparser.py"), "ContentIndexParser")
    live = t1lib.load("rpft.parsers.creation.contentindexparser")
    resolve = t1lib.Resolver(live.ContentIndexParser, live)
    types = sorted(t1lib.largest_group(t1lib.dispatch_groups(cls, _row_attr("type"), resolve), "dispatch on row.type"))
    status = t1lib.dispatch_keys(cls, _row_attr("status"), resolve)
    # … or a membership test `<row>.status in (<words>)`
    status += [w for c in t1lib.container_consts(cls, _row_attr("status"), resolve, ops=(ast.In,)) for w in c if w not in status]
    idx = set()
    for n in t1lib.find_all(cls, lambda n: isinstance(n, ast.Call) and isinstance(n.func, ast.Attribute) and n.func.attr == "get_sheets_by_name" and n.args):
        try:
            v = resolve(n.args[0])
        except KeyError:
            continue        # a variable: the lookup of a sheet named by a row
        if isinstance(v, str):
            idx.add(v)
    assert len(idx) == 1 and len(status) == 1, (idx, status)
    return (
        f"def indexRowTypes : List (List Char) := {lean_str_list(types)}\n"
        f"def indexDraftWord : List Char := {lean_str(status[0])}\n"
        f"def indexSheetName : List Char := {lean_str(idx.pop())}\n"
    )
