"""C04 action codec constants (rapidpro/models/actions.py, nodes.py, parsers/creation/flowparser.py):
action type ↔ row type tables of both directions, the row-model keys each action class writes,
attachment kinds and the cut `attachment[6:]`, contact properties, the default URN scheme.
Tied by `Props.C04.tables_agree_actcodec`.

HOW IT READS (DESIGN §2.5a)
* action types and classes: RUNTIME (`action_map` of the live module, see t05_actions).
* everything else: SOURCE STRUCTURE — which row-model keys an action class writes, which constructor a
  row type leads to, are facts about branches of the code; reading them off behaviour would need a valid
  action / row of every kind (that is the differential tie of the C04 check, not T1).  The two parser
  functions are located BY CONTENT among all methods of `FlowParser` (the one whose `<row>.type == …`
  branches build `…Action` objects; the one whose `<row>.type in […]` branches return `…Node` objects),
  not by their private names; every `if` of the function is read wherever it stands (no assumption that
  the chain is the first statement); list / tuple / set constants may stand in place or be hoisted to
  class / module level (resolved against the live module).  `get_row_model_fields` is the public
  export hook of the action classes.
ORDER: the dispatch tables (`==` on distinct row types, type → row type) are lookups and the no-action /
contact-property lists are membership tests: SORTED, compared up to order; the keys written per class are
a set per class, classes sorted.  The media kinds are kept in source order (the order in which
attachments are appended)."""
import ast

from .. import t1lib
from ..extract_tables import _find_class, _parse, lean_str, lean_str_list
from .t05_actions import action_map


def _pairs(d) -> str:
    return "[" + ", ".join(f"({lean_str(k)}, {lean_str(v)})" for k, v in d) + "]"


def _own_method(cls: ast.ClassDef, name: str):
    for m in cls.body:
        if isinstance(m, ast.FunctionDef) and m.name == name:
            return m
    return None


def _mro_method(mod, cls_name: str, name: str):
    """(defining class, FunctionDef) following single inheritance by name"""
    seen = set()
    while cls_name and cls_name not in seen:
        seen.add(cls_name)
        try:
            cls = _find_class(mod, cls_name)
        except KeyError:
            return None, None
        m = _own_method(cls, name)
        if m is not None:
            return cls, m
        bases = [b.id for b in cls.bases if isinstance(b, ast.Name)]
        cls_name = bases[0] if bases else None
    return None, None


def _ctor_type(mod, cls_name: str) -> str:
    """first argument of `super().__init__(…)` in the class's constructor: the action type
    (an f-string is rendered with `{}` for its holes)"""
    cls = _find_class(mod, cls_name)
    init = _own_method(cls, "__init__")
    assert init is not None, cls_name
    for n in ast.walk(init):
        if (isinstance(n, ast.Call) and isinstance(n.func, ast.Attribute) and n.func.attr == "__init__"
                and isinstance(n.func.value, ast.Call) and isinstance(n.func.value.func, ast.Name) and n.func.value.func.id == "super"):
            a = n.args[0]
            if isinstance(a, ast.Constant):
                return a.value
            if isinstance(a, ast.JoinedStr):
                return "".join(v.value if isinstance(v, ast.Constant) else "{}" for v in a.values)
            if isinstance(a, ast.Name):
                return "<" + a.id + ">"
    raise KeyError(f"super().__init__ in {cls_name}")


def _row_fields_of(mod, cls_name: str):
    """(row type word | 'self.type' | None, keys written) of `get_row_model_fields`, following
    `fields = super().get_row_model_fields(); fields["type"] = …`; None = returns NotImplementedError"""
    cls, m = _mro_method(mod, cls_name, "get_row_model_fields")
    if m is None:
        return None, []
    keys, ty = [], None
    for n in ast.walk(m):
        if isinstance(n, ast.Return) and isinstance(n.value, ast.Name) and n.value.id == "NotImplementedError":
            return None, []
        if isinstance(n, ast.Raise):
            return None, []
        if isinstance(n, ast.Dict):
            # only dicts whose keys are all string constants (row-model fragments)
            if all(isinstance(k, ast.Constant) and isinstance(k.value, str) for k in n.keys):
                for k, v in zip(n.keys, n.values):
                    if k.value == "type":
                        ty = v.value if isinstance(v, ast.Constant) else ast.unparse(v)
        if isinstance(n, ast.Assign) and isinstance(n.targets[0], ast.Subscript) and isinstance(n.targets[0].slice, ast.Constant):
            if n.targets[0].slice.value == "type":
                ty = n.value.value if isinstance(n.value, ast.Constant) else ast.unparse(n.value)
    # keys: top-level keys of the returned / updated dict literals (not of nested dicts), plus subscript assignments
    def top_dicts(fn):
        out = []
        for st in ast.walk(fn):
            if isinstance(st, (ast.Return, ast.Assign)) and isinstance(st.value, ast.Dict):
                out.append(st.value)
            if isinstance(st, ast.Call) and isinstance(st.func, ast.Attribute) and st.func.attr == "update":
                for a in st.args:
                    if isinstance(a, ast.Dict):
                        out.append(a)
        return out

    def collect(cn):
        c, fn = _mro_method(mod, cn, "get_row_model_fields")
        if fn is None:
            return
        # inherited part first
        for n in ast.walk(fn):
            if (isinstance(n, ast.Call) and isinstance(n.func, ast.Attribute) and n.func.attr == "get_row_model_fields"
                    and isinstance(n.func.value, ast.Call) and isinstance(n.func.value.func, ast.Name) and n.func.value.func.id == "super"):
                bases = [b.id for b in c.bases if isinstance(b, ast.Name)]
                collect(bases[0])
        for d in top_dicts(fn):
            for k in d.keys:
                if isinstance(k, ast.Constant) and isinstance(k.value, str) and k.value not in keys:
                    # amounts = {k: str(v) …} is a comprehension, not a Dict node; nested literals are not top-level
                    keys.append(k.value)
        for n in ast.walk(fn):
            if isinstance(n, ast.Assign) and isinstance(n.targets[0], ast.Subscript) and isinstance(n.targets[0].slice, ast.Constant) \
                    and isinstance(n.targets[0].value, ast.Name) and isinstance(n.targets[0].slice.value, str):
                # (`<dict>["key"] = …` with a constant key, whatever the local dict is called)
                if n.targets[0].slice.value not in keys:
                    keys.append(n.targets[0].slice.value)

    collect(cls_name)
    return ty, sorted(keys)


_RESOLVE = None


def _str_list(node, fn=None):
    """a list / tuple / set of strings, literal or hoisted"""
    v = _RESOLVE(node, fn) if _RESOLVE is not None else ast.literal_eval(node)
    if isinstance(v, (set, frozenset)):
        v = sorted(v)
    v = list(v)
    assert all(isinstance(x, str) for x in v), v
    return v


def _is_row_type(n) -> bool:
    return isinstance(n, ast.Attribute) and n.attr == "type" and isinstance(n.value, ast.Name)


def _builds(body, suffix: str):
    for st in body:
        for n in ast.walk(st):
            if isinstance(n, ast.Call) and isinstance(n.func, ast.Name) and n.func.id.endswith(suffix):
                return n.func.id
    return None


def _locate_parsers(cls: ast.ClassDef):
    """(function turning a row into an action, function turning a row into a node), by content"""
    best_a, best_n = (0, None), (0, None)
    for fn in t1lib.functions(cls):
        ifs = [n for n in ast.walk(fn) if isinstance(n, ast.If)]
        a = sum(1 for n in ifs if isinstance(n.test, ast.Compare) and len(n.test.ops) == 1 and isinstance(n.test.ops[0], ast.Eq)
                and _is_row_type(n.test.left) and _builds(n.body, "Action"))
        k = sum(1 for n in ifs if isinstance(n.test, ast.Compare) and len(n.test.ops) == 1 and isinstance(n.test.ops[0], ast.In)
                and _is_row_type(n.test.left)
                and any(isinstance(c, ast.Return) and isinstance(c.value, ast.Call) and isinstance(c.value.func, ast.Name)
                        and c.value.func.id.endswith("Node") for st in n.body for c in ast.walk(st)))
        if a > best_a[0]:
            best_a = (a, fn)
        if k > best_n[0]:
            best_n = (k, fn)
    assert best_a[1] is not None and best_n[1] is not None, "row → action / row → node functions not found in FlowParser"
    return best_a[1], best_n[1]


def _probe_media_export():
    acts = t1lib.load("rpft.rapidpro.models.actions")
    rest = "0123456789abcdef"
    plain = acts.SendMessageAction(text="t1 probe").get_row_model_fields()
    kinds, cuts = [], set()
    for k in plain:                                   # column order of the exported fields
        if not isinstance(k, str) or plain[k] != "":
            continue
        att = f"{k}:{rest}"
        try:
            f = acts.SendMessageAction(text="t1 probe", attachments=[att]).get_row_model_fields()
        except Exception:  # noqa: BLE001
            continue
        v = f.get(k)
        if isinstance(v, str) and v and att.endswith(v) and not f.get("attachments"):
            kinds.append(k)
            cuts.add(len(att) - len(v))
    return kinds, (cuts.pop() if len(cuts) == 1 else None)


def tables() -> str:
    actions = _parse("rapidpro/models/actions.py")
    nodes = _parse("rapidpro/models/nodes.py")
    fp = _parse("parsers/creation/flowparser.py")
    amap = action_map()
    global _RESOLVE
    fp_live = t1lib.load("rpft.parsers.creation.flowparser")
    act_live = t1lib.load("rpft.rapidpro.models.actions")
    _RESOLVE = t1lib.Resolver(fp_live.FlowParser, fp_live, act_live)

    export_rows, pass_through, export_keys = [], [], []
    seen_cls = set()
    for ty, cls in amap:
        row_ty, keys = _row_fields_of(actions, cls)
        if row_ty is None:
            pass_through.append(ty)
            continue
        export_rows.append((ty, ty if row_ty == "self.type" else row_ty))
        if cls not in seen_cls:
            seen_cls.add(cls)
            export_keys.append((cls, keys))

    # row → action: every `if` of the function that tests the row type
    gra, grn = _locate_parsers(_find_class(fp, "FlowParser"))
    dispatch, prefix, prefix_cls, no_action = [], None, None, None

    def built_class(body):
        return _builds(body, "Action")

    for node in t1lib.find_all(gra, lambda n: isinstance(n, ast.If)):
        t = node.test
        if isinstance(t, ast.Compare) and len(t.ops) == 1 and isinstance(t.ops[0], ast.Eq) and _is_row_type(t.left) \
                and isinstance(t.comparators[0], ast.Constant):
            cls = built_class(node.body)
            assert cls, ast.unparse(t)
            dispatch.append((t.comparators[0].value, _ctor_type(actions, cls)))
        elif isinstance(t, ast.Call) and isinstance(t.func, ast.Attribute) and t.func.attr == "startswith" and _is_row_type(t.func.value):
            prefix = _RESOLVE(t.args[0], gra)
            prefix_cls = built_class(node.body)
        elif isinstance(t, ast.Compare) and len(t.ops) == 1 and isinstance(t.ops[0], ast.In) and _is_row_type(t.left):
            no_action = _str_list(t.comparators[0], gra)
            assert isinstance(node.body[0], ast.Return) and (node.body[0].value is None or (isinstance(node.body[0].value, ast.Constant) and node.body[0].value.value is None))
    assert prefix is not None and no_action is not None and prefix_cls is not None
    prefix_ctor = _ctor_type(actions, prefix_cls)  # "set_contact_{}"
    replace_needles = [
        _RESOLVE(n.args[0], gra) for n in t1lib.find_all(gra, lambda n: isinstance(n, ast.Call) and isinstance(n.func, ast.Attribute)
                                                      and n.func.attr in ("replace", "removeprefix") and _is_row_type(n.func.value))
    ]
    props_parse = None
    for n in ast.walk(gra):
        if isinstance(n, ast.Compare) and isinstance(n.ops[0], ast.NotIn) and isinstance(n.left, ast.Name) and props_parse is None:
            try:
                props_parse = _str_list(n.comparators[0], gra)
            except (KeyError, AssertionError, TypeError):
                pass
    media_parse = None
    for n in ast.walk(gra):
        if isinstance(n, ast.Call) and isinstance(n.func, ast.Name) and n.func.id == "zip":
            media_parse = _str_list(n.args[0], gra)
            cols = [e.attr for e in n.args[1].elts if isinstance(e, ast.Attribute)]
            assert cols == list(media_parse), cols
    scheme_parse = None
    for n in ast.walk(gra):
        if isinstance(n, ast.BoolOp) and isinstance(n.op, ast.Or) and isinstance(n.values[0], ast.Attribute) and n.values[0].attr == "urn_scheme":
            scheme_parse = _RESOLVE(n.values[1], gra)

    # _get_row_node: row type → node class → the action class its constructor creates
    node_dispatch = []
    for n in t1lib.find_all(grn, lambda n: isinstance(n, ast.If)):
        if isinstance(n.test, ast.Compare) and isinstance(n.test.ops[0], ast.In) and _is_row_type(n.test.left):
            types = _str_list(n.test.comparators[0], grn)
            for st in n.body:
                for c in ast.walk(st):
                    if isinstance(c, ast.Return) and isinstance(c.value, ast.Call) and isinstance(c.value.func, ast.Name) and c.value.func.id.endswith("Node"):
                        ncls = _find_class(nodes, c.value.func.id)
                        acls = None
                        init = _own_method(ncls, "__init__")
                        for x in ast.walk(init):
                            if isinstance(x, ast.Call) and isinstance(x.func, ast.Name) and x.func.id.endswith("Action"):
                                acls = x.func.id
                        if acls:
                            for t in types:
                                node_dispatch.append((t, _ctor_type(actions, acls)))

    # send_msg export: media kinds and the cut
    sm = _own_method(_find_class(actions, "SendMessageAction"), "get_row_model_fields")
    media_export, cut = None, None
    for n in ast.walk(sm):
        if isinstance(n, ast.For) and media_export is None:
            try:
                media_export = _str_list(n.iter, sm)
            except (KeyError, AssertionError, TypeError):
                pass
        if isinstance(n, ast.Subscript) and isinstance(n.slice, ast.Slice) and ast.unparse(n.value) == "attachment":
            assert n.slice.upper is None and n.slice.step is None
            cut = n.slice.lower.value
    if not (media_export and isinstance(cut, int)):
        # not written as `for kind in [...]: … attachment[k:]` (helper method, hoisted tuple, len(prefix)): read it from
        # BEHAVIOUR — a lone attachment `<kind>:<rest>` of a media kind is exported in the column of that kind (the
        # kinds in the order of their columns in the exported fields), `<rest>` being what follows the cut
        media_export, cut = _probe_media_export()
    assert media_export and isinstance(cut, int)

    # contact properties accepted when loading a set_contact_* action
    props_load = None
    scp = _own_method(_find_class(actions, "SetContactPropertyAction"), "_assign_fields_from_dict")
    for n in ast.walk(scp):
        if isinstance(n, ast.Compare) and isinstance(n.ops[0], ast.In) and isinstance(n.left, ast.Name) and props_load is None:
            try:
                props_load = _str_list(n.comparators[0], scp)
            except (KeyError, AssertionError, TypeError):
                pass
    urn = _own_method(_find_class(actions, "AddContactURNAction"), "get_row_model_fields")
    scheme_export = None
    for n in ast.walk(urn):
        if isinstance(n, ast.Compare) and isinstance(n.ops[0], ast.NotEq) and ast.unparse(n.left) == "self.scheme":
            scheme_export = _RESOLVE(n.comparators[0], urn)
    assert props_load and props_parse and media_parse and scheme_parse is not None and scheme_export is not None

    return (
        "-- lookup tables / sets: sorted\n"
        f"def acExportRowType : List (List Char × List Char) := {_pairs(sorted(export_rows))}\n"
        f"def acPassThrough : List (List Char) := {lean_str_list(sorted(pass_through))}\n"
        "def acExportKeys : List (List Char × List (List Char)) := ["
        + ", ".join(f"({lean_str(c)}, {lean_str_list(k)})" for c, k in sorted(export_keys)) + "]\n"
        f"def acParseDispatch : List (List Char × List Char) := {_pairs(sorted(dispatch))}\n"
        f"def acParsePrefix : List Char := {lean_str(prefix)}\n"
        f"def acParsePrefixCtor : List Char := {lean_str(prefix_ctor)}\n"
        f"def acParseReplaceNeedles : List (List Char) := {lean_str_list(replace_needles)}\n"
        f"def acNoActionRowTypes : List (List Char) := {lean_str_list(sorted(no_action))}\n"
        f"def acNodeDispatch : List (List Char × List Char) := {_pairs(sorted(node_dispatch))}\n"
        "-- media kinds: source order (order in which attachments are appended)\n"
        f"def acMediaKindsExport : List (List Char) := {lean_str_list(media_export)}\n"
        f"def acMediaKindsParse : List (List Char) := {lean_str_list(media_parse)}\n"
        f"def acMediaCut : Nat := {cut}\n"
        f"def acContactPropsLoad : List (List Char) := {lean_str_list(sorted(props_load))}\n"
        f"def acContactPropsParse : List (List Char) := {lean_str_list(sorted(props_parse))}\n"
        f"def acDefaultSchemeExport : List Char := {lean_str(scheme_export)}\n"
        f"def acDefaultSchemeParse : List Char := {lean_str(scheme_parse)}\n"
    )
