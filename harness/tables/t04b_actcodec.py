"""C04 action codec constants (rapidpro/models/actions.py, nodes.py, parsers/creation/flowparser.py):
action type ↔ row type tables of both directions, the row-model keys each action class writes,
attachment kinds and the cut `attachment[6:]`, contact properties, the default URN scheme.
Read with `ast` from /repo's working tree on every run; tied by `Props.C04.tables_agree_actcodec`."""
import ast

from ..extract_tables import _find_class, _find_func, _parse, lean_str, lean_str_list
from .t05_actions import action_map


def _pairs(d) -> str:
    return "[" + ", ".join(f"({lean_str(k)}, {lean_str(v)})" for k, v in d) + "]"


def _own_method(cls: ast.ClassDef, name: str):
    for m in cls.body:
        if isinstance(m, ast.FunctionDef) and m.name == name:
            return m
    return None


def _mro_method(mod, cls_name: str, name: str):
    """(defining class, FunctionDef) following single inheritance by name"""
    seen = set()
    while cls_name and cls_name not in seen:
        seen.add(cls_name)
        try:
            cls = _find_class(mod, cls_name)
        except KeyError:
            return None, None
        m = _own_method(cls, name)
        if m is not None:
            return cls, m
        bases = [b.id for b in cls.bases if isinstance(b, ast.Name)]
        cls_name = bases[0] if bases else None
    return None, None


def _ctor_type(mod, cls_name: str) -> str:
    """first argument of `super().__init__(…)` in the class's constructor: the action type
    (an f-string is rendered with `{}` for its holes)"""
    cls = _find_class(mod, cls_name)
    init = _own_method(cls, "__init__")
    assert init is not None, cls_name
    for n in ast.walk(init):
        if (isinstance(n, ast.Call) and isinstance(n.func, ast.Attribute) and n.func.attr == "__init__"
                and isinstance(n.func.value, ast.Call) and isinstance(n.func.value.func, ast.Name) and n.func.value.func.id == "super"):
            a = n.args[0]
            if isinstance(a, ast.Constant):
                return a.value
            if isinstance(a, ast.JoinedStr):
                return "".join(v.value if isinstance(v, ast.Constant) else "{}" for v in a.values)
            if isinstance(a, ast.Name):
                return "<" + a.id + ">"
    raise KeyError(f"super().__init__ in {cls_name}")


def _row_fields_of(mod, cls_name: str):
    """(row type word | 'self.type' | None, keys written) of `get_row_model_fields`, following
    `fields = super().get_row_model_fields(); fields["type"] = …`; None = returns NotImplementedError"""
    cls, m = _mro_method(mod, cls_name, "get_row_model_fields")
    if m is None:
        return None, []
    keys, ty = [], None
    for n in ast.walk(m):
        if isinstance(n, ast.Return) and isinstance(n.value, ast.Name) and n.value.id == "NotImplementedError":
            return None, []
        if isinstance(n, ast.Raise):
            return None, []
        if isinstance(n, ast.Dict):
            # only dicts whose keys are all string constants (row-model fragments)
            if all(isinstance(k, ast.Constant) and isinstance(k.value, str) for k in n.keys):
                for k, v in zip(n.keys, n.values):
                    if k.value == "type":
                        ty = v.value if isinstance(v, ast.Constant) else ast.unparse(v)
        if isinstance(n, ast.Assign) and isinstance(n.targets[0], ast.Subscript) and isinstance(n.targets[0].slice, ast.Constant):
            if n.targets[0].slice.value == "type":
                ty = n.value.value if isinstance(n.value, ast.Constant) else ast.unparse(n.value)
    # keys: top-level keys of the returned / updated dict literals (not of nested dicts), plus subscript assignments
    def top_dicts(fn):
        out = []
        for st in ast.walk(fn):
            if isinstance(st, (ast.Return, ast.Assign)) and isinstance(st.value, ast.Dict):
                out.append(st.value)
            if isinstance(st, ast.Call) and isinstance(st.func, ast.Attribute) and st.func.attr == "update":
                for a in st.args:
                    if isinstance(a, ast.Dict):
                        out.append(a)
        return out

    def collect(cn):
        c, fn = _mro_method(mod, cn, "get_row_model_fields")
        if fn is None:
            return
        # inherited part first
        for n in ast.walk(fn):
            if (isinstance(n, ast.Call) and isinstance(n.func, ast.Attribute) and n.func.attr == "get_row_model_fields"
                    and isinstance(n.func.value, ast.Call) and isinstance(n.func.value.func, ast.Name) and n.func.value.func.id == "super"):
                bases = [b.id for b in c.bases if isinstance(b, ast.Name)]
                collect(bases[0])
        for d in top_dicts(fn):
            for k in d.keys:
                if isinstance(k, ast.Constant) and isinstance(k.value, str) and k.value not in keys:
                    # amounts = {k: str(v) …} is a comprehension, not a Dict node; nested literals are not top-level
                    keys.append(k.value)
        for n in ast.walk(fn):
            if isinstance(n, ast.Assign) and isinstance(n.targets[0], ast.Subscript) and isinstance(n.targets[0].slice, ast.Constant) \
                    and isinstance(n.targets[0].value, ast.Name) and n.targets[0].value.id == "fields":
                if n.targets[0].slice.value not in keys:
                    keys.append(n.targets[0].slice.value)

    collect(cls_name)
    return ty, sorted(keys)


def _str_list(node):
    v = ast.literal_eval(node)
    assert isinstance(v, list) and all(isinstance(x, str) for x in v), v
    return v


def tables() -> str:
    actions = _parse("rapidpro/models/actions.py")
    nodes = _parse("rapidpro/models/nodes.py")
    fp = _parse("parsers/creation/flowparser.py")
    amap = action_map()

    export_rows, pass_through, export_keys = [], [], []
    seen_cls = set()
    for ty, cls in amap:
        row_ty, keys = _row_fields_of(actions, cls)
        if row_ty is None:
            pass_through.append(ty)
            continue
        export_rows.append((ty, ty if row_ty == "self.type" else row_ty))
        if cls not in seen_cls:
            seen_cls.add(cls)
            export_keys.append((cls, keys))

    # _get_row_action: the if / elif chain
    gra = _find_func(_find_class(fp, "FlowParser"), "_get_row_action")
    chain = gra.body[0]
    assert isinstance(chain, ast.If)
    dispatch, prefix, prefix_cls, no_action = [], None, None, None

    def built_class(body):
        for st in body:
            for n in ast.walk(st):
                if isinstance(n, ast.Call) and isinstance(n.func, ast.Name) and n.func.id.endswith("Action"):
                    return n.func.id
        return None

    node = chain
    while isinstance(node, ast.If):
        t = node.test
        if isinstance(t, ast.Compare) and isinstance(t.ops[0], ast.Eq) and ast.unparse(t.left) == "row.type":
            cls = built_class(node.body)
            assert cls, ast.unparse(t)
            dispatch.append((t.comparators[0].value, _ctor_type(actions, cls)))
        elif isinstance(t, ast.Call) and ast.unparse(t.func) == "row.type.startswith":
            prefix = t.args[0].value
            prefix_cls = built_class(node.body)
        elif isinstance(t, ast.Compare) and isinstance(t.ops[0], ast.In) and ast.unparse(t.left) == "row.type":
            no_action = _str_list(t.comparators[0])
            assert isinstance(node.body[0], ast.Return) and isinstance(node.body[0].value, ast.Constant) and node.body[0].value.value is None
        else:
            raise KeyError("unexpected test in _get_row_action: " + ast.unparse(t))
        node = node.orelse[0] if len(node.orelse) == 1 else None
    assert prefix is not None and no_action is not None and prefix_cls is not None
    prefix_ctor = _ctor_type(actions, prefix_cls)  # "set_contact_{}"
    replace_needles = [
        n.args[0].value for n in ast.walk(gra)
        if isinstance(n, ast.Call) and isinstance(n.func, ast.Attribute) and n.func.attr == "replace" and ast.unparse(n.func.value) == "row.type"
    ]
    props_parse = None
    for n in ast.walk(gra):
        if isinstance(n, ast.Compare) and isinstance(n.ops[0], ast.NotIn) and ast.unparse(n.left) == "property":
            props_parse = _str_list(n.comparators[0])
    media_parse = None
    for n in ast.walk(gra):
        if isinstance(n, ast.Call) and isinstance(n.func, ast.Name) and n.func.id == "zip":
            media_parse = _str_list(n.args[0])
            cols = [ast.unparse(e) for e in n.args[1].elts]
            assert cols == ["row." + m for m in media_parse], cols
    scheme_parse = None
    for n in ast.walk(gra):
        if isinstance(n, ast.BoolOp) and isinstance(n.op, ast.Or) and ast.unparse(n.values[0]) == "row.urn_scheme":
            scheme_parse = n.values[1].value

    # _get_row_node: row type → node class → the action class its constructor creates
    grn = _find_func(_find_class(fp, "FlowParser"), "_get_row_node")
    node_dispatch = []
    for n in ast.walk(grn):
        if isinstance(n, ast.If) and isinstance(n.test, ast.Compare) and isinstance(n.test.ops[0], ast.In) and ast.unparse(n.test.left) == "row.type":
            types = _str_list(n.test.comparators[0])
            for st in n.body:
                for c in ast.walk(st):
                    if isinstance(c, ast.Return) and isinstance(c.value, ast.Call) and isinstance(c.value.func, ast.Name) and c.value.func.id.endswith("Node"):
                        ncls = _find_class(nodes, c.value.func.id)
                        acls = None
                        init = _own_method(ncls, "__init__")
                        for x in ast.walk(init):
                            if isinstance(x, ast.Call) and isinstance(x.func, ast.Name) and x.func.id.endswith("Action"):
                                acls = x.func.id
                        if acls:
                            for t in types:
                                node_dispatch.append((t, _ctor_type(actions, acls)))

    # send_msg export: media kinds and the cut
    sm = _own_method(_find_class(actions, "SendMessageAction"), "get_row_model_fields")
    media_export, cut = None, None
    for n in ast.walk(sm):
        if isinstance(n, ast.For) and isinstance(n.iter, ast.List):
            media_export = _str_list(n.iter)
        if isinstance(n, ast.Subscript) and isinstance(n.slice, ast.Slice) and ast.unparse(n.value) == "attachment":
            assert n.slice.upper is None and n.slice.step is None
            cut = n.slice.lower.value
    assert media_export and isinstance(cut, int)

    # contact properties accepted when loading a set_contact_* action
    props_load = None
    scp = _own_method(_find_class(actions, "SetContactPropertyAction"), "_assign_fields_from_dict")
    for n in ast.walk(scp):
        if isinstance(n, ast.Compare) and isinstance(n.ops[0], ast.In) and ast.unparse(n.left) == "property" and isinstance(n.comparators[0], ast.List):
            props_load = _str_list(n.comparators[0])
    urn = _own_method(_find_class(actions, "AddContactURNAction"), "get_row_model_fields")
    scheme_export = None
    for n in ast.walk(urn):
        if isinstance(n, ast.Compare) and isinstance(n.ops[0], ast.NotEq) and ast.unparse(n.left) == "self.scheme":
            scheme_export = n.comparators[0].value
    assert props_load and props_parse and media_parse and scheme_parse is not None and scheme_export is not None

    return (
        f"def acExportRowType : List (List Char × List Char) := {_pairs(export_rows)}\n"
        f"def acPassThrough : List (List Char) := {lean_str_list(pass_through)}\n"
        "def acExportKeys : List (List Char × List (List Char)) := ["
        + ", ".join(f"({lean_str(c)}, {lean_str_list(k)})" for c, k in export_keys) + "]\n"
        f"def acParseDispatch : List (List Char × List Char) := {_pairs(dispatch)}\n"
        f"def acParsePrefix : List Char := {lean_str(prefix)}\n"
        f"def acParsePrefixCtor : List Char := {lean_str(prefix_ctor)}\n"
        f"def acParseReplaceNeedles : List (List Char) := {lean_str_list(replace_needles)}\n"
        f"def acNoActionRowTypes : List (List Char) := {lean_str_list(no_action)}\n"
        f"def acNodeDispatch : List (List Char × List Char) := {_pairs(node_dispatch)}\n"
        f"def acMediaKindsExport : List (List Char) := {lean_str_list(media_export)}\n"
        f"def acMediaKindsParse : List (List Char) := {lean_str_list(media_parse)}\n"
        f"def acMediaCut : Nat := {cut}\n"
        f"def acContactPropsLoad : List (List Char) := {lean_str_list(props_load)}\n"
        f"def acContactPropsParse : List (List Char) := {lean_str_list(props_parse)}\n"
        f"def acDefaultSchemeExport : List Char := {lean_str(scheme_export)}\n"
        f"def acDefaultSchemeParse : List Char := {lean_str(scheme_parse)}\n"
    )
