"""C15 constants: value/category/field-key limits, HTTP method list, `block_end_map`, the
ShutdownHandler threshold and exit status, and the shape facts of `cli.create_flows`
(output opened only after `converters.create_flows` returned; `None` passed as its
`output_file`).  Literals only, read with `ast` from /repo's working tree on every run."""
import ast
import logging

from ..extract_tables import _find_class, _find_func, _parse, lean_str, lean_str_list, lean_pairs


def _gt_len_limits(func: ast.FunctionDef):
    """integer constants of tests `len(x) > N` inside func"""
    out = []
    for n in ast.walk(func):
        if (isinstance(n, ast.Compare) and len(n.ops) == 1 and isinstance(n.ops[0], ast.Gt)
                and isinstance(n.left, ast.Call) and isinstance(n.left.func, ast.Name) and n.left.func.id == "len"
                and isinstance(n.comparators[0], ast.Constant) and isinstance(n.comparators[0].value, int)):
            out.append(n.comparators[0].value)
    return out


def _one(xs, what):
    assert len(xs) == 1, (what, xs)
    return xs[0]


def _bool(b) -> str:
    return "true" if b else "false"


def _is_call_to(node, dotted: str) -> bool:
    if not isinstance(node, ast.Call):
        return False
    f = node.func
    parts = []
    while isinstance(f, ast.Attribute):
        parts.append(f.attr)
        f = f.value
    if isinstance(f, ast.Name):
        parts.append(f.id)
    return ".".join(reversed(parts)) == dotted


def tables() -> str:
    actions = _parse("rapidpro/models/actions.py")
    field_limit = _one(_gt_len_limits(_find_func(_find_class(actions, "SetContactFieldAction"), "__init__")), "field value limit")
    result_limit = _one(_gt_len_limits(_find_func(_find_class(actions, "SetRunResultAction"), "__init__")), "run result limit")
    # SendMessageAction.__init__: `if not text: raise RapidProActionError`
    sm = _find_func(_find_class(actions, "SendMessageAction"), "__init__")
    empty_text_checked = any(
        isinstance(n, ast.If) and isinstance(n.test, ast.UnaryOp) and isinstance(n.test.op, ast.Not)
        and isinstance(n.test.operand, ast.Name) and n.test.operand.id == "text"
        and any(isinstance(b, ast.Raise) for b in n.body)
        for n in ast.walk(sm)
    )

    routers = _parse("rapidpro/models/routers.py")
    cat_limit = _one(_gt_len_limits(_find_func(_find_class(routers, "RouterCategory"), "__init__")), "category name limit")

    gk = _find_func(_parse("rapidpro/models/common.py"), "generate_field_key")
    key_limit = _one([
        n.comparators[0].value for n in ast.walk(gk)
        if isinstance(n, ast.Compare) and isinstance(n.ops[0], ast.LtE) and isinstance(n.comparators[0], ast.Constant)
    ], "field key limit")

    nodes = _parse("rapidpro/models/nodes.py")
    wh = _find_func(_find_class(nodes, "CallWebhookNode"), "__init__")
    methods, default_method = None, None
    for n in ast.walk(wh):
        if isinstance(n, ast.Assign) and isinstance(n.targets[0], ast.Name):
            if n.targets[0].id == "http_methods":
                methods = ast.literal_eval(n.value)
            if n.targets[0].id == "method" and isinstance(n.value, ast.BoolOp) and isinstance(n.value.op, ast.Or):
                default_method = n.value.values[-1].value
    assert isinstance(methods, list) and all(isinstance(m, str) for m in methods), methods
    assert isinstance(default_method, str)

    fp = _parse("parsers/creation/flowparser.py")
    ieb = _find_func(_find_class(fp, "FlowParser"), "_is_end_of_block")
    bem = None
    for n in ast.walk(ieb):
        if isinstance(n, ast.Assign) and isinstance(n.targets[0], ast.Name) and n.targets[0].id == "block_end_map":
            bem = ast.literal_eval(n.value)
    assert isinstance(bem, dict), bem
    root_names = [
        n.comparators[0].value for n in ast.walk(ieb)
        if isinstance(n, ast.Compare) and isinstance(n.left, ast.Name) and n.left.id == "block_type"
        and isinstance(n.ops[0], ast.Eq) and isinstance(n.comparators[0], ast.Constant)
    ]
    root_name = _one(root_names, "root block name")
    # the block types passed by _parse_block for begin_for / begin_block rows
    pb = _find_func(_find_class(fp, "FlowParser"), "_parse_block")
    opened = {}
    for n in ast.walk(pb):
        if isinstance(n, ast.If) and isinstance(n.test, ast.Compare) and isinstance(n.test.ops[0], ast.Eq) \
                and isinstance(n.test.comparators[0], ast.Constant) and n.test.comparators[0].value in ("begin_for", "begin_block"):
            for c in ast.walk(ast.Module(body=n.body, type_ignores=[])):
                if isinstance(c, ast.Call) and isinstance(c.func, ast.Attribute) and c.func.attr == "_parse_block" and len(c.args) >= 2 \
                        and isinstance(c.args[1], ast.Constant):
                    opened.setdefault(n.test.comparators[0].value, set()).add(c.args[1].value)
    assert set(opened) == {"begin_for", "begin_block"} and all(len(v) == 1 for v in opened.values()), opened
    open_map = sorted((k, next(iter(v))) for k, v in opened.items())

    # ShutdownHandler.emit: `if record.levelno >= logging.CRITICAL: print(..., file=sys.stderr); sys.exit(1)`
    lg = _parse("logger/logger.py")
    emit = _find_func(_find_class(lg, "ShutdownHandler"), "emit")
    level_name, level_op, exit_codes, prints_stderr = None, None, [], False
    for n in ast.walk(emit):
        if isinstance(n, ast.If) and isinstance(n.test, ast.Compare) and isinstance(n.test.left, ast.Attribute) \
                and n.test.left.attr == "levelno":
            level_op = type(n.test.ops[0]).__name__
            c = n.test.comparators[0]
            assert isinstance(c, ast.Attribute) and isinstance(c.value, ast.Name) and c.value.id == "logging", ast.dump(c)
            level_name = c.attr
            for b in n.body:
                for x in ast.walk(b):
                    if _is_call_to(x, "sys.exit"):
                        exit_codes.append(ast.literal_eval(x.args[0]) if x.args else 0)
                    if isinstance(x, ast.Call) and isinstance(x.func, ast.Name) and x.func.id == "print":
                        prints_stderr = any(k.arg == "file" and isinstance(k.value, ast.Attribute) and k.value.attr == "stderr" for k in x.keywords)
    assert level_name is not None and level_op is not None
    threshold = getattr(logging, level_name)
    assert isinstance(threshold, int)
    exit_code = _one(exit_codes, "sys.exit in ShutdownHandler")
    # the handler class actually installed on the main logger
    init = _find_func(lg, "initialize_main_logger")
    installed = [
        n.value.func.id for n in ast.walk(init)
        if isinstance(n, ast.Assign) and isinstance(n.value, ast.Call) and isinstance(n.value.func, ast.Name) and n.value.func.id.endswith("Handler")
    ]
    handler_installed = installed == ["ShutdownHandler"] and any(
        isinstance(n, ast.Call) and isinstance(n.func, ast.Attribute) and n.func.attr == "addHandler" for n in ast.walk(init)
    )

    # cli.create_flows: statement k calls converters.create_flows(<input>, None, …); a later statement opens args.output
    cli = _parse("cli.py")
    cf = _find_func(cli, "create_flows")
    compile_idx, open_idx, second_arg_none, has_try = None, None, False, False
    for i, st in enumerate(cf.body):
        for x in ast.walk(st):
            if _is_call_to(x, "converters.create_flows") and compile_idx is None:
                compile_idx = i
                second_arg_none = len(x.args) >= 2 and isinstance(x.args[1], ast.Constant) and x.args[1].value is None \
                    and not any(k.arg == "output_file" for k in x.keywords)
            if isinstance(x, ast.Call) and isinstance(x.func, ast.Name) and x.func.id == "open" and open_idx is None:
                open_idx = i
            if isinstance(x, (ast.Try,)):
                has_try = True
    main = _find_func(cli, "main")
    has_try = has_try or any(isinstance(x, ast.Try) for x in ast.walk(main))
    open_after = compile_idx is not None and open_idx is not None and compile_idx < open_idx
    logger_initialised = any(
        isinstance(n, ast.Assign) and _is_call_to(n.value, "initialize_main_logger") for n in cli.body
    )

    return (
        f"def cliMaxFieldValueLen : Nat := {field_limit}\n"
        f"def cliMaxRunResultLen : Nat := {result_limit}\n"
        f"def cliMaxCategoryLen : Nat := {cat_limit}\n"
        f"def cliMaxFieldKeyLen : Nat := {key_limit}\n"
        f"def cliEmptyTextChecked : Bool := {_bool(empty_text_checked)}\n"
        f"def cliHttpMethods : List (List Char) := {lean_str_list(methods)}\n"
        f"def cliDefaultHttpMethod : List Char := {lean_str(default_method)}\n"
        f"def cliBlockEndMap : List (List Char × List Char) := {lean_pairs(sorted(bem.items()))}\n"
        f"def cliBlockOpenMap : List (List Char × List Char) := {lean_pairs(open_map)}\n"
        f"def cliRootBlockName : List Char := {lean_str(root_name)}\n"
        f"def cliShutdownLevelName : List Char := {lean_str(level_name)}\n"
        f"def cliShutdownLevelOp : List Char := {lean_str(level_op)}\n"
        f"def cliShutdownLevel : Nat := {threshold}\n"
        f"def cliShutdownExit : Nat := {exit_code}\n"
        f"def cliShutdownPrintsStderr : Bool := {_bool(prints_stderr)}\n"
        f"def cliShutdownHandlerInstalled : Bool := {_bool(handler_installed and logger_initialised)}\n"
        f"def cliOutputOpenedAfterCompile : Bool := {_bool(open_after)}\n"
        f"def cliConverterOutputArgIsNone : Bool := {_bool(second_arg_none)}\n"
        f"def cliHasTryExcept : Bool := {_bool(has_try)}\n"
    )
