"""C15 constants: value / category / field-key limits, HTTP method list, block terminator and opener
tables, the ShutdownHandler threshold and exit status, and the shape facts of `cli.create_flows`.

HOW IT READS (DESIGN §2.5a)
* length limits (contact field value, run result, category name, field key): BEHAVIOUR — the public
  constructor / function is called with texts of growing length; the limit is the longest accepted
  one (`len(x) > 640`, `>= 641`, a hoisted `MAX_…` constant all give 640).
* empty send_msg text refused: BEHAVIOUR (`SendMessageAction(text="")` raises, `"x"` does not).
* HTTP methods, default method: BEHAVIOUR — `CallWebhookNode(result_name=…, url=…, method=w)` for
  every candidate word; the default is the method of the action built when none is given.  A SET:
  emitted SORTED, compared up to order.
* block terminator table, root block name, block opener table: SOURCE STRUCTURE located BY CONTENT in
  whatever method of `FlowParser` holds it — the `<row>.type in T` test whose `T` resolves to a dict
  (literal in the function, local, or hoisted to module / class level), the `<name> == <constant>`
  next to it, and the `if <row>.type == "begin_…":` branches that pass one of the table's block types
  as a constant argument.  Lookup tables with distinct keys: SORTED by key, compared up to order.
* ShutdownHandler: BEHAVIOUR — an instance writing to a scratch file is fed one record per level
  0…60; the levels at which it exits, the exit status and whether it wrote to stderr are observed.
  Installed: `initialize_main_logger(scratch)` is run against a saved / restored `main` logger and the
  handlers it added are inspected.
* `cli.py` (public entry points `create_flows`, `main`; the module cannot be imported without side
  effects): SOURCE STRUCTURE — output opened only after `converters.create_flows` returned, `None`
  passed as its `output_file`, no try/except around it, the logger initialised at import.
"""
import ast
import contextlib
import io
import logging
import os
import shutil
import tempfile

from .. import t1lib
from ..extract_tables import _find_class, _find_func, _parse, lean_pairs, lean_str, lean_str_list

PROBE_MAX = 4096
HTTP_WORDS = ["GET", "HEAD", "POST", "PUT", "DELETE", "CONNECT", "OPTIONS", "TRACE", "PATCH", "LINK", "UNLINK", "PURGE"]


def _bool(b) -> str:
    return "true" if b else "false"


def _is_call_to(node, dotted: str) -> bool:
    return isinstance(node, ast.Call) and t1lib.dotted(node.func) == dotted


def length_limit(accepts, what: str) -> int:
    """the longest length `accepts` takes, provided acceptance is downward closed up to PROBE_MAX"""
    ok = [accepts(n) for n in range(PROBE_MAX + 1)]
    assert ok[1] and not ok[PROBE_MAX], (what, "no limit between 1 and", PROBE_MAX)
    limit = max(n for n in range(PROBE_MAX + 1) if ok[n])
    assert all(ok[n] for n in range(1, limit + 1)) and not any(ok[n] for n in range(limit + 1, PROBE_MAX + 1)), (what, "not a threshold")
    return limit


def _accepts(fn, exc):
    def run(n):
        try:
            fn("a" * n)
        except exc:
            return False
        return True
    return run


def probe_limits():
    actions = t1lib.load("rpft.rapidpro.models.actions")
    routers = t1lib.load("rpft.rapidpro.models.routers")
    common = t1lib.load("rpft.rapidpro.models.common")
    from rpft.rapidpro.models.exceptions import RapidProActionError, RapidProRouterError

    field_limit = length_limit(_accepts(lambda v: actions.SetContactFieldAction("name", v), RapidProActionError), "field value limit")
    result_limit = length_limit(_accepts(lambda v: actions.SetRunResultAction("name", v), RapidProActionError), "run result limit")
    cat_limit = length_limit(_accepts(lambda v: routers.RouterCategory(v), RapidProRouterError), "category name limit")
    key_limit = length_limit(_accepts(common.generate_field_key, RapidProActionError), "field key limit")

    def send(text):
        try:
            actions.SendMessageAction(text=text)
        except RapidProActionError:
            return False
        return True

    empty_text_checked = send("x") and not send("")
    return field_limit, result_limit, cat_limit, key_limit, empty_text_checked


def probe_http():
    nodes = t1lib.load("rpft.rapidpro.models.nodes")
    words = list(HTTP_WORDS) + [w.lower() for w in HTTP_WORDS]
    words += [w for w in t1lib.str_constants(_parse("rapidpro/models/nodes.py")) if w not in words and w]
    ok = []
    for w in words:
        try:
            nodes.CallWebhookNode(result_name="r", url="http://t1.probe/", method=w)
        except Exception:  # noqa: BLE001
            continue
        ok.append(w)
    n = nodes.CallWebhookNode(result_name="r", url="http://t1.probe/")
    methods = [a.method for a in n.actions if hasattr(a, "method")]
    default_method = t1lib.one(methods, "webhook action of a node built without a method")
    assert ok and isinstance(default_method, str)
    return sorted(ok), default_method


def block_tables():
    fp_mod = t1lib.load("rpft.parsers.creation.flowparser")
    cls = _find_class(_parse("parsers/creation/flowparser.py"), "FlowParser")
    resolve = t1lib.Resolver(fp_mod.FlowParser, fp_mod)

    def is_row_type(n):
        return isinstance(n, ast.Attribute) and n.attr == "type" and isinstance(n.value, ast.Name)

    # `<row>.type in T` with T a dict  (block terminators), and the function it sits in
    found = []
    for fn in t1lib.functions(cls):
        for n in t1lib.find_all(fn, lambda n: isinstance(n, ast.Compare) and len(n.ops) == 1 and isinstance(n.ops[0], ast.In) and is_row_type(n.left)):
            try:
                v = resolve(n.comparators[0], fn)
            except KeyError:
                continue
            if isinstance(v, dict) and v and all(isinstance(k, str) and isinstance(x, str) for k, x in v.items()):
                found.append((fn, v))
    def root_names_of(f):
        return {
            n.comparators[0].value for n in ast.walk(f)
            if isinstance(n, ast.Compare) and len(n.ops) == 1 and isinstance(n.ops[0], ast.Eq) and isinstance(n.left, ast.Name)
            and isinstance(n.comparators[0], ast.Constant) and isinstance(n.comparators[0].value, str)
        }

    if len(found) > 1:
        # other dispatch tables keyed by the row type may exist (openers, special rows): the TERMINATOR table is the one
        # consulted by the function that also compares the current block type with the root block's name
        found = [(f, v) for f, v in found if len(root_names_of(f)) == 1]
    fn, bem = t1lib.one(found, "test `<row>.type in <dict>` in FlowParser")
    root_names = root_names_of(fn)
    root_name = t1lib.one(root_names, "root block name")
    # openers: `if <row>.type == "w": … f(…, "<block type>", …)` with a block type of the terminator table
    block_types = set(bem.values())
    opened = {}
    for n in t1lib.find_all(cls, lambda n: isinstance(n, ast.If)):
        t = n.test
        if isinstance(t, ast.Compare) and len(t.ops) == 1 and isinstance(t.ops[0], ast.Eq) and is_row_type(t.left) \
                and isinstance(t.comparators[0], ast.Constant):
            for c in ast.walk(ast.Module(body=n.body, type_ignores=[])):
                if isinstance(c, ast.Call):
                    for a in list(c.args) + [k.value for k in c.keywords]:
                        if isinstance(a, ast.Constant) and a.value in block_types:
                            opened.setdefault(t.comparators[0].value, set()).add(a.value)
    if not (opened and all(len(v) == 1 for v in opened.values())) or len(opened) != len(block_types):
        # the openers are not written as `if <row>.type == "w": parse_block(…, "<type>")` (e.g. a table of openers,
        # helper methods): read them from BEHAVIOUR — a row type w opens a block of type b iff the two-row sheet
        # [w, terminator of b] compiles and [w, terminator of another type] does not
        opened = _probe_openers(bem, t1lib.str_constants(_parse("parsers/creation/flowparser.py")))
    assert opened and all(len(v) == 1 for v in opened.values()), opened
    open_map = sorted((k, next(iter(v))) for k, v in opened.items())
    return sorted(bem.items()), root_name, open_map


def _probe_openers(bem, candidates):
    from harness.flows import compile_flow_sheet

    headers = ["row_id", "type", "from", "message_text", "loop_variable"]
    terms = sorted(bem.items())
    opened = {}
    for w in sorted({c for c in candidates if isinstance(c, str) and c and c not in bem and len(c) < 40}):
        ok = set()
        for t, b in terms:
            rows = [{"row_id": "b1", "type": w, "from": "start", "message_text": "a;b", "loop_variable": "v"},
                    {"row_id": "m1", "type": "send_message", "from": "", "message_text": "hi"},
                    {"row_id": "", "type": t, "from": "", "message_text": ""}]
            try:
                if compile_flow_sheet(headers, rows).ok:
                    ok.add(b)
            except BaseException:  # noqa: BLE001
                pass
        if len(ok) == 1:
            opened[w] = ok
    return opened


def probe_shutdown():
    lg = t1lib.load("rpft.logger.logger")
    tmp = tempfile.mkdtemp(prefix="t1shutdown")
    try:
        h = lg.ShutdownHandler(os.path.join(tmp, "probe.log"), "w")
        h.setFormatter(logging.Formatter("%(message)s"))
        exits, codes, stderr_on_exit, stderr_quiet = [], set(), True, True
        for level in range(0, 61):
            rec = logging.LogRecord("t1", level, __file__, 0, "t1 probe %d", (level,), None)
            rec.processing_stack = ""
            rec.context_variables = {}
            err = io.StringIO()
            try:
                with contextlib.redirect_stderr(err):
                    h.emit(rec)
            except SystemExit as e:
                exits.append(level)
                codes.add(e.code if isinstance(e.code, int) else (0 if e.code is None else 1))
                stderr_on_exit = stderr_on_exit and ("t1 probe %d" % level) in err.getvalue()
            else:
                stderr_quiet = stderr_quiet and err.getvalue() == ""
        h.close()
        assert exits, "ShutdownHandler never exits"
        threshold = min(exits)
        op = "GtE" if exits == list(range(threshold, 61)) else "other"
        exit_code = t1lib.one(codes, "exit status of ShutdownHandler")
        # the handler installed on the main logger by initialize_main_logger
        logger = logging.getLogger(getattr(lg, "LOGGER_NAME", "main"))
        saved = (logger.handlers[:], logger.filters[:], logger.level, logger.propagate, logger.disabled)
        try:
            lg.initialize_main_logger(os.path.join(tmp, "errors.log"))
            main_logger = lg.get_logger()
            added = [x for x in main_logger.handlers if x not in saved[0]]
            installed = main_logger is logger and len(added) == 1 and all(isinstance(x, lg.ShutdownHandler) for x in added)
            for x in added:
                x.close()
        finally:
            logger.handlers[:], logger.filters[:] = saved[0], saved[1]
            logger.setLevel(saved[2])
            logger.propagate, logger.disabled = saved[3], saved[4]
    finally:
        shutil.rmtree(tmp, ignore_errors=True)
    return logging.getLevelName(threshold), op, threshold, exit_code, stderr_on_exit, installed


def cli_shape():
    # cli.create_flows: statement k calls converters.create_flows(<input>, None, …); a later statement opens args.output
    cli = _parse("cli.py")
    cf = _find_func(cli, "create_flows")
    compile_idx, open_idx, second_arg_none, has_try = None, None, False, False
    for i, st in enumerate(cf.body):
        for x in ast.walk(st):
            if _is_call_to(x, "converters.create_flows") and compile_idx is None:
                compile_idx = i
                second_arg_none = len(x.args) >= 2 and isinstance(x.args[1], ast.Constant) and x.args[1].value is None \
                    and not any(k.arg == "output_file" for k in x.keywords)
            if isinstance(x, ast.Call) and isinstance(x.func, ast.Name) and x.func.id == "open" and open_idx is None:
                open_idx = i
            if isinstance(x, (ast.Try,)):
                has_try = True
    main = _find_func(cli, "main")
    has_try = has_try or any(isinstance(x, ast.Try) for x in ast.walk(main))
    open_after = compile_idx is not None and open_idx is not None and compile_idx < open_idx
    # the logger is initialised when the module is imported (a module-level statement calls it)
    logger_initialised = any(
        any(isinstance(x, ast.Call) and (t1lib.dotted(x.func) or "").split(".")[-1] == "initialize_main_logger" for x in ast.walk(st))
        for st in cli.body if not isinstance(st, (ast.FunctionDef, ast.ClassDef))
    )
    return open_after, second_arg_none, has_try, logger_initialised


def tables() -> str:
    field_limit, result_limit, cat_limit, key_limit, empty_text_checked = probe_limits()
    methods, default_method = probe_http()
    bem, root_name, open_map = block_tables()
    level_name, level_op, threshold, exit_code, prints_stderr, handler_installed = probe_shutdown()
    open_after, second_arg_none, has_try, logger_initialised = cli_shape()
    return (
        "-- limits: behaviour probes (longest accepted length)\n"
        f"def cliMaxFieldValueLen : Nat := {field_limit}\n"
        f"def cliMaxRunResultLen : Nat := {result_limit}\n"
        f"def cliMaxCategoryLen : Nat := {cat_limit}\n"
        f"def cliMaxFieldKeyLen : Nat := {key_limit}\n"
        f"def cliEmptyTextChecked : Bool := {_bool(empty_text_checked)}\n"
        "-- a set (membership test): sorted\n"
        f"def cliHttpMethods : List (List Char) := {lean_str_list(methods)}\n"
        f"def cliDefaultHttpMethod : List Char := {lean_str(default_method)}\n"
        "-- lookup tables with distinct keys: sorted by key\n"
        f"def cliBlockEndMap : List (List Char × List Char) := {lean_pairs(bem)}\n"
        f"def cliBlockOpenMap : List (List Char × List Char) := {lean_pairs(open_map)}\n"
        f"def cliRootBlockName : List Char := {lean_str(root_name)}\n"
        f"def cliShutdownLevelName : List Char := {lean_str(level_name)}\n"
        f"def cliShutdownLevelOp : List Char := {lean_str(level_op)}\n"
        f"def cliShutdownLevel : Nat := {threshold}\n"
        f"def cliShutdownExit : Nat := {exit_code}\n"
        f"def cliShutdownPrintsStderr : Bool := {_bool(prints_stderr)}\n"
        f"def cliShutdownHandlerInstalled : Bool := {_bool(handler_installed and logger_initialised)}\n"
        f"def cliOutputOpenedAfterCompile : Bool := {_bool(open_after)}\n"
        f"def cliConverterOutputArgIsNone : Bool := {_bool(second_arg_none)}\n"
        f"def cliHasTryExcept : Bool := {_bool(has_try)}\n"
    )
