"""C15 helpers, part 2: an independent reading of a workbook into the abstract `Workbook` of
lean/Rpft/Cli.lean (the input of driver op `cli.predict`), plus the per-row evaluation
status used to choose injection sites.  Nothing here calls the repo's parsers.
"""
from __future__ import annotations

import ast
import re

FALSE_WORDS = {"false", "0", "no", "off", "f", "n"}
SPECIAL_CONDS = {"complete", "completed", "expired", "success", "failure", "no response"}
BLOCK_TYPES = {"begin_for", "begin_block", "end_for", "end_block"}
# the harness's own reading of which column carries the main argument of a row when the sheet spells the
# columns out instead of using `message_text` (types without an entry have no main argument)
MAINARG_FIELD = {
    "send_message": "mainarg_message_text", "save_value": "mainarg_value", "save_flow_result": "mainarg_value",
    "add_contact_urn": "mainarg_value", "set_contact_channel": "mainarg_value", "set_contact_language": "mainarg_value",
    "set_contact_name": "mainarg_value", "set_contact_status": "mainarg_value", "set_contact_timezone": "mainarg_value",
    "add_to_group": "mainarg_groups", "remove_from_group": "mainarg_groups", "split_by_group": "mainarg_groups",
    "go_to": "mainarg_destination_row_ids", "call_webhook": "webhook.body", "transfer_airtime": "mainarg_dict",
    "start_new_flow": "mainarg_flow_name", "insert_as_block": "mainarg_flow_name", "split_by_value": "mainarg_expression",
    "begin_for": "mainarg_iterlist",
}
# rows whose edges are attached at once (`_add_row_edge` → `add_exit` on the source); no_op / begin_… rows only
# remember their parent edges
OUTCOME_SRC = {"start_new_flow": "flow", "call_webhook": "hook", "transfer_airtime": "hook"}
NOT_PLAIN = BLOCK_TYPES | {"go_to", "hard_exit", "loose_exit", "no_op", "insert_as_block"}


def has_message_text(sh) -> bool:
    return "message_text" in sh["h"]


def with_message_text(sh):
    """a flow sheet that spells the main-argument columns out, re-read as if it had a `message_text` column
    (so that the rest of this module reads one shape); other sheets unchanged"""
    if has_message_text(sh) or not any(h.startswith("mainarg_") or h == "webhook.body" for h in sh["h"]):
        return sh
    rows = []
    for r in sh["rows"]:
        q = dict(r)
        f = MAINARG_FIELD.get(q.get("type", "").strip())
        q["message_text"] = q.get(f, "") if f else ""
        rows.append(q)
    return {"h": list(sh["h"]), "rows": rows, "mt": False}


def split1(s: str) -> list[str]:
    """one-level list cell: pieces between ';' (or '|'), without the final empty piece"""
    if s is None or s == "":
        return []
    sep = "|" if "|" in s else ";"
    ps = [p.strip() for p in s.split(sep)]
    if len(ps) > 1 and ps[-1] == "":
        ps.pop()
    return ps


def split2(s: str):
    """two-level cell as the cell parser reads it: str | list of (str | list of str)"""
    s = s or ""
    if "|" in s:
        ps = s.split("|")
        if ps[-1].strip() == "":
            ps.pop()
        return [(_inner(p)) for p in ps]
    if ";" in s:
        return _inner(s)
    return s.strip()


def _inner(p):
    if ";" in p:
        xs = [x.strip() for x in p.split(";")]
        if len(xs) > 1 and xs[-1] == "":
            xs.pop()
        return xs
    return p.strip()


def as_list(v):
    """a `list` field fed from a cell: a plain string becomes a one-element list; blank → ['']"""
    if isinstance(v, list):
        return v
    return [v]


def include_if(cell: str):
    """True / False for literals, None when templated"""
    c = (cell or "").strip()
    if "{" in c:
        return None
    if c.lower() in FALSE_WORDS:
        return False
    return True


def field_names(headers):
    out = []
    for h in headers:
        n = re.split(r"[:.=]", h, maxsplit=1)[0].strip()
        if n and n not in out:
            out.append(n)
    return out


def edge_lists(row):
    """the edges of a row as the row parser builds them: one per position of the longest edge column"""
    cols = {k: split1(row.get(k, "")) if (";" in row.get(k, "") or "|" in row.get(k, "")) else [row.get(k, "").strip()]
            for k in ("from", "condition", "condition_var", "condition_type", "condition_name")}
    n = max(len(v) for v in cols.values())
    edges = []
    for i in range(n):
        edges.append({k: (v[i] if i < len(v) else "") for k, v in cols.items()})
    # trivial edges after the first are dropped (blank padding)
    return [e for i, e in enumerate(edges) if i == 0 or any(e.values())]


def row_status(rows):
    """per row: depth of nesting and whether the row is certainly evaluated (every enclosing
    begin row and the row itself have a literal, true include_if; enclosing loops iterate over a
    literal, non-empty list) — `None` when it depends on templates."""
    out = []
    stack = []  # (certain: True/False/None)
    for r in rows:
        t = r.get("type", "")
        scope = True
        for s in stack:
            scope = _and(scope, s)
        if t in ("end_for", "end_block"):
            out.append({"depth": len(stack), "eval": False, "scope": scope})
            if stack:
                stack.pop()
            continue
        inc = include_if(r.get("include_if", ""))
        ev = _and(scope, inc)
        out.append({"depth": len(stack), "eval": ev, "scope": scope})
        if t == "begin_for":
            it = r.get("message_text", "")
            body = ev
            if "{" in it:
                body = _and(body, None)
            elif it.strip() == "":
                body = False
            stack.append(body)
        elif t == "begin_block":
            stack.append(ev)
    return out


def _and(a, b):
    if a is False or b is False:
        return False
    if a is None or b is None:
        return None
    return True


# ------------------------------------------------------------------ rows → model rows


def _edge_probes(e, src_of):
    """one edge as `_add_row_edge` treats it: the source is looked up, then `add_exit` on it"""
    src = src_of(e["from"])
    more = bool(e["condition_var"] or e["condition_type"] or e["condition_name"])
    return [{"p": "from", "v": e["from"]}, {"p": "outcome", "src": src, "v": e["condition"], "more": more}]


def probes_of_row(row, ctx, src_of=lambda _id: ""):
    """detectors of one row in the order the code reaches them (Probe0 / insert)"""
    t = row.get("type", "").strip()
    edges = edge_lists(row)
    starting = len(edges) == 1 and edges[0]["from"] == "start"
    from_probes = [{"p": "from", "v": e["from"]} for e in edges]
    now_probes = [p for e in edges for p in _edge_probes(e, src_of)]
    if t == "begin_for":
        return [{"p": "loopvar", "v": split1(row.get("loop_variable", ""))}] + ([] if starting else from_probes)
    if t == "begin_block":
        return [] if starting else from_probes
    if t in ("end_for", "end_block"):
        return []
    if t == "go_to":
        dests = split1(row.get("message_text", ""))
        d = dests * len(edges) if len(dests) == 1 else dests
        ps = [{"p": "arity", "e": len(edges), "d": len(dests)}]
        for e, dst in zip(edges, d):
            ps += [{"p": "target", "v": dst}] + _edge_probes(e, src_of)
        return ps
    if t == "no_op":
        return from_probes
    if t in ("hard_exit", "loose_exit"):
        return now_probes
    if t == "insert_as_block":
        return [{"p": "insert", "f": ctx.inst(row.get("message_text", "").strip(), row.get("data_sheet", "").strip(),
                                               row.get("data_row_id", "").strip(), row.get("template_arguments", ""),
                                               "", nested=True)}] + now_probes
    ps = [{"p": "rowtype", "v": t}]
    if t == "send_message":
        ps.append({"p": "text", "v": row.get("message_text", "").strip()})
    elif t == "save_value":
        ps.append({"p": "field", "v": row.get("message_text", "").strip()})
    elif t == "save_flow_result":
        ps.append({"p": "result", "v": row.get("message_text", "").strip()})
    elif t == "call_webhook":
        h = split2(row.get("webhook.headers", ""))
        ps.append({"p": "webhook", "m": row.get("webhook.method", "").strip(), "h": as_list(h)})
    for e in edges:
        ps += _edge_probes(e, src_of)
        if e["condition"] and e["condition"].lower() not in SPECIAL_CONDS:
            ps.append({"p": "cat", "v": e["condition_name"] or e["condition"].title()})
    return ps


def model_rows(rows, ctx, mt=True, unsupported=None):
    """`mt`: the sheet has a `message_text` column (the row parser then needs a main-argument field for every row type)"""
    out = []
    st = row_status(rows)
    idtype = {}          # row id -> type of the plain row that registered it last
    for i, r in enumerate(rows):
        inc = include_if(r.get("include_if", ""))
        t = r.get("type", "").strip()

        def src_of(fr, i=i):
            """kind of the exit node an edge with this `from` cell leaves: "flow" / "hook" / "" """
            if fr == "start":
                return ""
            if fr:
                return OUTCOME_SRC.get(idtype.get(fr, ""), "")
            # blank: the most recent node group.  NOT resolved here (kind ""): the model records uuids after all flows,
            # the code while it reads the row, so a start_new_flow row followed by a row that continues from it would be
            # ordered wrongly against a uuid conflict on that row; the injectors name their source rows
            return ""

        m = {"t": t, "id": r.get("row_id", "").strip(), "inc": inc is not False, "probes": probes_of_row(r, ctx, src_of), "mt": mt}
        for p in m["probes"]:
            if p.get("p") == "outcome" and p["src"] and ("{" in p["v"] or not p["v"].isascii()) and unsupported is not None:
                unsupported.append("templated / non-ASCII condition on an outcome edge")
        if st[i]["eval"] is not False and t not in NOT_PLAIN and m["id"]:
            idtype[m["id"]] = t
        if t == "begin_for" and "{" not in r.get("message_text", "") and r.get("message_text", "").strip() == "":
            m["empty"] = True
        out.append(m)
    return out


# ------------------------------------------------------------------ the index


class Abstraction:
    def __init__(self, wb):
        self.wb = wb
        self.sheets = {n: with_message_text(sh) for n, sh in wb["sheets"].items()}
        self.index = []          # model IndexRow list
        self.create_rows = []
        self.reg = {}            # data sheet name -> list of ids
        self.reg_fields = {}     # data sheet name -> field names
        self.templates = {}      # sheet -> argdefs
        self.trigger_sheets = {}  # trigger_parsers: sheet name -> flow cells (a later row of the same sheet replaces)
        self.campaigns = {}      # campaign_parsers: campaign name -> flows of its events (a later row of the same name replaces)
        self.created = []
        self._cur_refs = []      # flow names referred to by the top-level instance being read
        self.create_at = []      # (index sheet, row number) of each entry of create_rows
        self.flow_names = []     # per entry of create_rows: the flow names it defines
        # position classes (see position_of()): what a fault at a sheet / an index row sits in
        self.sheet_pos = {}
        self.index_pos = {}
        self._defs = {}
        self.replaced_only_refs = []  # flow names that only replaced definitions refer to (unknown to the uuid dictionary)
        self.flow_uuids = []
        self.group_uuids = []
        self.used_sheets = []    # flow sheets that are parsed at least once (top level or inserted)
        self.unsupported = []
        self.models = []
        if wb.get("models"):
            tree = ast.parse(wb["models"]["source"])
            self.models = [n.name for n in tree.body if isinstance(n, ast.ClassDef)] + \
                          [a.asname or a.name for n in tree.body if isinstance(n, ast.ImportFrom) for a in n.names]
        self.dead = False        # the index walk hit a missing sheet: nothing after it matters

    # -- index walk (order of _process_content_index_table)
    def walk_index(self, name="content_index", seen=()):
        for row_no, row in enumerate(self.sheets[name]["rows"]):
            if self.dead:
                return
            if row.get("status", "").strip() == "draft":
                continue
            t = row.get("type", "").strip()
            names = split1(row.get("sheet_name", ""))
            if t != "data_sheet" and len(names) != 1:
                # `len(row.sheet_name) != 1` precedes the dispatch on the type
                self.index.append({"k": "other", "type": t, "n": len(names)})
                self.dead = True
                return
            if t == "content_index":
                self.index.append({"k": "ref", "name": names[0]})
                if names[0] not in self.sheets:
                    self.dead = True
                    return
                if names[0] in seen:
                    self.unsupported.append("recursive index")
                    return
                self.walk_index(names[0], seen + (name,))
            elif t == "data_sheet":
                self.data_sheet(row, names)
            elif t == "template_definition":
                self.index.append({"k": "ref", "name": names[0]})
                if names[0] not in self.sheets:
                    self.dead = True
                    return
                self.templates[names[0]] = [self.argdef(d) for d in as_list(split2(row.get("template_arguments", ""))) if d != ""]
            elif t == "create_flow":
                self.create_rows.append(row)
                self.create_at.append((name, row_no))
            elif t == "create_campaign":
                # create_campaign_parser: the sheet is read at once; the parser is stored under the campaign's
                # name — a later row producing the same name replaces it and only the last one is ever parse()d
                self.index.append({"k": "ref", "name": names[0]})
                if names[0] not in self.sheets:
                    self.dead = True
                    return
                cname = row.get("new_name", "").strip() or names[0]
                self.campaigns[cname] = [r["flow"].strip() for r in self.sheets[names[0]]["rows"] if r.get("flow", "").strip()]
                self._dup("campaign definition", cname, [names[0]], (name, row_no))
            elif t == "create_triggers":
                # stored under the sheet name: listing a sheet twice keeps one parser (at the first position)
                self.index.append({"k": "ref", "name": names[0]})
                if names[0] not in self.sheets:
                    self.dead = True
                    return
                self.trigger_sheets[names[0]] = [r.get("flow", "").strip() for r in self.sheets[names[0]]["rows"]]
                self._dup("trigger sheet", names[0], [names[0]], (name, row_no))
            elif t == "ignore_row":
                self.index.append({"k": "other", "type": t, "n": len(names)})
                self.unsupported.append("index row type " + t)      # its effect on the definitions is not read here
            else:
                # the `else` of the dispatch: "invalid type" — no sheet is looked up; the model stops here
                self.index.append({"k": "other", "type": t, "n": len(names)})
                self.dead = True
                return

    # -- position classes: is the thing defined here defined again by a later index row / already by an earlier one
    LATER, EARLIER, BOTH = "redefined by a later row", "redefines an earlier row", "redefines and is redefined (or shared by both)"
    KINDS = ("flow definition", "campaign definition", "trigger sheet")

    def _dup(self, kind, key, sheets, at):
        """register a definition of `key` (a flow / campaign name, a trigger sheet) made by index row `at` from `sheets`"""
        prev = self._defs.setdefault((kind, key), [])
        for (sh2, at2) in prev:
            for s2 in sh2:
                self.sheet_pos.setdefault(s2, set()).add((kind, self.LATER))
            self.index_pos.setdefault(at2, set()).add((kind, self.LATER))
        if prev:
            for s1 in sheets:
                self.sheet_pos.setdefault(s1, set()).add((kind, self.EARLIER))
            self.index_pos.setdefault(at, set()).add((kind, self.EARLIER))
        prev.append((list(sheets), at))

    def position_of(self, site) -> str:
        """position class of an injection site (as described by the fault generators): '' for an ordinary position,
        else e.g. 'flow definition redefined by a later row' / 'campaign definition redefines an earlier row'"""
        out = set()
        sh = site.get("sheet")
        for s1 in (sh if isinstance(sh, list) else [sh] if sh else []):
            out |= self.sheet_pos.get(s1, set())
        if "index" in site and "row" in site and isinstance(site["row"], int):
            out |= self.index_pos.get((site["index"], site["row"]), set())
            rows = self.sheets.get(site["index"], {"rows": []})["rows"]
            if site["row"] < len(rows) and rows[site["row"]].get("type") == "template_definition":
                # a fault in the argument definitions sits in every instantiation of the template
                out |= self.sheet_pos.get((split1(rows[site["row"]].get("sheet_name", "")) or [""])[0], set())
            how = site.get("how", "")
            if how.startswith("delete sheet file "):
                out |= self.sheet_pos.get(how[len("delete sheet file "):], set())
        labels = []
        for kind in self.KINDS:
            ps = {p for k, p in out if k == kind}
            if ps:
                labels.append(kind + " " + (self.BOTH if len(ps) > 1 else ps.pop()))
        if site.get("posclass"):
            labels.append(site["posclass"])
        return " + ".join(labels)

    @staticmethod
    def argdef(d):
        xs = d if isinstance(d, list) else [d]
        xs = list(xs) + ["", "", ""]
        return [xs[0], xs[1], xs[2]]

    def data_sheet(self, row, names):
        op = row.get("operation.type", "").strip()
        new_name = row.get("new_name", "").strip()
        dm = row.get("data_model", "").strip()
        srcs = [{"name": n, "cached": n in self.reg, "dataModel": dm} for n in names]
        self.index.append({"k": "data", "op": op, "newName": new_name, "srcs": srcs})
        used = names if op in ("", "concat") else names[:1]
        ids, fields = [], []
        for n in used:
            if n in self.reg:
                src_ids, src_fields = self.reg[n], self.reg_fields[n]
            elif n in self.sheets:
                src_ids = [r.get("ID", "") for r in self.sheets[n]["rows"]]
                src_fields = field_names(self.sheets[n]["h"])
            else:
                src_ids, src_fields = [], []
            if op == "filter":
                expr = row.get("operation.expression", "")
                keep = []
                for r in self.sheets.get(n, {"rows": []})["rows"] if n not in self.reg else self._rows_of(n):
                    env = {re.split(r"[:.=]", k, maxsplit=1)[0]: v for k, v in r.items()}
                    try:
                        if eval(expr, {}, env) is True:  # noqa: S307 — the harness's own expressions
                            keep.append(r.get("ID", ""))
                    except Exception:  # noqa: BLE001
                        self.unsupported.append("filter expression")
                src_ids = keep
            for i in src_ids:
                if i not in ids:
                    ids.append(i)
            fields = src_fields or fields
        key = new_name or (names[0] if names else "")
        self.reg[key] = ids
        self.reg_fields[key] = fields
        self._src = getattr(self, "_src", {})
        self._src[key] = [n for n in used]

    def _rows_of(self, name):
        """raw rows behind a registered data sheet (for filter on a derived sheet)"""
        out = []
        for n in self._src.get(name, []):
            if n in self.sheets and n not in self._src:
                out += self.sheets[n]["rows"]
            else:
                out += self._rows_of(n)
        ids = set(self.reg.get(name, []))
        return [r for r in out if r.get("ID", "") in ids]

    # -- flows
    def inst(self, sheet_name, data_sheet, data_row_id, args_cell, new_name, nested=False):
        if not nested:
            self._cur_refs = []
        base = new_name or sheet_name
        name = f"{base} - {data_row_id}" if data_sheet and data_row_id else base
        ctx = self.reg_fields.get(data_sheet, []) if data_sheet and data_row_id else []
        if sheet_name not in self.templates:
            self.unsupported.append("template sheet not registered: " + sheet_name)
            rows = []
        else:
            if sheet_name not in self.used_sheets:
                self.used_sheets.append(sheet_name)
            sh = self.sheets[sheet_name]
            rows = model_rows(sh["rows"], _NoNest(self) if nested else self, mt=sh.get("mt", True) and has_message_text(sh),
                              unsupported=self.unsupported)
            self.collect_uuids(self.sheets[sheet_name]["rows"])
        args = as_list(split2(args_cell))
        args = [a if isinstance(a, str) else ";".join(a) for a in args]
        if args == [""]:
            args = []
        res = {"name": name, "dataSheet": data_sheet, "dataRowId": data_row_id, "ctx": ctx,
               "defs": self.templates.get(sheet_name, []), "args": args, "rows": rows}
        if not nested:
            res["refs"] = self._cur_refs
        return res

    def collect_uuids(self, rows):
        st = row_status(rows)
        for r, s in zip(rows, st):
            if s["eval"] is False:
                continue
            t = r.get("type", "")
            oid = r.get("obj_id", "").strip()
            if t == "start_new_flow":
                self._cur_refs.append(r.get("message_text", "").strip())
                if oid:
                    self.flow_uuids.append([r.get("message_text", "").strip(), oid])
            elif t in ("add_to_group", "remove_from_group", "split_by_group") and oid:
                g = split1(r.get("message_text", ""))
                self.group_uuids.append([g[0] if g else "", oid])

    def build(self):
        if "content_index" not in self.sheets:
            return {"hasIndex": False}
        self.walk_index()
        flows = []
        if not self.dead:
            # _populate_missing_templates
            for row in self.create_rows:
                n = split1(row.get("sheet_name", ""))[0]
                if n not in self.templates:
                    self.index.append({"k": "ref", "name": n})
                    if n not in self.sheets:
                        self.dead = True
                        break
                    self.templates[n] = []
        if not self.dead:
            for row in self.create_rows:
                n = split1(row.get("sheet_name", ""))[0]
                ds = row.get("data_sheet", "").strip()
                rid = row.get("data_row_id", "").strip()
                nn = row.get("new_name", "").strip()
                if ds and not rid:
                    insts = [self.inst(n, ds, i, row.get("template_arguments", ""), nn) for i in self.reg.get(ds, [])]
                elif not ds and rid:
                    insts = []
                else:
                    insts = [self.inst(n, ds, rid, row.get("template_arguments", ""), nn)]
                self.created += [i["name"] for i in insts]
                flows.append({"dataSheet": ds, "dataRowId": rid, "insts": insts})
            # which flow names each create_flow row defines (for the position classes)
            for row, at in zip(self.create_rows, self.create_at):
                n = split1(row.get("sheet_name", ""))[0]
                ds = row.get("data_sheet", "").strip()
                rid = row.get("data_row_id", "").strip()
                base = row.get("new_name", "").strip() or n
                names = [f"{base} - {i}" for i in self.reg.get(ds, [])] if ds and not rid else [f"{base} - {rid}" if ds and rid else base]
                self.flow_names.append(names)
                for nm in names:
                    self._dup("flow definition", nm, [n], at)
        insts = [i for fd in flows for i in fd["insts"]]
        last = {i["name"]: k for k, i in enumerate(insts)}
        known = set(last) | {r for k, i in enumerate(insts) if last[i["name"]] == k for r in i["refs"]} \
            | {n for n, _u in self.flow_uuids} | {f for fl in self.campaigns.values() for f in fl}
        self.replaced_only_refs = sorted({r for i in insts for r in i["refs"]} - known)
        return {
            "hasIndex": True,
            "sheets": sorted(self.sheets),
            "hasModule": bool(self.wb.get("models")),
            "models": self.models,
            "index": self.index,
            "reg": [[k, v] for k, v in self.reg.items()],
            "flows": flows,
            "flowUuids": self.flow_uuids,
            "groupUuids": self.group_uuids,
            # the created flows that survive redefinition and what they refer to are worked out by the model
            # (Cli.knownFlowNames) from the instances' names / refs; here: the surviving campaigns' flows
            "flowNames": [f for fl in self.campaigns.values() for f in fl],
            "triggers": [f for fl in self.trigger_sheets.values() for f in fl],
        }


class _NoNest:
    """context for rows of an inserted template: a further insert_as_block is outside the model"""

    def __init__(self, outer):
        self.outer = outer

    def inst(self, *a, **k):
        self.outer.unsupported.append("insert_as_block inside an inserted template")
        return {"rows": []}


def abstract(wb):
    a = Abstraction(wb)
    w = a.build()
    return w, a
