"""Helpers shared by the T1 translators (harness/tables/t*.py) — DESIGN §2.5a.

Three ways of reading a table of the code under verification, in order of preference:

1. RUNTIME VALUES  `load(modname)` imports the module from the tree under verification
   ($RPFT_REPO/src is first on sys.path) — module constants, class attributes, enum members,
   pydantic field lists are then read by introspection, whatever expression built them.
2. BEHAVIOUR       `probe_map` / `probe_accepts` evaluate a function of the code on a universe of
   candidate keys (`str_constants` of the module's AST + model field names) and record what it
   returns: a table hidden inside a function is read off what the function DOES, so it does not
   matter whether it is a dict literal in the body, a module-level constant built by a
   comprehension, an inverted table or an if/elif chain.
3. SOURCE STRUCTURE located BY CONTENT: `functions(scope)` enumerates every function of a class /
   module, `dispatch_keys` / `container_consts` / `find_all` search all of them for a pattern
   (comparison of a given subject with constants; if/elif chain, `match` statement or dispatch
   dict; literal in place or hoisted to module / class level — `Resolver` evaluates a `Name` /
   `self.X` / `Cls.X` against the live module), instead of looking one private name up.

Nothing here raises on purpose beyond `KeyError` / `AssertionError` for "not found": the caller
(extract_tables.render) records a failed translator and leaves its definitions out.
"""
from __future__ import annotations

import ast
import importlib
import sys

from .extract_tables import REPO, SRC, _parse  # noqa: F401  (re-exported)


# ------------------------------------------------------------------------------ runtime values


def load(modname: str):
    """import `modname` from the tree under verification"""
    src = str(REPO / "src")
    if src not in sys.path:
        sys.path.insert(0, src)
    return importlib.import_module(modname)


def str_constants(*trees) -> list[str]:
    """every string constant of the given ASTs, in source order, without repetition"""
    out, seen = [], set()
    for t in trees:
        nodes = [n for n in ast.walk(t) if isinstance(n, ast.Constant) and isinstance(n.value, str)]
        nodes.sort(key=lambda n: (getattr(n, "lineno", 0), getattr(n, "col_offset", 0)))
        for n in nodes:
            if n.value not in seen:
                seen.add(n.value)
                out.append(n.value)
    return out


def runtime_strings(*objs, depth: int = 3) -> list[str]:
    """strings reachable from the values of modules / classes / containers (keys and values of dicts,
    members of lists / tuples / sets): the candidates a table built at import time may hold even when
    no literal of that spelling is in the source (f-strings, joins)"""
    out, seen = [], set()

    def add(s):
        if s not in seen:
            seen.add(s)
            out.append(s)

    def walk(v, d):
        if isinstance(v, str):
            add(v)
        elif d <= 0:
            return
        elif isinstance(v, dict):
            for k, x in v.items():
                walk(k, d - 1)
                walk(x, d - 1)
        elif isinstance(v, (list, tuple, set, frozenset)):
            for x in (sorted(v, key=repr) if isinstance(v, (set, frozenset)) else v):
                walk(x, d - 1)

    for o in objs:
        ns = vars(o) if hasattr(o, "__dict__") else o
        for k, v in list(ns.items()):
            if isinstance(k, str) and k.startswith("__"):
                continue
            walk(v, depth)
    return out


# ------------------------------------------------------------------------------ behaviour probes


def probe_map(fn, universe, *, keep=lambda k, r: isinstance(r, str) and r != k) -> list[tuple[str, str]]:
    """[(k, fn(k))] for the candidates on which `fn` is not the identity (exceptions = not in the table);
    SORTED by key: a table recovered from behaviour has no order of its own"""
    out = {}
    for k in universe:
        try:
            r = fn(k)
        except Exception:  # noqa: BLE001
            continue
        if keep(k, r):
            out[k] = r
    return sorted(out.items())


def sorted_pairs(d) -> list[tuple[str, str]]:
    return sorted(dict(d).items())


# ------------------------------------------------------------------------------ structure, by content


def functions(scope) -> list[ast.FunctionDef]:
    """every function / method below `scope` (nested ones included), in source order"""
    fs = [n for n in ast.walk(scope) if isinstance(n, (ast.FunctionDef, ast.AsyncFunctionDef))]
    fs.sort(key=lambda n: (n.lineno, n.col_offset))
    return fs


def find_all(scope, pred) -> list:
    """nodes below `scope` satisfying `pred`, in source order"""
    ns = [n for n in ast.walk(scope) if pred(n)]
    ns.sort(key=lambda n: (getattr(n, "lineno", 0), getattr(n, "col_offset", 0)))
    return ns


def dotted(node) -> str | None:
    """`a.b.c` → "a.b.c" (None when the expression is not a plain dotted name)"""
    parts = []
    while isinstance(node, ast.Attribute):
        parts.append(node.attr)
        node = node.value
    if isinstance(node, ast.Name):
        parts.append(node.id)
        return ".".join(reversed(parts))
    return None


def ends_with(node, *suffix: str) -> bool:
    """is `node` a dotted name ending in the given attribute path (`x.operation.type` ends with
    ("operation", "type"); a bare local `op_type` does not)"""
    d = dotted(node)
    if d is None:
        return False
    parts = d.split(".")
    return len(parts) >= len(suffix) and tuple(parts[-len(suffix):]) == tuple(suffix)


class Resolver:
    """value of an expression that is a literal, or a name hoisted out of the function: a module-level
    constant (`BLOCK_END_MAP`), a class attribute (`self.X`, `cls.X`, `Cls.X`), looked up in the LIVE
    module / class — so the table is found wherever a refactor moved it"""

    def __init__(self, *namespaces):
        self.namespaces = [vars(n) if hasattr(n, "__dict__") and not isinstance(n, dict) else n for n in namespaces if n is not None]
        self.objects = [n for n in namespaces if n is not None and not isinstance(n, dict)]

    def __call__(self, node, local_scope=None):
        try:
            return ast.literal_eval(node)
        except (ValueError, SyntaxError, TypeError):
            pass
        if isinstance(node, ast.Name):
            # a local of the enclosing function assigned once from something resolvable
            if local_scope is not None:
                vals = [n.value for n in ast.walk(local_scope) if isinstance(n, ast.Assign)
                        and any(isinstance(t, ast.Name) and t.id == node.id for t in n.targets)]
                if len(vals) == 1:
                    return self(vals[0], None)
            for ns in self.namespaces:
                if node.id in ns:
                    return ns[node.id]
        # simple constant expressions over resolvable parts: len(X), X + Y, X - Y, X * Y, (X, Y), [X, Y], {X, Y}
        if isinstance(node, ast.Call) and isinstance(node.func, ast.Name) and node.func.id in ("len", "tuple", "list", "set", "frozenset", "sorted") \
                and len(node.args) == 1 and not node.keywords:
            return {"len": len, "tuple": tuple, "list": list, "set": set, "frozenset": frozenset, "sorted": sorted}[node.func.id](self(node.args[0], local_scope))
        if isinstance(node, ast.BinOp) and isinstance(node.op, (ast.Add, ast.Sub, ast.Mult)):
            a, b = self(node.left, local_scope), self(node.right, local_scope)
            return a + b if isinstance(node.op, ast.Add) else a - b if isinstance(node.op, ast.Sub) else a * b
        if isinstance(node, (ast.Tuple, ast.List, ast.Set)):
            vals = [self(e, local_scope) for e in node.elts]
            return tuple(vals) if isinstance(node, ast.Tuple) else vals if isinstance(node, ast.List) else set(vals)
        if isinstance(node, ast.Attribute):
            d = dotted(node)
            if d:
                head, *rest = d.split(".")
                starts = []
                if head in ("self", "cls"):
                    starts = self.objects
                else:
                    starts = [ns[head] for ns in self.namespaces if head in ns]
                for o in starts:
                    try:
                        for a in rest:
                            o = getattr(o, a)
                        return o
                    except AttributeError:
                        continue
        raise KeyError("cannot resolve " + ast.unparse(node))


def aliases(scope, is_subject) -> set[str]:
    """names of locals assigned (once or more) from an expression satisfying `is_subject`
    (`op = row.operation.type` makes `op` stand for the subject)"""
    out = set()
    for n in ast.walk(scope):
        if isinstance(n, ast.Assign) and is_subject(n.value):
            out |= {t.id for t in n.targets if isinstance(t, ast.Name)}
        elif isinstance(n, ast.NamedExpr) and is_subject(n.value) and isinstance(n.target, ast.Name):
            out.add(n.target.id)
    return out


def dispatch_groups(scope, is_subject, resolve: "Resolver | None" = None) -> dict[tuple[str, str], list[str]]:
    """{(function, subject text): [string constants]} — the constants on which a function dispatches a
    subject by EQUALITY, in source order, found in any of the equivalent shapes
        if subject == "k": … elif subject == "k2": …          (also  "k" == subject)
        match subject: case "k": … case "k2" | "k3": …
        {"k": f, "k2": g}[subject]   /   TABLE.get(subject)   /  subject in TABLE … TABLE[subject]
    (the dict literal in place, or a name resolvable to a dict with string keys; a local assigned from
    the subject counts as the subject)."""
    groups: dict[tuple[str, str], list] = {}

    def table_keys(node, fn):
        if isinstance(node, ast.Dict):
            return [k.value for k in node.keys if isinstance(k, ast.Constant) and isinstance(k.value, str)]
        if resolve is not None:
            try:
                v = resolve(node, fn)
            except KeyError:
                v = None
            if isinstance(v, dict):
                return [k for k in v if isinstance(k, str)]
        # `self.X[...]` where some method of the scope assigns `self.X = {"k": …}` (a table of bound handlers built in
        # __init__): the keys of that literal
        if isinstance(node, ast.Attribute) and isinstance(node.value, ast.Name) and node.value.id == "self":
            for a in ast.walk(scope):
                if isinstance(a, ast.Assign) and isinstance(a.value, ast.Dict) and any(
                        isinstance(t, ast.Attribute) and isinstance(t.value, ast.Name) and t.value.id == "self" and t.attr == node.attr for t in a.targets):
                    return [k.value for k in a.value.keys if isinstance(k, ast.Constant) and isinstance(k.value, str)]
        return []

    fns = functions(scope) or [scope]
    nested = {id(g) for f in fns for g in functions(f) if g is not f}
    for fn in fns:
        al = aliases(fn, is_subject)

        def subj(n, al=al):
            return is_subject(n) or (isinstance(n, ast.Name) and n.id in al)

        def add(n, subject, k, i=0, fn=fn):
            if isinstance(k, str):
                key = (getattr(fn, "name", "<module>"), "<subject>" if isinstance(subject, ast.Name) else ast.unparse(subject))
                groups.setdefault(key, []).append((getattr(n, "lineno", 0), getattr(n, "col_offset", 0) + i, k))

        # nodes of this function, not those of functions nested in it (they are visited on their own)
        stack, own = list(ast.iter_child_nodes(fn)), []
        while stack:
            n = stack.pop()
            if id(n) in nested:
                continue
            own.append(n)
            stack.extend(ast.iter_child_nodes(n))
        for n in own:
            if isinstance(n, ast.Compare) and len(n.ops) == 1 and isinstance(n.ops[0], ast.Eq):
                a, b = n.left, n.comparators[0]
                if subj(a) and isinstance(b, ast.Constant):
                    add(n, a, b.value)
                elif subj(b) and isinstance(a, ast.Constant):
                    add(n, b, a.value)
            elif isinstance(n, ast.Match) and subj(n.subject):
                for c in n.cases:
                    for p in ast.walk(c.pattern):
                        if isinstance(p, ast.MatchValue) and isinstance(p.value, ast.Constant):
                            add(p, n.subject, p.value.value)
            elif isinstance(n, ast.Subscript) and subj(n.slice):
                for i, k in enumerate(table_keys(n.value, fn)):
                    add(n, n.slice, k, i)
            elif isinstance(n, ast.Call) and isinstance(n.func, ast.Attribute) and n.func.attr == "get" \
                    and n.args and subj(n.args[0]):
                for i, k in enumerate(table_keys(n.func.value, fn)):
                    add(n, n.args[0], k, i)
    out = {}
    for key, found in groups.items():
        ks = []
        for _, _, k in sorted(found):
            if k not in ks:
                ks.append(k)
        out[key] = ks
    return out


def dispatch_keys(scope, is_subject, resolve: "Resolver | None" = None) -> list[str]:
    """all constants of `dispatch_groups`, merged (source order of the functions)"""
    out = []
    for ks in dispatch_groups(scope, is_subject, resolve).values():
        out += [k for k in ks if k not in out]
    return out


def largest_group(groups: dict, what: str) -> list[str]:
    """the dispatch proper: the (function, subject) with the most alternatives — incidental comparisons of
    a like-named attribute elsewhere (`arg_def.type == "sheet"`) have one or two"""
    assert groups, what
    best = max(groups.values(), key=len)
    assert sum(1 for g in groups.values() if len(g) == len(best)) == 1, (what, groups)
    return best


def container_consts(scope, is_subject, resolve: "Resolver | None" = None, ops=(ast.In, ast.NotIn)) -> list[list]:
    """the containers `C` of every test `subject in C` / `subject not in C` below `scope` (one list per
    test, source order); `C` a list / tuple / set / dict literal or a hoisted name (→ Resolver)"""
    out = []
    fns = functions(scope) or [scope]
    seen = set()
    for fn in fns:
        al = aliases(fn, is_subject)
        for n in find_all(fn, lambda n: isinstance(n, ast.Compare) and len(n.ops) == 1 and isinstance(n.ops[0], ops)):
            if id(n) in seen or not (is_subject(n.left) or (isinstance(n.left, ast.Name) and n.left.id in al)):
                continue
            seen.add(id(n))
            c = n.comparators[0]
            try:
                v = ast.literal_eval(c)
            except (ValueError, SyntaxError, TypeError):
                if resolve is None:
                    continue
                try:
                    v = resolve(c, fn)
                except KeyError:
                    continue
            if isinstance(v, dict):
                v = list(v)
            if isinstance(v, (set, frozenset)):
                v = sorted(v)
            if isinstance(v, (list, tuple)):
                out.append(list(v))
    return out


def one(xs, what):
    xs = list(xs)
    assert len(xs) == 1, (what, xs)
    return xs[0]
