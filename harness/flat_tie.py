"""T2 tie for the FLAT machine of `_parse_block` (Rpft/SugarFlat.lean `runFlat`) and for the
structural parser (`parseTree` vs the harness' `tree_of_rows`).

`trace_flat` runs the REAL `FlowParser._parse_block` over the real `SheetParser` with the technique
of `compile_tie.trace_structure` (instantiations, contexts, group pushes / pops traced), with two
differences: the consumer of the events (`_parse_row`, `_parse_noop_row`, `append_node_group`) is
stubbed, so that only the block machine runs; and the first CRITICAL record stops the run, as
`ShutdownHandler` does in the CLI, so that "the first error" is observable in library mode.
The Lean machine is then run by the driver on the flat rows 0 … n-1 with the interface read off
the real run (raw kinds and raw-parse failures from the real RowParser, instantiations from the
trace) and must return the same events and the same final context, or the same first error.
"""
from __future__ import annotations

import contextlib
import copy
import logging
import random
import re

from . import hook
from .compile_tie import tree_of_rows
from .flows import table_from_rows

KINDS = ("begin_for", "end_for", "begin_block", "end_block")


def kind_of(t):
    return t if t in KINDS else ""


class _Stop(BaseException):
    """first CRITICAL record (the CLI exits there)"""


class _Stopper(logging.Handler):
    NAMES = ("main", "rpft.rapidpro.models.routers")

    def __init__(self):
        super().__init__(level=logging.CRITICAL)

    def emit(self, record):
        raise _Stop(record.getMessage())

    def __enter__(self):
        self._old = []
        for n in self.NAMES:
            lg = logging.getLogger(n)
            self._old.append((lg, lg.propagate))
            lg.addHandler(self)
            lg.propagate = False
        return self

    def __exit__(self, *a):
        for lg, prop in self._old:
            lg.removeHandler(self)
            lg.propagate = prop
        return False


def ctx_key(ctx):
    return [[k, repr(v)] for k, v in sorted(ctx.items())]


WRONG = re.compile(r'Wrong block terminator "(\w+)" found for block of type (\w+)\.')


def trace_flat(headers, rows, context=None):
    """→ dict(kinds, scanfail, table, scans, ctx0, real) where `real` is
    {"events": …, "ctx": …} or a stop record shaped like the driver's."""
    from rpft.parsers.creation.flowparser import FlowParser
    from rpft.rapidpro.models.containers import RapidProContainer

    events, table, scans = [], [], []
    state = {"last": None, "begins": [], "next": None}

    def on_push():
        pos, _ = state["last"]
        state["begins"].append(pos)
        events.append(["open", pos])

    def on_pop():
        events.append(["close", state["begins"].pop()])

    def on_row(*a, **kw):
        pos, key = state["last"]
        events.append(["row", pos, key])

    def nothing(*a, **kw):
        pass

    class Stack(list):
        def append(self, x):
            on_push()
            super().append(x)

        def pop(self, *a):
            on_pop()
            return super().pop(*a)

    # the consumers of the block machine are REPLACED (not only observed): with the project's hook their current
    # names are read off a probe run (hook.hosts: who calls the hook), otherwise the names the harness knows
    use_hook = hook.available()
    names = (hook.hosts() if use_hook else None) or {"row": "_parse_row", "noop_row": "_parse_noop_row", "append_group": "append_node_group"}
    Tracer = type("Tracer", (FlowParser,), {names["row"]: lambda self, *a, **kw: on_row(),
                                            names["noop_row"]: nothing, names["append_group"]: nothing})

    def sink(name, d):
        if d["parser"] is not p:
            return
        if name == "push":
            on_push()
        elif name == "pop":
            on_pop()

    p = Tracer(RapidProContainer(), "flow", table_from_rows(headers, rows), context=copy.deepcopy(context) if context else None)
    sp = p.sheet_parser
    ctx0 = copy.deepcopy(sp.context)
    # the interface's raw side, from the real row parser, for EVERY row
    kinds, scanfail = [], []
    for input_row, idx in sp.input_rows:
        try:
            kinds.append(sp.row_parser.parse_row(input_row, None).type)
        except Exception:  # noqa: BLE001
            kinds.append(str(input_row.get("type", "")).strip())
            scanfail.append(idx - 2)
    orig = sp.parse_next_row

    def wrapped(omit_templating=False, return_index=False):
        key = ctx_key(sp.context)
        nxt = next(copy.copy(sp.iterator), None)
        state["next"] = None if nxt is None else (nxt[1] - 2, bool(omit_templating))
        try:
            row, idx = orig(omit_templating=omit_templating, return_index=True)
        except BaseException as e:  # noqa: BLE001
            if isinstance(e, (KeyboardInterrupt, SystemExit)):
                raise
            if nxt is not None and not omit_templating:
                table.append({"pos": nxt[1] - 2, "key": key, "fail": True})
            state["failed_in_next"] = True
            raise
        state["next"] = None
        if row is not None:
            pos = idx - 2
            state["last"] = (pos, key)
            if omit_templating:
                scans.append({"pos": pos, "type": row.type})
            else:
                lv = None
                if row.type == "begin_for":
                    lv = [x for x in row.loop_variable[:2]]
                    lv = None if not lv or not lv[0] else [lv[0], (lv[1] if len(lv) > 1 and lv[1] else None)]
                table.append({"pos": pos, "key": key, "type": row.type, "incl": bool(row.include_if), "lv": lv,
                              "iter": [repr(x) for x in row.mainarg_iterlist] if row.type == "begin_for" else []})
        return (row, idx) if return_index else row

    sp.parse_next_row = wrapped
    if not use_hook:
        p.node_group_stack = Stack(p.node_group_stack)
    real = None
    with _Stopper(), (hook.sink(sink) if use_hook else contextlib.nullcontext()):
        try:
            # (hook: through the public entry point — the group stack is balanced whenever the block machine returns,
            # so parse_as_block adds nothing to _parse_block here)
            p.parse_as_block() if use_hook else p._parse_block()
            real = {"events": events, "ctx": ctx_key(sp.context)}
        except _Stop as e:
            msg = str(e)
            m = WRONG.match(msg)
            if state.get("failed_in_next") and state["next"] is not None:
                pos, omit = state["next"]
                real = {"stop": "scan" if omit else "inst", "pos": pos}
            elif msg == "Sheet has unterminated block.":
                real = {"stop": "fault", "what": {"fault": "unterminated"}}
            elif m:
                real = {"stop": "fault", "what": {"fault": "wrong_terminator", "row": m.group(1), "block": m.group(2)}}
            elif msg == "begin_for must have a loop_variable":
                real = {"stop": "no_loop_variable"}
            else:
                real = {"stop": "other", "detail": msg[:200], "critical": True}
        except BaseException as e:  # noqa: BLE001
            if isinstance(e, (KeyboardInterrupt, SystemExit)):
                raise
            if state.get("failed_in_next") and state["next"] is not None:
                pos, omit = state["next"]
                real = {"stop": "scan" if omit else "inst", "pos": pos}
            elif isinstance(e, KeyError) and state["next"] is None:
                real = {"stop": "key_error", "key": str(e.args[0]) if e.args else ""}
            else:
                real = {"stop": "other", "detail": f"{type(e).__name__}: {e}"[:200]}
    return {"kinds": kinds, "scanfail": scanfail, "table": table, "scans": scans, "ctx0": ctx_key(ctx0), "real": real,
            "ctx_restored": (real is not None and "events" in real and sp.context == ctx0)}


def law_checks(tr):
    """the laws of `FlatLaws` that are about the sheet, checked on what the real run did"""
    bad = []
    for t in tr["table"]:
        if t.get("fail"):
            continue
        if kind_of(t["type"]) != kind_of(tr["kinds"][t["pos"]]):
            bad.append(("kind_inst", t["pos"], t["type"], tr["kinds"][t["pos"]]))
        if t.get("lv") and t["lv"][1] is not None and t["lv"][0] == t["lv"][1]:
            bad.append(("vars_ne", t["pos"], t["lv"][0]))
    for s in tr["scans"]:
        if s["type"] != tr["kinds"][s["pos"]]:
            bad.append(("scan_kind", s["pos"], s["type"], tr["kinds"][s["pos"]]))
    return bad


def requests(tr):
    base = {"kinds": tr["kinds"], "scanfail": tr["scanfail"], "table": tr["table"], "ctx": tr["ctx0"]}
    return [dict(base, op="sugarflat.run"), dict(base, op="sugarflat.treerun"), {"op": "sugarflat.tree", "kinds": tr["kinds"]}]


def strip_ends(items):
    out = []
    for it in items:
        if "row" in it:
            out.append({"row": it["row"]})
        elif "for" in it:
            out.append({"for": it["for"], "body": strip_ends(it["body"])})
        else:
            out.append({"block": it["block"], "body": strip_ends(it["body"])})
    return out


def compare(tr, rows, run, treerun, tree):
    """→ list of (what, detail) disagreements"""
    out = []
    for name, a in (("run", run), ("treerun", treerun), ("tree", tree)):
        if "__error__" in a:
            out.append((f"driver error in sugarflat.{name}", a))
    if out:
        return out
    real = tr["real"]
    reworded = (real.get("stop") == "other" and real.get("critical") and isinstance(run, dict) and run.get("stop") in ("fault", "no_loop_variable"))
    # (a CRITICAL report in words the harness does not recognise, where the model stops with a structural fault: the
    # parser stopped for a problem it named — which one is read off the wording only, so this is not a disagreement)
    if run != real and not reworded:
        out.append(("the flat machine of the model and the real _parse_block differ", {"model": _short(run), "real": _short(tr["real"])}))
    if "events" in tr["real"] and not tr["ctx_restored"]:
        out.append(("the real parser's context after the run differs from the initial context", {"ctx": tr["real"]["ctx"], "ctx0": tr["ctx0"]}))
    laws = law_checks(tr)
    if not laws and treerun != run:
        # flat_eq_scan_tree on the driver's own interface
        out.append(("tree reading evP and flat machine differ on an interface satisfying the laws", {"flat": _short(run), "tree": _short(treerun)}))
    # the structural parser vs the harness' tree_of_rows (raw type cells)
    py = tree_of_rows([{"type": k} for k in tr["kinds"]])
    if (py is None) != ("err" in tree) or (py is not None and strip_ends(tree["tree"]) != py):
        out.append(("parseTree and tree_of_rows differ", {"lean": tree.get("tree", tree.get("err")), "python": py}))
    if not tree.get("roundtrip"):
        out.append(("flatten (parseAll rows) ≠ rows", {}))
    if "err" in tree and tree["err"] != tree.get("cli"):
        out.append(("parseTree and Cli.checkBlocks report different faults", {"tree": tree["err"], "cli": tree.get("cli")}))
    return out


def _short(x):
    if isinstance(x, dict) and "events" in x and len(x["events"]) > 40:
        return {"events": x["events"][:40] + ["…"], "ctx": x.get("ctx")}
    return x


# ------------------------------------------------------------------ generators


def _depths(rows):
    d, out = 0, []
    for r in rows:
        t = r.get("type")
        if t in ("end_for", "end_block"):
            d -= 1
        out.append(d)
        if t in ("begin_for", "begin_block"):
            d += 1
    return out


def mutate(rng: random.Random, rows):
    """→ (stratum, rows'): an ill-nested or failing variant of a well-nested sheet"""
    rows = [dict(r) for r in rows]
    ends = [i for i, r in enumerate(rows) if r["type"] in ("end_for", "end_block")]
    begins = [i for i, r in enumerate(rows) if r["type"] in ("begin_for", "begin_block")]
    k = rng.randrange(12)
    if k == 0 and ends:
        del rows[rng.choice(ends)]
        return "unterminated", rows
    if k == 1 and ends:
        i = rng.choice(ends)
        rows[i]["type"] = "end_block" if rows[i]["type"] == "end_for" else "end_for"
        return "mismatched", rows
    if k == 2:
        rows.insert(rng.randrange(len(rows) + 1), {"row_id": "", "type": rng.choice(["end_for", "end_block"])})
        return "stray_end", rows
    if k == 3 and begins:
        # cut the sheet right after a begin row, or somewhere inside its body: a block as the last rows
        i = rng.choice(begins)
        return "cut_after_begin", rows[: i + 1 + rng.randrange(2)]
    if k == 4:
        # an excluded block holding begin rows (terminated or not), inserted anywhere
        inner = [{"row_id": "", "type": "begin_for", "from": "", "loop_variable": "q", "message_text": "{{ no.such.thing }}"},
                 {"row_id": "", "type": "send_message", "from": "", "message_text": "{{ q.nothing }}"}]
        if rng.random() < 0.6:
            inner.append({"row_id": "", "type": "end_for"})
        blk = [{"row_id": f"X{rng.randrange(99)}", "type": "begin_block", "from": "", "include_if": "FALSE"}] + inner
        if rng.random() < 0.7:
            blk.append({"row_id": "", "type": rng.choice(["end_block", "end_block", "end_for"])})
        i = rng.randrange(len(rows) + 1)
        return "begin_in_excluded", rows[:i] + blk + rows[i:]
    if k == 5:
        # a loop / block as the very last rows (terminated, empty body or not)
        tail = [{"row_id": "LL", "type": "begin_for", "from": "", "loop_variable": "z", "message_text": rng.choice(["a;b", "{@[]@}", "a;"])}]
        if rng.random() < 0.5:
            tail.append({"row_id": "", "type": "send_message", "from": "", "message_text": "last {{z}}"})
        if rng.random() < 0.7:
            tail.append({"row_id": "", "type": "end_for"})
        return "loop_last", rows + tail
    if k == 6:
        # a row that cannot be instantiated, anywhere (possibly an end row)
        i = rng.randrange(len(rows))
        col = "row_id" if rows[i]["type"] in ("end_for", "end_block") else rng.choice(["message_text", "row_id", "include_if"])
        if rows[i]["type"] == "begin_for" and col == "message_text":
            col = "row_id"
        rows[i][col] = "{{ undefined_name_" + str(i) + " }}"
        return "uninstantiable_row", rows
    if k == 7:
        # an unknown type: the raw parse raises (also inside excluded blocks)
        i = rng.randrange(len(rows) + 1)
        rows.insert(i, {"row_id": "", "type": "no_such_type", "from": "", "message_text": "x"})
        return "unknown_type", rows
    if k == 8 and begins:
        fors = [i for i in begins if rows[i]["type"] == "begin_for"]
        if fors:
            rows[rng.choice(fors)]["loop_variable"] = ""
            return "no_loop_variable", rows
    if k == 9 and ends and len(rows) > 3:
        # two faults: the first one wins
        i = rng.choice(ends)
        rows[i]["type"] = "end_block" if rows[i]["type"] == "end_for" else "end_for"
        j = rng.randrange(len(rows))
        rows[j]["row_id"] = "{{ undefined_name }}"
        return "fault_and_bad_row", rows
    if k == 10:
        return "empty_sheet", []
    if k == 11:
        return "only_end", [{"row_id": "", "type": rng.choice(["end_for", "end_block"])}]
    return "well_nested", rows


# sheets on which the real parser and the tree reading `Sugar.evItems` differ (the flat model follows
# the real parser): the hypotheses of `flat_eq_tree`, replayed (Props/C03_Flat.lean `needs_…`)
def witnesses(H):
    H2 = [h for h in H if h != "message_text"]
    return [
        ("same_loop_and_index_variable", H, [
            {"row_id": "L", "type": "begin_for", "from": "start", "loop_variable": "x;x", "message_text": "a;b"},
            {"row_id": "m", "type": "send_message", "from": "", "message_text": "hi {{x}}"},
            {"row_id": "", "type": "end_for"}], {"stop": "key_error", "key": "x"}),
        ("unknown_type_in_excluded_block", H, [
            {"row_id": "s", "type": "send_message", "from": "start", "message_text": "hello"},
            {"row_id": "B", "type": "begin_block", "from": "s", "include_if": "FALSE"},
            {"row_id": "m", "type": "sendmessage", "from": "", "message_text": "hi"},
            {"row_id": "", "type": "end_block"}], {"stop": "scan", "pos": 2}),
        ("uninstantiable_end_row", H, [
            {"row_id": "s", "type": "send_message", "from": "start", "message_text": "hello"},
            {"row_id": "B", "type": "begin_block", "from": "s"},
            {"row_id": "m", "type": "send_message", "from": "", "message_text": "hi"},
            {"row_id": "{{nope}}", "type": "end_block"}], {"stop": "inst", "pos": 3}),
        ("templated_end_row_included_block", H2, [
            {"row_id": "s", "type": "wait_for_response", "from": "start"},
            {"row_id": "B", "type": "begin_block", "from": "s"},
            {"row_id": "m", "type": "wait_for_response", "from": ""},
            {"row_id": "", "type": "{{'end_block'}}"}], None),
        ("templated_end_row_excluded_block", H2, [
            {"row_id": "s", "type": "wait_for_response", "from": "start"},
            {"row_id": "B", "type": "begin_block", "from": "s", "include_if": "FALSE"},
            {"row_id": "m", "type": "wait_for_response", "from": ""},
            {"row_id": "", "type": "{{'end_block'}}"}], {"stop": "fault", "what": {"fault": "unterminated"}}),
    ]
