"""The project's guarded instrumentation hook (DESIGN §2.8), seen from the harness.

`rpft.parsers.creation.flowparser` offers (when the hook commit is in the tree)

    _verif_sink = None
    def _verif_event(name, **data):          # inert unless RPFT_VERIF == "1" and a sink is installed
        ...

and calls it INSIDE the bodies of the parser's internals:
    "row"          parser, row                  first statement of the row compiler (`_parse_row`)
    "noop_row"     parser, row, store_row_id    first statement of the no-op row compiler (`_parse_noop_row`)
    "append_group" parser, group, row_id        first statement of `append_node_group`
    "push"         parser, group                before a NodeGroup is pushed on the group stack
    "pop"          parser                       before the group stack is popped
The events travel with the code when a private method is renamed or moved, which the subclassing
tracers (override `_parse_row` …, wrap `node_group_stack`) do not survive.  The tracers of
compile_tie / flat_tie use the hook when it is there and fall back to subclassing otherwise.

The guard is switched on only for the duration of one traced run (`with sink(fn):`), so every
other run of the real code in the harness process (the direct oracles) happens with the guard off.
"""
from __future__ import annotations

import contextlib
import os
import sys

GUARD = "RPFT_VERIF"
FORCE_LEGACY = False          # the self-test sets this to compare the two tracers
_hosts_cache = {}


def _module():
    import rpft.parsers.creation.flowparser as fp
    return fp


def available() -> bool:
    if FORCE_LEGACY or os.environ.get("VERIF_NO_HOOK") == "1":
        return False
    fp = _module()
    return callable(getattr(fp, "_verif_event", None)) and hasattr(fp, "_verif_sink")


@contextlib.contextmanager
def sink(fn):
    """install `fn(name, data)` as the project's sink and switch the guard on, for this block only"""
    fp = _module()
    old_sink, old_env = fp._verif_sink, os.environ.get(GUARD)
    fp._verif_sink = fn
    os.environ[GUARD] = "1"
    try:
        yield
    finally:
        fp._verif_sink = old_sink
        if old_env is None:
            os.environ.pop(GUARD, None)
        else:
            os.environ[GUARD] = old_env


def _host_code():
    """code object of the function whose body called `_verif_event` (walks up from the sink)"""
    f = sys._getframe(1)
    while f is not None and f.f_code.co_name != "_verif_event":
        f = f.f_back
    return f.f_back.f_code if f is not None and f.f_back is not None else None


def hosts():
    """{"row" | "noop_row" | "append_group": CURRENT name of the FlowParser method whose body emits that event}
    found by running the real parser on a probe sheet and looking at who calls the hook; None if the events do
    not come from methods of FlowParser (then the caller falls back to the names the harness knows).
    Needed only where a tracer must REPLACE the consumers of the block machine (flat_tie.trace_flat)."""
    fp = _module()
    cls = fp.FlowParser
    if cls in _hosts_cache:
        return _hosts_cache[cls]
    from rpft.rapidpro.models.containers import RapidProContainer

    from .flows import LogCapture, table_from_rows

    seen = {}

    def probe(name, data):
        seen.setdefault(name, _host_code())

    rows = [{"row_id": "a", "type": "send_message", "from": "start", "message_text": "a"},
            {"row_id": "b", "type": "begin_block", "from": "a"},
            {"row_id": "c", "type": "no_op", "from": ""},
            {"row_id": "", "type": "end_block"}]
    out = {}
    try:
        with LogCapture(), sink(probe):
            cls(RapidProContainer(), "probe", table_from_rows(["row_id", "type", "from", "message_text"], rows)).parse()
        for ev in ("row", "noop_row", "append_group"):
            code = seen.get(ev)
            fn = getattr(cls, code.co_name, None) if code is not None else None
            if getattr(fn, "__code__", None) is not code:
                out = None
                break
            out[ev] = code.co_name
    except Exception:  # noqa: BLE001
        out = None
    _hosts_cache[cls] = out
    return out
