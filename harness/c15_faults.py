"""C15 helpers, part 3: fault classes.  Each generator takes a valid base workbook and yields
every injection of its fault: (site description, faulty workbook, regex the command must print
on stderr or write to errors.log).  Sites are enumerated exhaustively; the check samples them
in the quick tier.
"""
from __future__ import annotations

from . import c15_abs as A
from .c15_wb import FH, IH, TH, U, sheet, wb_copy

NOROW = "nosuchrow"
NOSHEET = "nosuchsheet"
NOID = "nosuchid"
NOFLOW = "nosuchflow xyz"

P_UNTERMINATED = r"Sheet has unterminated block"
P_WRONG = r"Wrong block terminator"
P_BLOCK = P_UNTERMINATED + "|" + P_WRONG
# a shifted block boundary (terminator deleted, block closed early, block opened inside another) may
# first surface as one of its consequences at an earlier row — an edge from the id of a block that is
# no longer closed, a loop variable used after its loop, "Block has no loose exit", … — so for those
# variants the oracle asks for *a* named problem (a CRITICAL record or a traceback), not a particular one
P_BLOCK_LOOSE = P_BLOCK + r"|CRITICAL: [^\n]+|Traceback \(most recent call last\)"


def open_stack_at(rows, p):
    """kinds of the blocks open before position p (innermost last)"""
    st = []
    for r in rows[:p]:
        t = r.get("type")
        if t == "begin_for":
            st.append("for")
        elif t == "begin_block":
            st.append("block")
        elif t in ("end_for", "end_block") and st:
            st.pop()
    return st

NODE_TYPES_FOR_EDGE = {"send_message", "wait_for_response", "save_value"}


def flow_sheets(wb, a):
    """(sheet name, rows, status) of every flow sheet that is parsed at least once"""
    out = []
    for n in a.used_sheets:
        rows = wb["sheets"][n]["rows"]
        out.append((n, rows, A.row_status(rows)))
    return out


def _with_rows(wb, name, rows):
    w = wb_copy(wb)
    w["sheets"][name]["rows"] = [dict(r) for r in rows]
    _fit_headers(w["sheets"][name])
    return w


def _fit_headers(sh):
    for r in sh["rows"]:
        for k in r:
            if k not in sh["h"]:
                sh["h"].append(k)


def _insert(rows, p, new):
    return rows[:p] + [dict(x) for x in new] + rows[p:]


def insert_positions(rows, st, need_eval=True):
    """positions 0..n where an inserted row is certainly evaluated"""
    out = []
    for p in range(len(rows) + 1):
        if p < len(rows):
            sc, d = st[p]["scope"], st[p]["depth"]
            if rows[p].get("type") in ("end_for", "end_block"):
                d = st[p]["depth"]
        else:
            sc, d = True, 0
        if sc is True or not need_eval:
            out.append((p, d))
    return out


def earlier_node_id(rows, st, p):
    """row id of an evaluated plain node row before position p (registered in row_id_to_nodegroup)"""
    for i in range(p - 1, -1, -1):
        r = rows[i]
        if st[i]["eval"] is True and r.get("row_id", "").strip() and r.get("type") in NODE_TYPES_FOR_EDGE \
                and "{" not in r.get("row_id", ""):
            return r["row_id"].strip()
    return None


# ------------------------------------------------------------------ block structure


def unterminated(wb, a):
    for n, rows, st in flow_sheets(wb, a):
        for p, d in insert_positions(rows, st, need_eval=False):
            for kind in ("begin_block", "begin_for"):
                new = {"type": kind, "from": "start"}
                if kind == "begin_for":
                    new.update({"loop_variable": "zz", "message_text": "1;2"})
                yield ({"sheet": n, "pos": p, "how": "insert " + kind, "depth": d},
                       _with_rows(wb, n, _insert(rows, p, [new])), P_UNTERMINATED if d == 0 and _closed_after(rows, p) else P_BLOCK_LOOSE)
        for i, r in enumerate(rows):
            if r.get("type") in ("end_for", "end_block"):
                yield ({"sheet": n, "pos": i, "how": "delete " + r["type"], "depth": st[i]["depth"]},
                       _with_rows(wb, n, rows[:i] + rows[i + 1:]), P_BLOCK_LOOSE)


def _closed_after(rows, p):
    """no terminator follows position p at depth 0 (so the inserted block can only run to the end of the sheet)"""
    d = 0
    for r in rows[p:]:
        t = r.get("type")
        if t in ("begin_for", "begin_block"):
            d += 1
        elif t in ("end_for", "end_block"):
            if d == 0:
                return False
            d -= 1
    return True


def mismatched(wb, a):
    other = {"end_for": "end_block", "end_block": "end_for"}
    for n, rows, st in flow_sheets(wb, a):
        for i, r in enumerate(rows):
            if r.get("type") in other:
                rr = [dict(x) for x in rows]
                rr[i]["type"] = other[r["type"]]
                yield ({"sheet": n, "pos": i, "how": "swap " + r["type"]}, _with_rows(wb, n, rr), P_WRONG)
        for p, d in insert_positions(rows, st, need_eval=False):
            for kind in ("end_for", "end_block"):
                stack = open_stack_at(rows, p)
                closes = bool(stack) and stack[-1] == kind[4:]
                yield ({"sheet": n, "pos": p, "how": "stray " + kind, "depth": d},
                       _with_rows(wb, n, _insert(rows, p, [{"type": kind}])), P_BLOCK_LOOSE if closes else P_WRONG)


# ------------------------------------------------------------------ row level


def edge_unknown_row(wb, a):
    for n, rows, st in flow_sheets(wb, a):
        for i, r in enumerate(rows):
            if st[i]["eval"] is not True or r.get("type") in ("end_for", "end_block"):
                continue
            rr = [dict(x) for x in rows]
            fr = A.split1(r.get("from", "")) or [""]
            fr[0] = NOROW
            rr[i]["from"] = ";".join(fr) if len(fr) > 1 else fr[0]
            yield ({"sheet": n, "pos": i, "how": "from of " + r.get("type", "")}, _with_rows(wb, n, rr),
                   r'Edge from row_id "%s" which does not exist' % NOROW)


def loop_without_variable(wb, a):
    for n, rows, st in flow_sheets(wb, a):
        for i, r in enumerate(rows):
            if st[i]["eval"] is True and r.get("type") == "begin_for":
                for how, val in (("blank", ""), ("blank first", ";i")):
                    rr = [dict(x) for x in rows]
                    rr[i]["loop_variable"] = val
                    yield ({"sheet": n, "pos": i, "how": how + " loop_variable"}, _with_rows(wb, n, rr),
                           r"begin_for must have a loop_variable")
        for p, d in insert_positions(rows, st):
            new = [{"type": "begin_for", "from": "start", "message_text": "1;2"}, {"type": "end_for"}]
            yield ({"sheet": n, "pos": p, "how": "insert loop without variable", "depth": d},
                   _with_rows(wb, n, _insert(rows, p, new)), r"begin_for must have a loop_variable")


def goto_arity(wb, a):
    for n, rows, st in flow_sheets(wb, a):
        for p, d in insert_positions(rows, st):
            x = earlier_node_id(rows, st, p)
            if not x:
                continue
            for how, new in (
                ("1 edge 2 targets", {"type": "go_to", "from": x, "message_text": f"{x};{x}"}),
                ("2 edges 3 targets", {"type": "go_to", "from": f"{x};{x}", "condition": "qa;qb", "message_text": f"{x};{x};{x}"}),
            ):
                yield ({"sheet": n, "pos": p, "how": how, "depth": d}, _with_rows(wb, n, _insert(rows, p, [new])),
                       r"number of destinations has to match the number of incoming edges")


def goto_unknown_target(wb, a):
    for n, rows, st in flow_sheets(wb, a):
        for p, d in insert_positions(rows, st):
            x = earlier_node_id(rows, st, p)
            if not x:
                continue
            yield ({"sheet": n, "pos": p, "how": "go_to unknown row", "depth": d},
                   _with_rows(wb, n, _insert(rows, p, [{"type": "go_to", "from": x, "message_text": NOROW}])),
                   r"KeyError: '%s'" % NOROW)


def empty_text(wb, a):
    for n, rows, st in flow_sheets(wb, a):
        for i, r in enumerate(rows):
            if st[i]["eval"] is True and r.get("type") == "send_message":
                rr = [dict(x) for x in rows]
                rr[i]["message_text"] = ""
                yield ({"sheet": n, "pos": i, "how": "blank message_text"}, _with_rows(wb, n, rr),
                       r"send_msg action requires non-empty text")
        for p, d in insert_positions(rows, st):
            yield ({"sheet": n, "pos": p, "how": "insert empty send_message", "depth": d},
                   _with_rows(wb, n, _insert(rows, p, [{"type": "send_message", "from": "start", "message_text": ""}])),
                   r"send_msg action requires non-empty text")
        # a message without text is a message without text whatever else the row carries: media, quick replies,
        # attachment columns that are there but blank (padding of a sheet whose other rows use them)
        extras = [("with an image", {"image": "http://x.org/i.png"}), ("with an attachment", {"attachments": "image:http://x.org/a.png"}),
                  ("with blank attachments.k columns", {"attachments.1": "", "attachments.2": ""}),
                  ("with an attachments cell holding blanks only", {"attachments": ";"}),
                  ("with quick replies", {"choices": "yes;no"}), ("with audio and video", {"audio": "http://x.org/a.mp3", "video": "http://x.org/v.mp4"})]
        pos = list(insert_positions(rows, st))
        for k, (label, extra) in enumerate(extras):
            if not pos:
                break
            p, d = pos[(k * 7 + len(rows)) % len(pos)]
            yield ({"sheet": n, "pos": p, "how": "insert empty send_message " + label, "depth": d},
                   _with_rows(wb, n, _insert(rows, p, [dict({"type": "send_message", "from": "start", "message_text": ""}, **extra)])),
                   r"send_msg action requires non-empty text")


def overlong_value(wb, a, length=641):
    pat = r"limited to 640 characters, but value has length %d" % length
    for n, rows, st in flow_sheets(wb, a):
        for i, r in enumerate(rows):
            if st[i]["eval"] is True and r.get("type") in ("save_value", "save_flow_result"):
                rr = [dict(x) for x in rows]
                rr[i]["message_text"] = "v" * length
                yield ({"sheet": n, "pos": i, "how": "long " + r["type"]}, _with_rows(wb, n, rr), pat)
        for p, d in insert_positions(rows, st):
            for t in ("save_value", "save_flow_result"):
                new = {"type": t, "from": "start", "message_text": "w" * length, "save_name": "long field"}
                yield ({"sheet": n, "pos": p, "how": "insert long " + t, "depth": d}, _with_rows(wb, n, _insert(rows, p, [new])), pat)


def overlong_category(wb, a, length=116):
    pat = r"Category name too long"
    for n, rows, st in flow_sheets(wb, a):
        ids = {r.get("row_id", "").strip(): r.get("type") for r in rows}
        for i, r in enumerate(rows):
            if st[i]["eval"] is not True or r.get("type") in A.BLOCK_TYPES | {"go_to", "hard_exit", "loose_exit", "no_op", "insert_as_block"}:
                continue
            edges = A.edge_lists(r)
            for k, e in enumerate(edges):
                if not e["condition"] or e["condition"].lower() in A.SPECIAL_CONDS or "{" in e["condition"]:
                    continue
                src = e["from"] if e["from"] else (rows[i - 1].get("row_id", "").strip() if i > 0 else None)
                if not src or ids.get(src) not in ("send_message", "wait_for_response", "save_value", "split_by_value"):
                    continue
                if not e["from"] and (st[i - 1]["eval"] is not True or st[i - 1]["depth"] != st[i]["depth"]):
                    continue
                # the test must be the first with these arguments at its source (otherwise the name is ignored)
                names = [x["condition_name"] for x in edges]
                names[k] = "C" * length
                rr = [dict(x) for x in rows]
                rr[i]["condition_name"] = ";".join(names) if len(names) > 1 else names[0]
                yield ({"sheet": n, "pos": i, "edge": k, "how": "long condition_name"}, _with_rows(wb, n, rr), pat)
        for p, d in insert_positions(rows, st):
            x = earlier_node_id(rows, st, p)
            if not x:
                continue
            new = {"type": "send_message", "from": x, "condition": "zzqx", "condition_name": "N" * length, "message_text": "cat"}
            yield ({"sheet": n, "pos": p, "how": "insert row with long condition_name", "depth": d},
                   _with_rows(wb, n, _insert(rows, p, [new])), pat)


def bad_headers(wb, a):
    pat = r"webhook\.headers: Value must be a list of pairs"
    for n, rows, st in flow_sheets(wb, a):
        for i, r in enumerate(rows):
            if st[i]["eval"] is True and r.get("type") == "call_webhook":
                for val in ("a;b;c", "justastring", "k;v|single|"):
                    rr = [dict(x) for x in rows]
                    rr[i]["webhook.headers"] = val
                    yield ({"sheet": n, "pos": i, "how": "headers " + val}, _with_rows(wb, n, rr), pat)
        for p, d in insert_positions(rows, st):
            new = {"type": "call_webhook", "from": "start", "webhook.url": "http://example.org/x", "webhook.method": "GET",
                   "webhook.headers": "a;b;c", "save_name": "bad hook"}
            yield ({"sheet": n, "pos": p, "how": "insert webhook with bad headers", "depth": d},
                   _with_rows(wb, n, _insert(rows, p, [new])), pat)


def bad_method(wb, a):
    pat = r"Method for WebhookNode must a valid HTTP method"
    for n, rows, st in flow_sheets(wb, a):
        for i, r in enumerate(rows):
            if st[i]["eval"] is True and r.get("type") == "call_webhook":
                rr = [dict(x) for x in rows]
                rr[i]["webhook.method"] = "FETCH"
                yield ({"sheet": n, "pos": i, "how": "method FETCH"}, _with_rows(wb, n, rr), pat)
        for p, d in insert_positions(rows, st):
            new = {"type": "call_webhook", "from": "start", "webhook.url": "http://example.org/x", "webhook.method": "get",
                   "webhook.headers": "", "save_name": "bad hook"}
            yield ({"sheet": n, "pos": p, "how": "insert webhook with method get", "depth": d},
                   _with_rows(wb, n, _insert(rows, p, [new])), pat)


def uuid_conflict(wb, a):
    pat = r"has multiple uuids"
    fs = flow_sheets(wb, a)
    # change one of two agreeing obj_ids
    for n, rows, st in fs:
        for i, r in enumerate(rows):
            if st[i]["eval"] is True and r.get("obj_id", "").strip() and r.get("type") in (
                    "add_to_group", "remove_from_group", "start_new_flow"):
                name = r.get("message_text", "").strip()
                twins = sum(1 for (m, rows2, st2) in fs for j, q in enumerate(rows2)
                            if st2[j]["eval"] is True and q.get("obj_id", "").strip() and q.get("message_text", "").strip() == name
                            and (q.get("type") == "start_new_flow") == (r.get("type") == "start_new_flow"))
                if twins >= 2:
                    rr = [dict(x) for x in rows]
                    rr[i]["obj_id"] = U[3]
                    yield ({"sheet": n, "pos": i, "how": "change obj_id of " + r["type"]}, _with_rows(wb, n, rr), pat)
    # insert a conflicting pair: both in one sheet, or one in the first and one in the last parsed sheet
    mk = lambda t, u: {"type": t, "from": "start", "message_text": "Conflict Group" if t != "start_new_flow" else "conflict flow", "obj_id": u}  # noqa: E731
    for n, rows, st in fs:
        for p, d in insert_positions(rows, st):
            for t in ("add_to_group", "start_new_flow"):
                yield ({"sheet": n, "pos": p, "how": "insert conflicting pair of " + t, "depth": d},
                       _with_rows(wb, n, _insert(rows, p, [mk(t, U[2]), mk("remove_from_group" if t == "add_to_group" else t, U[3])])), pat)
    if len(fs) >= 2:
        (n1, r1, s1), (n2, r2, s2) = fs[0], fs[-1]
        p1 = [p for p, _ in insert_positions(r1, s1)]
        p2 = [p for p, _ in insert_positions(r2, s2)]
        for q1 in p1[:: max(1, len(p1) // 3)]:
            for q2 in p2[:: max(1, len(p2) // 3)]:
                w = _with_rows(wb, n1, _insert(r1, q1, [mk("add_to_group", U[2])]))
                w = _with_rows(w, n2, _insert(r2, q2, [mk("add_to_group", U[3])]))
                yield ({"sheet": [n1, n2], "pos": [q1, q2], "how": "conflicting obj_id across two flows"}, w, pat)


    # one of the two conflicting identifiers sits inside a template that is INSERTED AS A BLOCK, on a row whose
    # obj_id is recorded while the block is parsed (split_by_group / start_new_flow); the other in another flow
    inserted = {r.get("message_text", "").strip() for (_n, rows, _st) in fs for r in rows if r.get("type") == "insert_as_block"}
    mk2 = lambda t, u: {"type": t, "from": "start", "message_text": "Conflict Group" if t != "start_new_flow" else "conflict flow", "obj_id": u}  # noqa: E731
    for (n1, r1, s1) in fs:
        if n1 not in inserted:
            continue
        others = [(n2, r2, s2) for (n2, r2, s2) in fs if n2 != n1 and n2 not in inserted]
        p1 = [p for p, _ in insert_positions(r1, s1)]
        for (n2, r2, s2) in others[:2]:
            p2 = [p for p, _ in insert_positions(r2, s2)]
            if not p1 or not p2:
                continue
            for t in ("split_by_group", "start_new_flow"):
                for q1 in (p1[0], p1[-1]):
                    w = _with_rows(wb, n1, _insert(r1, q1, [mk2(t, U[2])]))
                    w = _with_rows(w, n2, _insert(r2, p2[-1], [mk2(t, U[3])]))
                    yield ({"sheet": [n1, n2], "pos": [q1, p2[-1]], "how": "conflicting obj_id of " + t + " inside an inserted block and in another flow",
                            "posclass": "inside a template inserted as a block"}, w, pat)


# ------------------------------------------------------------------ index level


def index_rows(wb):
    """(index sheet, row number, row) for every live index row, nested indices included"""
    out = []

    def walk(name, seen):
        for i, r in enumerate(wb["sheets"][name]["rows"]):
            if r.get("status", "").strip() == "draft":
                continue
            out.append((name, i, r))
            if r.get("type") == "content_index":
                sub = A.split1(r.get("sheet_name", ""))[0]
                if sub in wb["sheets"] and sub not in seen:
                    walk(sub, seen | {sub})

    if "content_index" in wb["sheets"]:
        walk("content_index", {"content_index"})
    return out


def _with_index_row(wb, name, i, **changes):
    w = wb_copy(wb)
    w["sheets"][name]["rows"][i].update(changes)
    _fit_headers(w["sheets"][name])
    return w


def missing_sheet(wb, a):
    pat = r"Sheet not found.*" + NOSHEET
    for name, i, r in index_rows(wb):
        names = A.split1(r.get("sheet_name", ""))
        for k in range(len(names)):
            if r.get("type") == "data_sheet" and r.get("operation.type", "") in ("filter", "sort") and k > 0:
                continue
            if r.get("type") == "data_sheet" and names[k] in _registered_before(wb, name, i):
                continue
            nn = list(names)
            nn[k] = NOSHEET
            yield ({"index": name, "row": i, "how": "rename sheet of " + r.get("type", ""), "k": k},
                   _with_index_row(wb, name, i, sheet_name=";".join(nn)), pat)
    # delete a sheet file that the index names
    for name, i, r in index_rows(wb):
        for s in A.split1(r.get("sheet_name", "")):
            if s in wb["sheets"] and s != "content_index":
                w = wb_copy(wb)
                del w["sheets"][s]
                yield ({"index": name, "row": i, "how": "delete sheet file " + s}, w, r"Sheet not found.*" + s.replace(" ", r"\s"))


def _registered_before(wb, name, i):
    """names under which earlier data_sheet rows registered their result"""
    out = set()
    for n2, j, r in index_rows(wb):
        if n2 == name and j == i:
            break
        if r.get("type") == "data_sheet":
            out.add(r.get("new_name", "").strip() or A.split1(r.get("sheet_name", ""))[0])
    return out


def missing_data_row(wb, a):
    pat = r"KeyError: '%s'" % NOID
    for name, i, r in index_rows(wb):
        if r.get("type") == "create_flow" and r.get("data_sheet", "").strip():
            yield ({"index": name, "row": i, "how": "create_flow data_row_id"}, _with_index_row(wb, name, i, data_row_id=NOID), pat)
    for n, rows, st in flow_sheets(wb, a):
        for j, r in enumerate(rows):
            if st[j]["eval"] is True and r.get("type") == "insert_as_block" and r.get("data_sheet", "").strip():
                rr = [dict(x) for x in rows]
                rr[j]["data_row_id"] = NOID
                yield ({"sheet": n, "pos": j, "how": "insert_as_block data_row_id"}, _with_rows(wb, n, rr), pat)


def data_row_id_without_sheet(wb, a):
    for name, i, r in index_rows(wb):
        if r.get("type") == "create_flow" and not r.get("data_sheet", "").strip():
            yield ({"index": name, "row": i, "how": "create_flow data_row_id without data_sheet"},
                   _with_index_row(wb, name, i, data_row_id="row1"), r"if data_row_id is provided, data_sheet must\s+also be provided")
    for n, rows, st in flow_sheets(wb, a):
        for j, r in enumerate(rows):
            if st[j]["eval"] is True and r.get("type") == "insert_as_block" and r.get("data_sheet", "").strip():
                rr = [dict(x) for x in rows]
                rr[j]["data_row_id"] = ""
                yield ({"sheet": n, "pos": j, "how": "insert_as_block data_sheet without data_row_id"}, _with_rows(wb, n, rr),
                       r"either both data_sheet and data_row_id or neither")


def arg_missing(wb, a):
    for name, i, r in index_rows(wb):
        if r.get("type") != "template_definition":
            continue
        t = A.split1(r.get("sheet_name", ""))[0]
        if t not in a.used_sheets:
            continue
        defs = a.templates.get(t, [])
        uses = _uses_of(wb, a, t)
        if not uses or any(n_args > len(defs) for n_args, _ in uses):
            continue
        cell = r.get("template_arguments", "")
        base = cell if cell.endswith("|") or cell == "" else cell + "|"
        yield ({"index": name, "row": i, "how": "append required argument to " + t},
               _with_index_row(wb, name, i, template_arguments=base + "reqarg;;|"),
               r'Required template argument "reqarg" not provided')
        # remove the default of an argument that some instantiation leaves blank
        for k, d in enumerate(defs):
            if d[2] and any(_blank_at(args, k) for args in _args_of(wb, a, t)):
                nd = [list(x) for x in defs]
                nd[k][2] = ""
                yield ({"index": name, "row": i, "how": f"remove default of argument {d[0]} of {t}"},
                       _with_index_row(wb, name, i, template_arguments="".join(";".join(x).rstrip(";") + (";;" if not x[1] and not x[2] else "") + "|" for x in nd)),
                       r'Required template argument "%s" not provided' % d[0])
    # blank a passed argument that has no default
    for name, i, r in index_rows(wb):
        if r.get("type") == "create_flow":
            t = A.split1(r.get("sheet_name", ""))[0]
            defs = a.templates.get(t, [])
            args = _args_list(r.get("template_arguments", ""))
            for k, d in enumerate(defs):
                if not d[2] and k < len(args) and args[k]:
                    na = list(args)
                    na[k] = ""
                    if r.get("data_sheet", "").strip() and not a.reg.get(r["data_sheet"].strip()):
                        continue
                    yield ({"index": name, "row": i, "how": f"blank argument {d[0]} of create_flow"},
                           _with_index_row(wb, name, i, template_arguments=";".join(na) + (";" if na[-1] == "" else "")),
                           r'Required template argument "%s" not provided' % d[0])
    for n, rows, st in flow_sheets(wb, a):
        for j, r in enumerate(rows):
            if st[j]["eval"] is True and r.get("type") == "insert_as_block":
                t = r.get("message_text", "").strip()
                defs = a.templates.get(t, [])
                args = _args_list(r.get("template_arguments", ""))
                for k, d in enumerate(defs):
                    if not d[2] and k < len(args) and args[k]:
                        na = list(args)
                        na[k] = ""
                        rr = [dict(x) for x in rows]
                        rr[j]["template_arguments"] = ";".join(na) + (";" if na[-1] == "" else "")
                        yield ({"sheet": n, "pos": j, "how": f"blank argument {d[0]} of insert_as_block"}, _with_rows(wb, n, rr),
                               r'Required template argument "%s" not provided' % d[0])


def _args_list(cell):
    v = A.as_list(A.split2(cell))
    v = [x if isinstance(x, str) else ";".join(x) for x in v]
    return [] if v == [""] else v


def _instantiations(wb, a, t):
    """(args, has data context, context field names) of every instantiation of template sheet t"""
    out = []
    for name, i, r in index_rows(wb):
        if r.get("type") == "create_flow" and A.split1(r.get("sheet_name", ""))[0] == t:
            ds = r.get("data_sheet", "").strip()
            if ds and not a.reg.get(ds) and not r.get("data_row_id", "").strip():
                continue
            out.append((_args_list(r.get("template_arguments", "")), bool(ds), a.reg_fields.get(ds, []) if ds else []))
    for n, rows, st in flow_sheets(wb, a):
        for j, r in enumerate(rows):
            if st[j]["eval"] is True and r.get("type") == "insert_as_block" and r.get("message_text", "").strip() == t:
                ds = r.get("data_sheet", "").strip()
                out.append((_args_list(r.get("template_arguments", "")), bool(ds), a.reg_fields.get(ds, []) if ds else []))
    return out


def _uses_of(wb, a, t):
    return [(len(args), has) for args, has, _ in _instantiations(wb, a, t)]


def _args_of(wb, a, t):
    return [args for args, _, _ in _instantiations(wb, a, t)]


def _blank_at(args, k):
    return k >= len(args) or args[k] == ""


def arg_doubly_defined(wb, a):
    for name, i, r in index_rows(wb):
        if r.get("type") != "template_definition":
            continue
        t = A.split1(r.get("sheet_name", ""))[0]
        if t not in a.used_sheets:
            continue
        defs = a.templates.get(t, [])
        cell = r.get("template_arguments", "")
        base = cell if cell.endswith("|") or cell == "" else cell + "|"
        insts = _instantiations(wb, a, t)
        if not insts:
            continue
        for d in defs:
            # same name again, with a default so that "not provided" cannot fire first
            yield ({"index": name, "row": i, "how": f"define argument {d[0]} of {t} twice"},
                   _with_index_row(wb, name, i, template_arguments=base + d[0] + ";;again|"),
                   r'Template argument "%s" doubly defined' % d[0])
        # the first instantiation decides which field name clashes
        fields = insts[0][2]
        for f in fields:
            if f in [d[0] for d in defs]:
                continue
            yield ({"index": name, "row": i, "how": f"argument named like data field {f} of {t}"},
                   _with_index_row(wb, name, i, template_arguments=base + f + ";;dv|"),
                   r'Template argument "%s" doubly defined' % f)


def unknown_data_model(wb, a):
    if not wb.get("models"):
        return
    for name, i, r in index_rows(wb):
        if r.get("type") == "data_sheet":
            names = A.split1(r.get("sheet_name", ""))
            used = names if r.get("operation.type", "") in ("", "concat") else names[:1]
            if all(n in _registered_before(wb, name, i) for n in used):
                continue
            yield ({"index": name, "row": i, "how": "data_model NoSuchModel"}, _with_index_row(wb, name, i, data_model="NoSuchModel"),
                   r'Undefined data_model_name "NoSuchModel"')


def unknown_operation(wb, a):
    for name, i, r in index_rows(wb):
        if r.get("type") == "data_sheet":
            ch = {"operation.type": "frobnicate"}
            if not r.get("new_name", "").strip():
                ch["new_name"] = "renamed by fault"
            yield ({"index": name, "row": i, "how": "operation frobnicate"}, _with_index_row(wb, name, i, **ch), r"Unknown operation")


def operation_without_new_name(wb, a):
    for name, i, r in index_rows(wb):
        if r.get("type") == "data_sheet":
            ch = {"new_name": ""}
            if not r.get("operation.type", "").strip():
                ch["operation.type"] = "concat"
            yield ({"index": name, "row": i, "how": "operation without new_name"}, _with_index_row(wb, name, i, **ch),
                   r"a new_name has to be\s+provided")


def trigger_unknown_flow(wb, a):
    pat = r"Trigger references undefined flow name " + NOFLOW
    found = False
    seen = set()
    for name, i, r in index_rows(wb):
        if r.get("type") == "create_triggers":
            s = A.split1(r.get("sheet_name", ""))[0]
            if s in seen:       # a sheet listed twice is one parser
                continue
            seen.add(s)
            for j, _t in enumerate(wb["sheets"][s]["rows"]):
                found = True
                w = wb_copy(wb)
                w["sheets"][s]["rows"][j]["flow"] = NOFLOW
                yield ({"sheet": s, "pos": j, "how": "trigger row names an unknown flow"}, w, pat)
                # a flow that only a REPLACED flow definition refers to (by name, without a uuid) is unknown too:
                # the replaced flow is parsed and checked, but never reaches the container / the uuid dictionary
                for nm in a.replaced_only_refs:
                    w = wb_copy(wb)
                    w["sheets"][s]["rows"][j]["flow"] = nm
                    yield ({"sheet": s, "pos": j, "how": "trigger row names a flow that only a replaced definition refers to: " + nm}, w,
                           r"Trigger references undefined flow name " + nm)
    if not found and "content_index" in wb["sheets"]:
        rows = wb["sheets"]["content_index"]["rows"]
        for p in range(len(rows) + 1):
            w = wb_copy(wb)
            w["sheets"]["content_index"]["rows"] = _insert(rows, p, [{"type": "create_triggers", "sheet_name": "fault trigs"}])
            w["sheets"]["fault trigs"] = sheet(TH, [{"type": "K", "keywords": "go", "flow": NOFLOW}])
            yield ({"index": "content_index", "row": p, "how": "add trigger sheet naming an unknown flow"}, w, pat)


def no_content_index(wb, a):
    w = wb_copy(wb)
    del w["sheets"]["content_index"]
    yield ({"how": "delete content_index.csv"}, w, r"No content index sheet provided")
    w = wb_copy(wb)
    w["sheets"]["Content_Index"] = w["sheets"].pop("content_index")
    yield ({"how": "rename content_index.csv to Content_Index.csv"}, w, r"No content index sheet provided")


# ------------------------------------------------------------------ detection sites of the former finding F-C15-a

BAD_INDEX_TYPE = "create_flows"
BAD_ROW_TYPE = "send_mesage"
BAD_CONTACT_ROW = "set_contact_email"
P_INDEX_TYPE = r"invalid type: '%s'"
P_SHEET_COUNT = r"exactly one sheet_name has to be\s+specified"
P_FLOW_OUTCOME = r"Condition from start_new_flow must be"
P_HOOK_OUTCOME = r"Condition from call_webhook/transfer_airtime must be"
P_NO_DEFAULT = r"does not support default exits"


def unknown_index_type(wb, a):
    """an index row whose type the dispatch does not know: the type of every live row mistyped / blanked, and a new
    row of an unknown type at every position of every index sheet (nested ones included)"""
    for name, i, r in index_rows(wb):
        n = len(A.split1(r.get("sheet_name", "")))
        for how, t in (("mistype", r.get("type", "") + "s"), ("blank", "")):
            # the sheet_name count is tested before the type (data_sheet rows may name several sheets)
            pat = (P_INDEX_TYPE % t) if n == 1 else P_SHEET_COUNT
            yield ({"index": name, "row": i, "how": f"{how} type of {r.get('type', '')} row"}, _with_index_row(wb, name, i, type=t), pat)
    seen = []
    for name, _i, _r in index_rows(wb):
        if name not in seen:
            seen.append(name)
    for name in ["content_index"] + [n for n in seen if n != "content_index"]:
        rows = wb["sheets"][name]["rows"]
        for p in range(len(rows) + 1):
            # rows after a draft row etc. are all live in the bases; the new row names a sheet that does not exist:
            # no sheet is looked up for a row of unknown type
            for how, new, pat in (
                ("insert row of unknown type", {"type": BAD_INDEX_TYPE, "sheet_name": NOSHEET}, P_INDEX_TYPE % BAD_INDEX_TYPE),
                ("insert row of unknown type without sheet_name", {"type": BAD_INDEX_TYPE, "sheet_name": ""}, P_SHEET_COUNT),
            ):
                w = wb_copy(wb)
                w["sheets"][name]["rows"] = _insert(rows, p, [new])
                yield ({"index": name, "row": p, "how": how, "inserted": True}, w, pat)


def _outcome_sources():
    return (
        ("start_new_flow", {"type": "start_new_flow", "from": "start", "message_text": "outcome flow"}, "Complet", P_FLOW_OUTCOME),
        ("call_webhook", {"type": "call_webhook", "from": "start", "webhook.url": "http://example.org/o", "webhook.method": "GET",
                          "webhook.headers": "", "save_name": "outcome hook"}, "Sucess", P_HOOK_OUTCOME),
        ("transfer_airtime", {"type": "transfer_airtime", "from": "start", "message_text": "KES;10|", "save_name": "outcome air"},
         "done", P_HOOK_OUTCOME),
    )


def bad_outcome(wb, a):
    """an edge leaving a start_new_flow / call_webhook / transfer_airtime row with a condition that is not one of the
    row's outcomes: on the existing edges of the workbook, and on a new source row + leaving row at every position"""
    for n, rows, st in flow_sheets(wb, a):
        kind = {}
        for i, r in enumerate(rows):
            if st[i]["eval"] is not True:
                continue
            t = r.get("type", "").strip()
            if t not in A.NOT_PLAIN | {"no_op"} or t in ("go_to", "hard_exit", "loose_exit", "insert_as_block"):
                edges = A.edge_lists(r)
                for k, e in enumerate(edges):
                    src = kind.get(e["from"]) if e["from"] else None
                    if src and e["condition"] and "{" not in e["condition"] and len(edges) == max(1, len(A.split1(r.get("condition", "")))):
                        conds = [x["condition"] for x in edges]
                        conds[k] = {"flow": "Complet", "hook": "Sucess"}[src]
                        rr = [dict(x) for x in rows]
                        rr[i]["condition"] = ";".join(conds) if len(conds) > 1 else conds[0]
                        yield ({"sheet": n, "pos": i, "edge": k, "how": "misspell the condition of an edge leaving a %s row" % src},
                               _with_rows(wb, n, rr), P_FLOW_OUTCOME if src == "flow" else P_HOOK_OUTCOME)
            if t not in A.NOT_PLAIN and r.get("row_id", "").strip() and "{" not in r.get("row_id", ""):
                kind[r["row_id"].strip()] = A.OUTCOME_SRC.get(t)
        for p, d in insert_positions(rows, st):
            x = earlier_node_id(rows, st, p)
            for j, (tname, src, bad, pat) in enumerate(_outcome_sources()):
                src = dict(src, row_id="zqsrc")
                # the leaving row: a plain row, a go_to (when there is a row to go to) or an exit, in turn
                leave = [
                    {"type": "send_message", "from": "zqsrc", "condition": bad, "message_text": "after outcome"},
                    {"type": "go_to", "from": "zqsrc", "condition": bad, "message_text": x or "zqsrc"},
                    {"type": "hard_exit", "from": "zqsrc", "condition": bad},
                ][(p + j) % 3]
                yield ({"sheet": n, "pos": p, "how": f"insert {tname} row left by a {leave['type']} row on condition {bad}", "depth": d},
                       _with_rows(wb, n, _insert(rows, p, [src, leave])), pat)
            # a condition that has a name / type but no value is not the unconditional edge; the unconditional edge has
            # a default exit to go to on a webhook, none on a start_new_flow row
            tname, src, _bad, pat = _outcome_sources()[p % 3]
            src = dict(src, row_id="zqsrc")
            yield ({"sheet": n, "pos": p, "how": f"insert {tname} row left on a condition with a name but no value", "depth": d},
                   _with_rows(wb, n, _insert(rows, p, [src, {"type": "send_message", "from": "zqsrc", "condition": "", "condition_name": "Named",
                                                            "message_text": "after outcome"}])), pat)
            src = dict(_outcome_sources()[0][1], row_id="zqsrc")
            yield ({"sheet": n, "pos": p, "how": "insert start_new_flow row left unconditionally", "depth": d},
                   _with_rows(wb, n, _insert(rows, p, [src, {"type": "send_message", "from": "zqsrc", "message_text": "after outcome"}])),
                   P_NO_DEFAULT)


def explicit_columns(sh):
    """the same flow sheet with the main-argument columns spelt out instead of `message_text` (the row parser then
    never needs `row_type_to_main_arg`)"""
    h = [x for x in sh["h"] if x != "message_text"]
    rows = []
    for r in sh["rows"]:
        q = {k: v for k, v in r.items() if k != "message_text"}
        f = A.MAINARG_FIELD.get(r.get("type", "").strip())
        if f and r.get("message_text", "") != "":
            q[f] = r["message_text"]
            if f not in h:
                h.append(f)
        rows.append(q)
    if not any(x.startswith("mainarg_") or x == "webhook.body" for x in h):
        h.append("mainarg_message_text")
    return {"h": h, "rows": rows}


def with_explicit_columns(wb, a, only=None):
    w = wb_copy(wb)
    for n in a.used_sheets:
        if only is None or n == only:
            w["sheets"][n] = explicit_columns(w["sheets"][n])
    return w


def _row_type_sites(wb, a, bad_type, cell, pat_log):
    pat_key = r"KeyError: '%s'" % bad_type
    for n, rows, st in flow_sheets(wb, a):
        # (a) the sheet as it is (a `message_text` column): the row parser fails on the row wherever it sits — evaluated
        # or not, inside an omitted block, even in place of a block row
        for p, d in insert_positions(rows, st, need_eval=False):
            ev = p == len(rows) or st[p]["scope"] is True
            yield ({"sheet": n, "pos": p, "how": f"insert {bad_type} row (sheet with message_text column)", "depth": d, "evaluated": ev},
                   _with_rows(wb, n, _insert(rows, p, [{"type": bad_type, "from": "start", "message_text": cell}])), pat_key)
        for i, r in enumerate(rows):
            rr = [dict(x) for x in rows]
            rr[i]["type"] = bad_type
            yield ({"sheet": n, "pos": i, "how": f"retype {r.get('type', '')} row as {bad_type} (sheet with message_text column)"},
                   _with_rows(wb, n, rr), pat_key)
        # (b) the same sheet with the main-argument columns spelt out: the row reaches the dispatch of the action
        ex = explicit_columns(wb["sheets"][n])
        wx = wb_copy(wb)
        wx["sheets"][n] = ex
        for p, d in insert_positions(rows, st):
            new = {"type": bad_type, "from": "start"}
            if cell:
                new["mainarg_value"] = cell
            w = wb_copy(wx)
            w["sheets"][n]["rows"] = _insert(ex["rows"], p, [new])
            _fit_headers(w["sheets"][n])
            yield ({"sheet": n, "pos": p, "how": f"insert {bad_type} row (main-argument columns spelt out)", "depth": d}, w, pat_log)


def unknown_row_type(wb, a):
    yield from _row_type_sites(wb, a, BAD_ROW_TYPE, "x", r"Row type %s not implemented" % BAD_ROW_TYPE)


def unknown_contact_property(wb, a):
    yield from _row_type_sites(wb, a, BAD_CONTACT_ROW, "someone@example.org", r"Unknown operation %s" % BAD_CONTACT_ROW)


# class name -> (generator, model fault kinds it may map to, listed in the property statement?)
CLASSES = {
    "unterminated block": (unterminated, {"unterminated", "wrongTerminator", "edgeFromUnknownRow"}, True),
    "mismatched block": (mismatched, {"wrongTerminator", "unterminated", "edgeFromUnknownRow"}, True),
    "edge from unknown row": (edge_unknown_row, {"edgeFromUnknownRow"}, True),
    "loop without variable": (loop_without_variable, {"forWithoutVariable"}, True),
    "go_to wrong number of targets": (goto_arity, {"gotoArity"}, True),
    "go_to unknown target": (goto_unknown_target, {"gotoUnknownTarget"}, False),
    "missing sheet": (missing_sheet, {"missingSheet"}, True),
    "missing data row": (missing_data_row, {"missingDataRow"}, True),
    "data_row_id without data_sheet": (data_row_id_without_sheet, {"dataRowIdWithoutSheet"}, False),
    "missing template argument": (arg_missing, {"argMissing"}, True),
    "doubly defined template argument": (arg_doubly_defined, {"argDoublyDefined"}, True),
    "unknown data model": (unknown_data_model, {"unknownDataModel"}, True),
    "unknown operation": (unknown_operation, {"unknownOperation"}, True),
    "operation without new_name": (operation_without_new_name, {"operationWithoutNewName"}, False),
    "empty message text": (empty_text, {"emptyText"}, True),
    "over-long value": (overlong_value, {"overlongValue"}, True),
    "over-long category name": (overlong_category, {"overlongCategory"}, True),
    "malformed webhook headers": (bad_headers, {"badHeaders"}, True),
    "invalid webhook method": (bad_method, {"badMethod"}, False),
    "conflicting uuids": (uuid_conflict, {"uuidConflict"}, True),
    "trigger for unknown flow": (trigger_unknown_flow, {"triggerUnknownFlow"}, True),
    "no content index": (no_content_index, {"noContentIndex"}, True),
    "unknown index row type": (unknown_index_type, {"unknownIndexType", "sheetNameCount"}, False),
    "bad outcome condition": (bad_outcome, {"badOutcomeCondition", "noDefaultExitFromFlow"}, False),
    "unknown row type": (unknown_row_type, {"unknownRowType", "rowTypeWithoutMainArg"}, False),
    "unknown contact property": (unknown_contact_property, {"unknownContactProperty", "rowTypeWithoutMainArg"}, False),
}

# what the command prints for each model fault kind (tie: observed kind of a failing run)
KIND_PATTERNS = {
    "unterminated": P_UNTERMINATED,
    "wrongTerminator": P_WRONG,
    "forWithoutVariable": r"begin_for must have a loop_variable",
    "edgeFromUnknownRow": r"Edge from row_id .* which does not exist",
    "gotoArity": r"number of destinations has to match",
    "gotoUnknownTarget": r"KeyError: '%s'" % NOROW,
    "missingSheet": r"Sheet not found",
    "missingDataSheet": r"KeyError",
    "missingDataRow": r"KeyError: '%s'" % NOID,
    "dataRowIdWithoutSheet": r"if data_row_id is provided, data_sheet must|either both data_sheet and data_row_id or neither",
    "argMissing": r"Required template argument .* not provided",
    "argDoublyDefined": r"Template argument .* doubly defined",
    "unknownDataModel": r"Undefined data_model_name",
    "unknownOperation": r"Unknown operation",
    "operationWithoutNewName": r"a new_name has to be\s+provided",
    "emptyText": r"send_msg action requires non-empty text",
    "overlongValue": r"limited to 640 characters",
    "overlongCategory": r"Category name too long",
    "badHeaders": r"webhook\.headers: Value must be a list of pairs",
    "badMethod": r"must a valid HTTP method",
    "uuidConflict": r"has multiple uuids",
    "triggerUnknownFlow": r"Trigger references undefined flow name",
    "noContentIndex": r"No content index sheet provided",
    "unknownIndexType": r"invalid type: '",
    "sheetNameCount": P_SHEET_COUNT,
    "rowTypeWithoutMainArg": r"KeyError: '(%s|%s)'" % (BAD_ROW_TYPE, BAD_CONTACT_ROW),
    "unknownContactProperty": r"Unknown operation set_contact_",
    "unknownRowType": r"Row type \S+ not implemented",
    "noDefaultExitFromFlow": P_NO_DEFAULT,
    "badOutcomeCondition": P_FLOW_OUTCOME + "|" + P_HOOK_OUTCOME,
}
