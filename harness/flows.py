"""Shared helpers for the flow properties (C01–C04, C12): running the real compiler with
log capture, canonicalising rendered flows for the Lean driver, document-level checks."""
from __future__ import annotations

import copy
import csv
import io
import json
import logging
import re

import tablib

UUID4 = re.compile(r"^[0-9a-f]{8}-[0-9a-f]{4}-4[0-9a-f]{3}-[89ab][0-9a-f]{3}-[0-9a-f]{12}$")
# the property asks for a WELL-FORMED UUID (canonical text form, RFC 4122 variant); which version the compiler draws is
# its own business (it draws version 4 today, which is what the canonicalisers above rely on to tell invented ids apart)
UUID_ANY = re.compile(r"^[0-9a-f]{8}-[0-9a-f]{4}-[1-8][0-9a-f]{3}-[89ab][0-9a-f]{3}-[0-9a-f]{12}$")


class LogCapture(logging.Handler):
    """Collects records ≥ WARNING from the repo's loggers (library mode: CRITICAL does not stop)."""

    NAMES = ("main", "rpft.rapidpro.models.routers")

    def __init__(self):
        super().__init__(level=logging.WARNING)
        self.records = []

    def emit(self, record):
        self.records.append((record.levelno, record.getMessage()))

    def __enter__(self):
        self._old = []
        for n in self.NAMES:
            lg = logging.getLogger(n)
            self._old.append((lg, lg.level, lg.propagate))
            lg.addHandler(self)
            lg.propagate = False
        return self

    def __exit__(self, *a):
        for lg, lvl, prop in self._old:
            lg.removeHandler(self)
            lg.propagate = prop
        return False

    def errors(self):
        return [m for lvl, m in self.records if lvl >= logging.ERROR]

    def criticals(self):
        return [m for lvl, m in self.records if lvl >= logging.CRITICAL]

    def warnings(self):
        return [m for lvl, m in self.records if lvl == logging.WARNING]


def rows_to_csv(headers, rows) -> str:
    buf = io.StringIO()
    w = csv.writer(buf, lineterminator="\n")
    w.writerow(headers)
    for r in rows:
        w.writerow([r.get(h, "") for h in headers])
    return buf.getvalue()


def table_from_rows(headers, rows):
    return tablib.import_set(rows_to_csv(headers, rows), format="csv")


class CompileResult:
    def __init__(self):
        self.doc = None
        self.exc = None
        self.errors = []
        self.warnings = []

    @property
    def ok(self):
        return self.exc is None and not self.errors and self.doc is not None


def compile_flow_sheet(headers, rows, flow_name="flow", context=None) -> CompileResult:
    """Real compiler on one flow sheet (no content index): FlowParser(...).parse(); container.render()."""
    from rpft.parsers.creation.flowparser import FlowParser
    from rpft.rapidpro.models.containers import RapidProContainer

    res = CompileResult()
    with LogCapture() as cap:
        try:
            container = RapidProContainer()
            parser = FlowParser(container, flow_name, table_from_rows(headers, rows), context=copy.deepcopy(context) if context else None)
            parser.parse()
            res.doc = container.render()
        except BaseException as e:  # noqa: BLE001 — library errors of any class count as "reports an error"
            if isinstance(e, (KeyboardInterrupt, SystemExit)):
                raise
            res.exc = f"{type(e).__name__}: {e}"
    res.errors = cap.errors()
    res.warnings = cap.warnings()
    return res


def mem_reader(sheets: dict[str, str], name="mem"):
    """In-memory sheet reader over CSV texts (like tests.mocks.MockSheetReader)."""
    from rpft.parsers.sheets import AbstractSheetReader, Sheet

    class MemReader(AbstractSheetReader):
        def __init__(self):
            self.name = name
            self._sheets = {
                n: Sheet(reader=self, name=n, table=tablib.import_set(t, format="csv")) for n, t in sheets.items()
            }

    return MemReader()


def compile_index(sheets: dict[str, str], tags=None, data_models=None) -> CompileResult:
    """Real ContentIndexParser on in-memory CSV sheets; `content_index` must be among them."""
    from rpft.parsers.creation.contentindexparser import ContentIndexParser
    from rpft.parsers.creation.tagmatcher import TagMatcher

    res = CompileResult()
    with LogCapture() as cap:
        try:
            parser = ContentIndexParser(mem_reader(sheets), data_models, TagMatcher(tags or []))
            res.doc = parser.parse_all().render()
        except BaseException as e:  # noqa: BLE001
            if isinstance(e, (KeyboardInterrupt, SystemExit)):
                raise
            res.exc = f"{type(e).__name__}: {e}"
    res.errors = cap.errors()
    res.warnings = cap.warnings()
    return res


# ------------------------------------------------------------------ canonicalisation


def canon_action(a: dict) -> dict:
    """Observable content of an action: everything except invented identifiers."""
    b = copy.deepcopy(a)
    uuid = b.pop("uuid", "")
    for g in b.get("groups", []) or []:
        if isinstance(g, dict):
            g.pop("uuid", None)
    if isinstance(b.get("flow"), dict):
        b["flow"].pop("uuid", None)
    if isinstance(b.get("templating"), dict):
        b["templating"].pop("uuid", None)
    return {"uuid": uuid or "", "obs": json.dumps(b, sort_keys=True, ensure_ascii=False)}


def canon_flow(flow: dict) -> dict:
    """Rendered RapidPro flow → the JSON shape Rpft.Drv.Flow.flowOfJ reads."""
    nodes = []
    for n in flow["nodes"]:
        nodes.append({
            "uuid": n["uuid"],
            "actions": [canon_action(a) for a in n.get("actions", [])],
            "router": n.get("router"),
            "exits": [{"uuid": e["uuid"], "destination_uuid": e.get("destination_uuid")} for e in n["exits"]],
        })
    return {"uuid": flow.get("uuid", ""), "name": flow.get("name", ""), "nodes": nodes}


# ------------------------------------------------------------------ document-level checks (C01, Python side)


def walk_strings(x, path=""):
    if isinstance(x, dict):
        for k, v in x.items():
            yield from walk_strings(v, f"{path}/{k}")
    elif isinstance(x, list):
        for i, v in enumerate(x):
            yield from walk_strings(v, f"{path}/{i}")
    elif isinstance(x, str):
        yield path, x


def is_plain_json(x) -> bool:
    if x is None or isinstance(x, (bool, int, float, str)):
        return True
    if isinstance(x, list):
        return all(is_plain_json(v) for v in x)
    if isinstance(x, dict):
        return all(isinstance(k, str) and is_plain_json(v) for k, v in x.items())
    return False


ID_KEYS = {"uuid", "exit_uuid", "category_uuid", "default_category_uuid", "destination_uuid"}


def object_ids(doc: dict):
    """(json-pointer, uuid) of every *object identity* in a container: flows, nodes, actions,
    exits, categories, cases, templating instances, campaigns, events."""
    out = []
    for fi, f in enumerate(doc.get("flows", [])):
        out.append((f"/flows/{fi}/uuid", f.get("uuid")))
        for ni, n in enumerate(f.get("nodes", [])):
            base = f"/flows/{fi}/nodes/{ni}"
            out.append((base + "/uuid", n.get("uuid")))
            for ai, a in enumerate(n.get("actions", [])):
                out.append((f"{base}/actions/{ai}/uuid", a.get("uuid")))
                if isinstance(a.get("templating"), dict):
                    out.append((f"{base}/actions/{ai}/templating/uuid", a["templating"].get("uuid")))
            for ei, e in enumerate(n.get("exits", [])):
                out.append((f"{base}/exits/{ei}/uuid", e.get("uuid")))
            r = n.get("router")
            if r:
                for ci, c in enumerate(r.get("categories", [])):
                    out.append((f"{base}/router/categories/{ci}/uuid", c.get("uuid")))
                for ci, c in enumerate(r.get("cases", [])):
                    out.append((f"{base}/router/cases/{ci}/uuid", c.get("uuid")))
    for ci, c in enumerate(doc.get("campaigns", [])):
        out.append((f"/campaigns/{ci}/uuid", c.get("uuid")))
        for ei, e in enumerate(c.get("events", [])):
            out.append((f"/campaigns/{ci}/events/{ei}/uuid", e.get("uuid")))
    return out


def document_checks(doc: dict, given_ids: set[str]) -> list[str]:
    """Python half of C01's statement: plain JSON, no internal marker, invented identifiers are
    well-formed UUIDs, each identifier names one object only (whole container)."""
    problems = []
    if not is_plain_json(doc):
        problems.append("document is not plain JSON")
    else:
        try:
            if json.loads(json.dumps(doc)) != doc:
                problems.append("document does not survive json.dumps/json.loads")
        except Exception as e:  # noqa: BLE001
            problems.append(f"document not serialisable: {e}")
    for path, s in walk_strings(doc):
        if s == "HARD_EXIT":
            problems.append(f"internal marker HARD_EXIT at {path}")
    seen = {}
    for path, u in object_ids(doc):
        if not isinstance(u, str) or not u:
            problems.append(f"missing identifier at {path}")
            continue
        if u not in given_ids and not UUID_ANY.match(u):
            problems.append(f"invented identifier at {path} is not a well-formed UUID: {u!r}")
        if u in seen:
            problems.append(f"identifier {u} used for two objects: {seen[u]} and {path}")
        seen[u] = path
    # groups and flows are named objects that are referred to from many places: one identifier names ONE of them
    # (and none of the objects above, unless it is that flow itself)
    named = {}
    for kind, name, u, path in named_refs(doc):
        if not isinstance(u, str) or not u:
            continue
        if u not in given_ids and not UUID_ANY.match(u):
            problems.append(f"invented identifier of {kind} {name!r} at {path} is not a well-formed UUID: {u!r}")
        named.setdefault(u, {})[(kind, name)] = path
        if u in seen and not (kind == "flow" and seen[u].endswith("/uuid") and seen[u].startswith("/flows/") and seen[u].count("/") == 3):
            problems.append(f"identifier {u} of {kind} {name!r} ({path}) is also the identifier of the object at {seen[u]}")
    for u, who in named.items():
        if len(who) > 1:
            problems.append(f"identifier {u} used for {len(who)} different named objects: " + ", ".join(f"{k} {n!r}" for k, n in sorted(who)))
    return problems


def named_refs(doc: dict):
    """(kind, name, uuid, json-pointer) of every reference to a group or a flow in a container"""
    out = []
    for gi, g in enumerate(doc.get("groups", []) or []):
        out.append(("group", g.get("name"), g.get("uuid"), f"/groups/{gi}"))
    for fi, f in enumerate(doc.get("flows", [])):
        out.append(("flow", f.get("name"), f.get("uuid"), f"/flows/{fi}"))
        for ni, n in enumerate(f.get("nodes", [])):
            base = f"/flows/{fi}/nodes/{ni}"
            for ai, a in enumerate(n.get("actions", [])):
                for gi, g in enumerate(a.get("groups", []) or []):
                    if isinstance(g, dict):
                        out.append(("group", g.get("name"), g.get("uuid"), f"{base}/actions/{ai}/groups/{gi}"))
                if a.get("type") == "enter_flow" and isinstance(a.get("flow"), dict):
                    out.append(("flow", a["flow"].get("name"), a["flow"].get("uuid"), f"{base}/actions/{ai}/flow"))
            r = n.get("router") or {}
            for ci, c in enumerate(r.get("cases", []) or []):
                args = c.get("arguments") or []
                if c.get("type") == "has_group" and len(args) >= 2:
                    out.append(("group", args[1], args[0], f"{base}/router/cases/{ci}"))
    for ci, c in enumerate(doc.get("campaigns", []) or []):
        g = c.get("group") or {}
        out.append(("group", g.get("name"), g.get("uuid"), f"/campaigns/{ci}/group"))
        for ei, e in enumerate(c.get("events", []) or []):
            fl = e.get("flow") or {}
            if fl.get("name"):
                out.append(("flow", fl.get("name"), fl.get("uuid"), f"/campaigns/{ci}/events/{ei}/flow"))
    for ti, t in enumerate(doc.get("triggers", []) or []):
        fl = t.get("flow") or {}
        if fl.get("name"):
            out.append(("flow", fl.get("name"), fl.get("uuid"), f"/triggers/{ti}/flow"))
        for key in ("groups", "exclude_groups"):
            for gi, g in enumerate(t.get(key, []) or []):
                if isinstance(g, dict):
                    out.append(("group", g.get("name"), g.get("uuid"), f"/triggers/{ti}/{key}/{gi}"))
    return out


def rename_uuids_by_first_occurrence(doc, keep: set[str] = frozenset()):
    """Canonical form for comparing two compilations: every UUID-shaped string that is not in
    `keep` is renamed #k by first occurrence in document order.  Returns (doc', mapping)."""
    mapping = {}

    def ren(x):
        if isinstance(x, dict):
            return {k: ren(v) for k, v in x.items()}
        if isinstance(x, list):
            return [ren(v) for v in x]
        if isinstance(x, str) and x not in keep and UUID4.match(x):
            if x not in mapping:
                mapping[x] = f"#{len(mapping)}"
            return mapping[x]
        return x

    # _ui is keyed by node uuid: rename keys as well
    def ren_keys(x):
        if isinstance(x, dict):
            return {(mapping.get(k, k) if isinstance(k, str) else k): ren_keys(v) for k, v in x.items()}
        if isinstance(x, list):
            return [ren_keys(v) for v in x]
        return x

    out = ren(doc)
    return ren_keys(out), mapping
