"""Shared plumbing: Lean build + audit, driver subprocess, verdict, evidence, known findings.

Everything here is tool code (trusted base item 2/3 of DESIGN.md §3); no property logic.
"""
from __future__ import annotations

import fcntl
import hashlib
import json
import os
import random
import re
import subprocess
import sys
import time
from pathlib import Path

VERIF = Path(__file__).resolve().parent.parent
LEAN_DIR = VERIF / "lean"
REPO = Path(os.environ.get("RPFT_REPO", "/repo"))
EVIDENCE_DIR = Path(os.environ.get("VERIF_EVIDENCE_DIR") or (VERIF / "evidence"))   # scratch runs (seeded copies) must not clobber committed evidence
REPLAY_DIR = Path(os.environ.get("VERIF_REPLAY_DIR") or (VERIF / "replays"))
KNOWN_FINDINGS = VERIF / "known_findings.jsonl"
DRIVER_BIN = LEAN_DIR / ".lake" / "build" / "bin" / "rpft_driver"

ALLOWED_AXIOMS = {"propext", "Classical.choice", "Quot.sound"}
FORBIDDEN = re.compile(
    r"\b(sorry|admit|native_decide|bv_decide|implemented_by|unsafe)\b|^\s*axiom\s|maxHeartbeats\s+0\b"
)

TRUSTED_BASE = [
    "Lean 4.33.0 kernel; axioms of every property theorem audited on this run: subset of {propext, Classical.choice, Quot.sound}",
    "hand-written Lean model tied to /repo by differential execution (harness, generators, canonicalisers and the Driver.lean JSON codec are trusted; the driver is the model compiled by the Lean compiler, trusted to agree with the kernel)",
    "T1 translators harness/extract_tables.py + harness/tables/*.py + harness/t1lib.py (emit literals read from the runtime values / probed behaviour / source of /repo into Rpft/Gen/Tables.lean)",
    "CPython str/dict/sorted/int/float semantics, pydantic, Jinja2, openpyxl (XLSX), networkx, the C implementations of csv/json (their formats are modelled and tied, not derived): modelled as parameters or tied models, exercised on every run, not verified",
]


class Infra(Exception):
    """Infrastructure failure: exit 2, never a VIOLATION line."""


def seed_from_env() -> int:
    try:
        return int(os.environ.get("VERIF_SEED", "20260926"))
    except ValueError:
        return 20260926


# --------------------------------------------------------------------------- Lean side


def _run(cmd, cwd=None, timeout=1800, env=None):
    p = subprocess.run(
        cmd, cwd=cwd, stdout=subprocess.PIPE, stderr=subprocess.STDOUT, text=True,
        timeout=timeout, env=env,
    )
    return p.returncode, p.stdout


def strip_lean_comments(text: str) -> str:
    # remove nested block comments and line comments (good enough for a token grep)
    out = []
    i, depth, n = 0, 0, len(text)
    while i < n:
        if text.startswith("/-", i):
            depth += 1
            i += 2
        elif depth and text.startswith("-/", i):
            depth -= 1
            i += 2
        elif depth:
            i += 1
        elif text.startswith("--", i):
            j = text.find("\n", i)
            i = n if j < 0 else j
        else:
            out.append(text[i])
            i += 1
    return "".join(out)


def forbidden_tokens() -> list[str]:
    hits = []
    for p in sorted(LEAN_DIR.rglob("*.lean")):
        if ".lake" in p.parts:
            continue
        body = strip_lean_comments(p.read_text())
        # string literals may legitimately contain words; drop them
        body = re.sub(r'"(?:\\.|[^"\\])*"', '""', body)
        for ln, line in enumerate(body.splitlines(), 1):
            if FORBIDDEN.search(line):
                hits.append(f"{p.relative_to(LEAN_DIR)}:{ln}: {line.strip()[:100]}")
    return hits


class LeanResult:
    def __init__(self):
        self.ok = True
        self.log = ""
        self.tables_changed = False
        self.theorems: dict[str, list[str]] = {}  # name -> axioms
        self.failed_theorems: list[str] = []
        self.forbidden: list[str] = []
        self.cmds: list[str] = []
        self.broken: list[str] = []  # human-readable obligations that failed


def theorem_names(prop_file: Path) -> list[str]:
    """Fully qualified names of the theorems declared in a Props file."""
    text = strip_lean_comments(prop_file.read_text())
    ns = []
    names = []
    for line in text.splitlines():
        m = re.match(r"\s*namespace\s+(\S+)", line)
        if m:
            ns.append(m.group(1))
            continue
        m = re.match(r"\s*end\s+(\S+)", line)
        if m and ns and ns[-1] == m.group(1):
            ns.pop()
            continue
        m = re.match(r"\s*(?:protected\s+|private\s+)?theorem\s+([^\s:({\[]+)", line)
        if m:
            names.append(".".join(ns + [m.group(1)]))
    return names


def lean_step(prop: str, extra_modules: list[str] | None = None, thorough: bool = False) -> LeanResult:
    """Proof step A: regenerate tables from /repo, build model + property theorems + driver,
    grep forbidden tokens, audit axioms.  Serialised with a file lock (checks may run
    concurrently)."""
    from . import extract_tables

    res = LeanResult()
    lock = open(LEAN_DIR / ".build.lock", "w")
    fcntl.flock(lock, fcntl.LOCK_EX)
    try:
        try:
            res.tables_changed = extract_tables.write_tables()
            for f in getattr(extract_tables.write_tables, "failed", []):
                res.log += f"T1 extraction failed for {f}\n"
        except Exception as e:  # extraction failing = source no longer has the shape the translator reads
            res.ok = False
            res.broken.append(f"T1 table extraction failed: {e!r}")
            res.log += f"extract_tables: {e!r}\n"
        try:
            _run([sys.executable, str(VERIF / "gen_root.py")], cwd=VERIF, timeout=60)
        except Exception as e:  # noqa: BLE001
            res.log += f"gen_root: {e!r}\n"
        mods = [f"Rpft.Props.{prop}"] + [f"Rpft.Props.{q.stem}" for q in sorted((LEAN_DIR / "Rpft" / "Props").glob(f"{prop}_*.lean"))] + (extra_modules or [])
        cmd = ["lake", "build"] + mods + ["rpft_driver"]
        res.cmds.append("cd lean && " + " ".join(cmd))
        t0 = time.time()
        rc, out = _run(cmd, cwd=LEAN_DIR, timeout=3000)
        res.log += out
        if rc != 0:
            res.ok = False
            # which modules failed?
            failed = re.findall(r"✖ \[\d+/\d+\] (?:Building|Built) (\S+)", out) or re.findall(r"error: (\S+\.lean)", out)
            res.broken.append("lake build failed: " + ", ".join(sorted(set(failed)))[:400])
        res.forbidden = forbidden_tokens()
        if res.forbidden:
            res.ok = False
            res.broken.append("forbidden tokens: " + "; ".join(res.forbidden[:5]))
        # axiom audit for this property's theorems
        # (property theorems live in Props/Cxx.lean and, for large properties, in part files Props/Cxx_<Part>.lean
        # which Props/Cxx.lean imports or which import it; all of them are built and audited)
        pf = LEAN_DIR / "Rpft" / "Props" / f"{prop}.lean"
        parts = sorted((LEAN_DIR / "Rpft" / "Props").glob(f"{prop}_*.lean"))
        names = theorem_names(pf) if pf.exists() else []
        for part in parts:
            names += theorem_names(part)
        if names:
            audit = LEAN_DIR / ".lake" / f"Audit_{prop}.lean"
            audit.parent.mkdir(exist_ok=True)
            audit.write_text(
                "import Rpft.Props.%s\n" % prop + "".join("import Rpft.Props.%s\n" % part.stem for part in parts)
                + "".join(f"#print axioms {n}\n" for n in names)
            )
            cmd2 = ["lake", "env", "lean", str(audit)]
            res.cmds.append("cd lean && lake env lean .lake/Audit_%s.lean  (#print axioms × %d)" % (prop, len(names)))
            rc2, out2 = _run(cmd2, cwd=LEAN_DIR, timeout=1200)
            res.log += out2
            parsed = parse_axioms(out2)
            for n in names:
                if n in parsed:
                    res.theorems[n] = parsed[n]
                    bad = set(parsed[n]) - ALLOWED_AXIOMS
                    if bad:
                        res.ok = False
                        res.failed_theorems.append(n)
                        res.broken.append(f"theorem {n} depends on axioms {sorted(bad)}")
                else:
                    res.ok = False
                    res.failed_theorems.append(n)
                    res.broken.append(f"theorem {n} does not check")
        if thorough and res.ok:
            cmd3 = ["lake", "env", "leanchecker", f"Rpft.Props.{prop}"]
            res.cmds.append("cd lean && " + " ".join(cmd3))
            rc3, out3 = _run(cmd3, cwd=LEAN_DIR, timeout=3000)
            res.log += out3
            if rc3 != 0:
                res.ok = False
                res.broken.append("leanchecker rejected Rpft.Props." + prop)
        if not DRIVER_BIN.exists():
            res.ok = False
            res.broken.append("driver executable missing")
        else:
            # private, content-addressed copy: a concurrent check may relink the shared binary
            _pin_driver()
    finally:
        fcntl.flock(lock, fcntl.LOCK_UN)
        lock.close()
    return res


def _pin_driver():
    global DRIVER_BIN
    import shutil

    data = DRIVER_BIN.read_bytes()
    h = hashlib.sha1(data).hexdigest()[:16]
    pinned = DRIVER_BIN.parent / f"rpft_driver.{h}"
    if not pinned.exists():
        tmp = DRIVER_BIN.parent / f".rpft_driver.{h}.{os.getpid()}"
        tmp.write_bytes(data)
        os.chmod(tmp, 0o755)
        os.replace(tmp, pinned)
        # keep the directory small
        old = sorted(DRIVER_BIN.parent.glob("rpft_driver.*"), key=lambda q: q.stat().st_mtime)
        for q in old[:-6]:
            try:
                q.unlink()
            except OSError:
                pass
    DRIVER_BIN = pinned


def parse_axioms(out: str) -> dict[str, list[str]]:
    res = {}
    # "'Name' depends on axioms: [a, b]" (possibly wrapped) or "'Name' does not depend on any axioms"
    flat = re.sub(r"\n\s+", " ", out)
    for m in re.finditer(r"'([^']+)' depends on axioms: \[([^\]]*)\]", flat):
        res[m.group(1)] = [a.strip() for a in m.group(2).split(",") if a.strip()]
    for m in re.finditer(r"'([^']+)' does not depend on any axioms", flat):
        res[m.group(1)] = []
    return res


class Driver:
    """Batch interface to the compiled Lean driver."""

    def __init__(self):
        if not DRIVER_BIN.exists():
            raise Infra("driver not built")

    def batch(self, reqs: list[dict], timeout=1800) -> list:
        if not reqs:
            return []
        data = "\n".join(json.dumps(r, ensure_ascii=False) for r in reqs) + "\n"
        p = subprocess.run(
            [str(DRIVER_BIN)], input=data.encode("utf-8"), stdout=subprocess.PIPE,
            stderr=subprocess.PIPE, timeout=timeout,
        )
        if p.returncode != 0:
            raise Infra(f"driver exited {p.returncode}: {p.stderr.decode()[:500]}")
        lines = p.stdout.decode("utf-8").split("\n")
        if lines and lines[-1] == "":
            lines.pop()
        if len(lines) != len(reqs):
            raise Infra(f"driver answered {len(lines)} lines for {len(reqs)} requests")
        out = []
        for ln in lines:
            j = json.loads(ln)
            out.append(j)
        return out

    def results(self, reqs: list[dict], timeout=1800) -> list:
        """Like batch, but unwraps {"r":…}; driver-level errors become {"__error__": msg}."""
        out = []
        for j in self.batch(reqs, timeout):
            if "r" in j:
                out.append(j["r"])
            else:
                out.append({"__error__": j.get("error")})
        return out


# --------------------------------------------------------------------------- findings


def load_findings(prop: str) -> list[dict]:
    out = []
    if KNOWN_FINDINGS.exists():
        for line in KNOWN_FINDINGS.read_text().splitlines():
            line = line.strip()
            if not line or line.startswith("#"):
                continue
            rec = json.loads(line)
            if rec.get("property") == prop:
                out.append(rec)
    return out


# --------------------------------------------------------------------------- run context


class Check:
    """One run of one property's check.  Collects counts, failures, writes evidence."""

    def __init__(self, prop: str, tier: str, seed: int):
        self.prop = prop
        self.tier = tier
        self.seed = seed
        self.rng = random.Random(seed)
        self.t0 = time.time()
        self.evaluations = 0
        self.nontrivial: set = set()
        self.samples: list = []
        self.strata: dict[str, int] = {}
        self.violations: list[dict] = []       # new violations (concrete failing inputs)
        self.known_seen: dict[str, dict] = {}  # finding id -> example
        self.tie_breaks: list[dict] = []       # model-vs-code disagreements (not yet violations)
        self.notes: list[str] = []
        self.lean: LeanResult | None = None
        self.rule = ""
        self.assumptions: list[str] = []
        self.extra: dict = {}
        self.partial_gap: list[str] = []
        self.search_ran = False
        self.findings = load_findings(prop)

    # -- counting
    def count(self, stratum: str, n: int = 1):
        self.strata[stratum] = self.strata.get(stratum, 0) + n

    def case(self, key, nontrivial: bool = True, sample=None):
        self.evaluations += 1
        if nontrivial:
            if not isinstance(key, (str, bytes, int, tuple)):
                key = json.dumps(key, sort_keys=True, ensure_ascii=False, default=str)
            if isinstance(key, str) and len(key) > 64:
                key = hashlib.sha1(key.encode("utf-8", "surrogatepass")).hexdigest()
            self.nontrivial.add(key)
        if sample is not None and len(self.samples) < 6:
            self.samples.append(sample)

    # -- failures
    def violation(self, what: str, replay: dict):
        self.violations.append({"what": what, "replay": replay})

    def known(self, fid: str, what: str, example=None):
        """A failure attributed to a listed finding.  Only an OPEN record suppresses: a finding
        recorded as fixed (or not listed at all) that shows again is a violation."""
        rec = [f for f in self.findings if f.get("id") == fid and f.get("status") == "open"]
        if not rec:
            self.violation(f"{fid} is not an open known finding (fixed or unlisted) but the failure is present: {what}",
                           {"finding": fid, "example": example})
            return
        if fid not in self.known_seen:
            self.known_seen[fid] = {"what": what, "example": example}

    def tie_break(self, what: str, detail: dict):
        if len(self.tie_breaks) < 50:
            self.tie_breaks.append({"what": what, "detail": detail})
        else:
            self.tie_breaks.append(None) if False else None
        self.count("tie_break")

    # -- finish
    def finish(self) -> int:
        """Apply the verdict logic of DESIGN §2.6, write evidence, print lines, return exit code."""
        wall = time.time() - self.t0
        lean = self.lean
        obligations = 0
        discharged = 0
        thm_list = []
        if lean is not None:
            for n, ax in lean.theorems.items():
                obligations += 1
                if n not in lean.failed_theorems:
                    discharged += 1
                thm_list.append(n)
            for n in lean.failed_theorems:
                if n not in lean.theorems:
                    obligations += 1
            obligations += 1  # build + forbidden-token grep + table regeneration
            if not [b for b in lean.broken if not b.startswith("theorem ")]:
                discharged += 1
        obligations += 1  # correspondence
        if not self.tie_breaks:
            discharged += 1

        exit_code = 0
        lines = []
        REPLAY_DIR.mkdir(exist_ok=True)
        stale = REPLAY_DIR / f"{self.prop}_{self.tier}_{self.seed}.json"
        if stale.exists():
            stale.unlink()
        for fid, info in self.known_seen.items():
            lines.append(f"KNOWN-FINDING: property={self.prop} {fid}: {info['what']}")
        viol_count = 0
        if self.violations:
            self.violations.sort(key=lambda x: len(json.dumps(x["replay"], default=str)))
            v = self.violations[0]
            path = REPLAY_DIR / f"{self.prop}_{self.tier}_{self.seed}.json"
            path.write_text(json.dumps({
                "property": self.prop, "kind": "failing-input", "what": v["what"],
                "replay": v["replay"], "seed": self.seed, "tier": self.tier,
                "more": [x["what"] for x in self.violations[1:10]],
            }, indent=1, ensure_ascii=False, default=str))
            lines.append(f"VIOLATION property={self.prop} replay={path}")
            viol_count = len(self.violations)
            exit_code = 1
        else:
            broken = []
            if lean is not None and not lean.ok:
                broken += lean.broken
            if self.tie_breaks:
                broken.append(f"correspondence model-vs-code broke on {self.strata.get('tie_break', len(self.tie_breaks))} case(s)")
            if broken:
                path = REPLAY_DIR / f"{self.prop}_{self.tier}_{self.seed}.json"
                path.write_text(json.dumps({
                    "property": self.prop, "kind": "obligation-broken",
                    "obligations_no_longer_checking": broken,
                    "smallest_disagreements": [t for t in self.tie_breaks if t][:5],
                    "failing_input_search": "ran the property's direct oracle on the real code over this tier's generators and the disagreeing inputs: no failing input found"
                    if self.search_ran else "direct oracle on real code found no failing input on the cases explored",
                    "search_incomplete_because": getattr(self, "harness_error", None),
                    "lean_log_tail": (lean.log[-3000:] if lean is not None else ""),
                    "seed": self.seed, "tier": self.tier,
                }, indent=1, ensure_ascii=False, default=str))
                lines.append(f"VIOLATION property={self.prop} replay={path} no-failing-input-found")
                viol_count = 1
                exit_code = 1

        cov = {
            "obligations": obligations,
            "discharged": discharged,
            "checker_cmd": " ; ".join(lean.cmds) if lean is not None else "(none)",
            "trusted_base": TRUSTED_BASE,
            "theorems": {n: lean.theorems.get(n) for n in thm_list} if lean is not None else {},
            "evaluations": self.evaluations,
            "distinct_nontrivial": len(self.nontrivial),
            "rule": self.rule,
            "samples": self.samples[:6] or ["(no cases)"],
            "strata": dict(sorted(self.strata.items())),
            "partial_gap": self.partial_gap,
            "known_findings_seen": sorted(self.known_seen),
            "tie_breaks": len([t for t in self.tie_breaks if t]),
            "tables_changed_since_last_run": bool(lean.tables_changed) if lean is not None else False,
            "notes": self.notes,
        }
        cov.update(self.extra)
        ev = {
            "property_id": self.prop,
            "tier": self.tier,
            "seed": self.seed,
            "level": "proof",
            "coverage": cov,
            "assumptions": self.assumptions,
            "wall_s": round(wall, 2),
            "violations": viol_count,
        }
        EVIDENCE_DIR.mkdir(exist_ok=True)
        (EVIDENCE_DIR / f"{self.prop}.json").write_text(
            json.dumps(ev, indent=1, ensure_ascii=False, default=str) + "\n"
        )
        for ln in lines:
            print(ln)
        print(
            f"[{self.prop}] tier={self.tier} seed={self.seed} evaluations={self.evaluations} "
            f"distinct={len(self.nontrivial)} obligations={discharged}/{obligations} "
            f"known={len(self.known_seen)} violations={viol_count} wall={wall:.1f}s"
        )
        return exit_code


def shard(items: list, n: int) -> list[list]:
    return [items[i::n] for i in range(n)]
