"""Process-pool helper (fork): shard work over the cores; each worker owns its driver."""
from __future__ import annotations

import multiprocessing as mp
import os

NPROC = int(os.environ.get("VERIF_JOBS", "0")) or min(16, os.cpu_count() or 4)


def pmap(func, shards, nproc: int | None = None):
    shards = [s for s in shards]
    n = min(nproc or NPROC, max(1, len(shards)))
    if n <= 1:
        return [func(s) for s in shards]
    ctx = mp.get_context("fork")
    with ctx.Pool(n) as pool:
        return pool.map(func, shards, chunksize=1)
