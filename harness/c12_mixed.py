"""C12, second stream: templates that are legal WITH and WITHOUT a data row, instantiated both ways in one run.

Every cell of the generated template `otmpl` and of the block `oblk` reads its variables through the jinja
`default` filter / `is defined`, so an instance with a data row (bulk row, single row, insert_as_block with
data_sheet + data_row_id) and an instance with none (plain create_flow, insert_as_block with blank data columns)
are both valid.  The data sheet holds 0 (header only), 1 or several rows, and `filter` operations derive further
sheets from it that keep all, some or NONE of its rows: a bulk row over a sheet with zero rows stands for zero
flows.  One index mixes bulk / single / data-less rows of the same template (and of the block used as a
template of its own), and the template inserts the block with and without data, in both orders.

A case is plain JSON (replayable); the workbook and — independently of the real code — the texts every instance
must send are computed from it (`expected_instances`): the templates are linear chains of send_message rows, so
the property's own words ("the instance of row i is the template evaluated with row i and the arguments, nothing
evaluated for another instance is visible") fix the list of messages of each flow.
"""
from __future__ import annotations

import random

from .flows import rows_to_csv
from .gen import sheets as G

H = G.HEADERS
IH = ["type", "sheet_name", "data_sheet", "data_row_id", "new_name", "template_arguments", "operation"]
ID_POOL = ["r1", "r2", "row 3", "A-B", "x - y", "7", "é1", "Zed", "q.9"]
WORDS = ["alpha", "beta", "gamma", "delta"]
OTHER_IDS = ["o1", "o2", "o3"]


def args_cell(args):
    if not args:
        return ""
    if len(args) == 1:
        return args[0]
    return ";".join(args) + (";" if args[-1] == "" else "")


def defs_cell(defs):
    if not defs:
        return ""
    cell = "|".join(";".join(d) for d in defs)
    return cell + ("|" if len(defs) == 1 else "")


# ------------------------------------------------------------------ generator


def gen_mixed(rng: random.Random) -> dict:
    feats = set()
    ids = rng.sample(ID_POOL, rng.choice([0, 0, 0, 1, 1, 1, 2, 2, 2, 3, 3, 3, 4, 4]))     # 0: a header-only data sheet
    use_num = rng.random() < 0.6
    use_ref = rng.random() < 0.75
    use_items = rng.random() < 0.5
    data = []
    for i in ids:
        row = {"ID": i, "word": rng.choice(WORDS)}
        if use_num:
            row["num"] = rng.randint(0, 9)
        if use_ref:
            row["ref"] = rng.choice(["", "", "o1", "o2", "o3"])
        if use_items:
            row["items"] = [rng.choice("xyz") + "1", rng.choice("xyz") + "2"]
        data.append(row)
    # sheets derived by a `filter` operation: all / some / none of the rows kept (what is kept is computed by
    # `sheet_rows`, not read off the real code)
    views = []
    for k in range(rng.choice([0, 1, 1, 2])):
        if use_num and rng.random() < 0.5:
            v = {"name": f"v{k + 1}", "of": "data", "field": "num", "op": ">", "value": rng.choice([-1, 2, 5, 9, 9])}
        else:
            v = {"name": f"v{k + 1}", "of": "data", "field": "word", "op": "==",
                 "value": rng.choice([r["word"] for r in data]) if data and rng.random() < 0.5 else rng.choice(WORDS + ["omega"] * 2)}
        views.append(v)
    if rng.random() < 0.3:
        views.append({"name": "ov", "of": "other", "field": "label", "op": "==", "value": rng.choice(["L1", "L3", "L9", "L9"])})
    if views:
        feats.add("filter_views")
    # declared arguments: none at all (an instance without data then has an EMPTY context) or defaulted ones
    targs = [] if rng.random() < 0.55 else [["extra", "", "dflt"]]
    bargs = [] if rng.random() < 0.6 else [["bword", "", "nobody"]]
    feats.add("tmpl_args_none" if not targs else "tmpl_args_defaulted")
    feats.add("block_args_none" if not bargs else "block_args_defaulted")
    blk_more = rng.random() < 0.5

    # ---- template rows: entries {"tag", "rows": [csv rows], + parameters read by `expect_template`}
    t = [{"tag": "first", "rows": [{"row_id": "t1", "type": "send_message", "from": "start",
                                    "message_text": "O {{ word|default('nobody') }} {{ extra|default('noextra') }}"}]}]
    if use_num and rng.random() < 0.7:
        t.append({"tag": "num", "rows": [{"type": "send_message",
                                          "message_text": "{% if num is defined %}num {{ num }}{% else %}no num{% endif %}"}]})
        feats.add("cell_is_defined")
    if rng.random() < 0.5:
        t.append({"tag": "with_data", "rows": [{"type": "send_message", "include_if": "{{ word is defined }}",
                                                "message_text": "with data {{ word|default('?') }}"}]})
        feats.add("include_if_is_defined")
    if rng.random() < 0.4:
        t.append({"tag": "without_data", "rows": [{"type": "send_message", "include_if": "{{ word is not defined }}",
                                                   "message_text": "without data"}]})
        feats.add("include_if_is_defined")
    if use_items and rng.random() < 0.8:
        t.append({"tag": "loop", "rows": [
            {"row_id": "tl", "type": "begin_for", "loop_variable": "it", "message_text": "{@ items|default(['d1']) @}"},
            {"type": "send_message", "message_text": "item {{ it }} of {{ word|default('nobody') }}"},
            {"type": "end_for"}]})
        feats.add("loop_default_list")

    def blk_row(cond, rid, arg):
        row = {"type": "insert_as_block", "message_text": "oblk"}
        if cond == "ref_set":
            row["include_if"] = "{{ ref|default('') != '' }}"
        elif cond == "ref_blank":
            row["include_if"] = "{{ ref|default('') == '' }}"
        if rid:
            row["data_sheet"] = "other"
            row["data_row_id"] = "{{ ref|default('') }}" if rid == "ref" else rid
        if arg == "word":
            row["template_arguments"] = "{{ word|default('nobody') }}"
        return {"tag": "blk", "cond": cond, "rid": rid, "arg": arg, "rows": [row]}

    if rng.random() < 0.85:
        modes = ["data_then_dataless", "dataless_then_data", "dataless_only", "data_only"] + (["by_ref"] * 3 if use_ref else [])
        mode = rng.choice(modes)
        arg = lambda: "word" if bargs and rng.random() < 0.5 else ""  # noqa: E731
        fixed = rng.choice(OTHER_IDS)
        if mode == "by_ref":
            pair = [blk_row("ref_set", "ref", arg()), blk_row("ref_blank", "", arg())]
            if rng.random() < 0.5:
                pair.reverse()
            t += pair
        elif mode == "data_then_dataless":
            t += [blk_row(None, fixed, arg()), blk_row(None, "", arg())]
        elif mode == "dataless_then_data":
            t += [blk_row(None, "", arg()), blk_row(None, fixed, arg())]
        elif mode == "dataless_only":
            t.append(blk_row(None, "", arg()))
        else:
            t.append(blk_row(None, fixed, arg()))
        feats.add("insert_" + mode)
        if rng.random() < 0.5:
            t.append({"tag": "after", "rows": [{"type": "send_message",
                                                "message_text": "after {{ label|default('no label') }} {{ bword|default('nb') }}"}]})
            feats.add("probe_block_context_after")
    if rng.random() < 0.5:
        t.append({"tag": "bye", "rows": [{"type": "send_message", "message_text": "bye {{ word|default('nobody') }}"}]})

    # ---- index rows instantiating the template (and the block as a template of its own)
    m = rng.choice([1, 2, 2, 3, 3, 4])
    kinds = [rng.choice(["bulk", "bulk", "single", "single", "single", "dataless", "dataless", "dataless",
                         "blk_data", "blk_dataless", "blk_bulk"]) for _ in range(m)]
    if rng.random() < 0.85:
        # both ways of instantiating the template are present, in either order
        if not any(k in ("bulk", "single") for k in kinds):
            kinds.insert(rng.randrange(len(kinds) + 1), rng.choice(["bulk", "single"]))
        if "dataless" not in kinds:
            kinds.insert(rng.randrange(len(kinds) + 1), "dataless")
    blank_name_used = False
    insts = []
    proto = {"data": data, "views": views}
    for k, kind in enumerate(kinds):
        inst = {"kind": kind, "tmpl": "oblk" if kind.startswith("blk") else "otmpl", "sheet": "", "row_id": "",
                "new_name": f"N{k + 1}", "given": []}
        if kind in ("bulk", "single"):
            inst["sheet"] = rng.choice(["data"] * 2 + [v["name"] for v in views if v["of"] == "data"] * 3)
            kept_none = [v["name"] for v in views if v["of"] == "data" and data and not sheet_rows(proto, v["name"])]
            if kept_none and rng.random() < 0.4:
                inst["sheet"] = rng.choice(kept_none)       # a filter that keeps nothing of a sheet that has rows
            kept_some = [v["name"] for v in views if v["of"] == "data" and sheet_rows(proto, v["name"])]
            if kind == "single" and kept_some and rng.random() < 0.4:
                inst["sheet"] = rng.choice(kept_some)       # a row named through the filtered sheet
            held = [r["ID"] for r in sheet_rows(proto, inst["sheet"])]
            if kind == "single" and not held:
                kind = kinds[k] = inst["kind"] = "bulk"       # no row to name: the sheet is instantiated in bulk
            if kind == "single":
                inst["row_id"] = rng.choice(held)
        elif kind in ("blk_data", "blk_bulk"):
            inst["sheet"] = rng.choice(["other"] + [v["name"] for v in views if v["of"] == "other"] * (3 if kind == "blk_bulk" else 0))
            held = [r["ID"] for r in sheet_rows(proto, inst["sheet"])]
            if kind == "blk_data":
                inst["row_id"] = rng.choice(OTHER_IDS)
        if inst["sheet"] and not inst["row_id"]:
            feats.add("bulk_rows_" + ("0" if not held else "1" if len(held) == 1 else "many"))
            if not held:
                feats.add("empty_by_filter" if sheet_rows(proto, "other" if inst["sheet"] == "ov" else "data") else "empty_header_only")
            if inst["sheet"] not in ("data", "other"):
                feats.add("bulk_over_filter_view")
        elif inst["sheet"] not in ("", "data", "other"):
            feats.add("single_over_filter_view")
        defs = bargs if inst["tmpl"] == "oblk" else targs
        if defs and rng.random() < 0.4:
            inst["given"] = [rng.choice(["E1", "E 2"])]
        if kind in ("dataless", "bulk") and not blank_name_used and rng.random() < 0.3:
            inst["new_name"] = ""
            blank_name_used = True      # at most one blank name per template: `otmpl` vs `otmpl - <ID>` cannot collide
        insts.append(inst)
        feats.add("inst_" + kind)
    pos = {k: [j for j, x in enumerate(kinds) if x in k] for k in (("bulk", "single"), ("dataless",))}
    if pos[("bulk", "single")] and pos[("dataless",)]:
        if min(pos[("bulk", "single")]) < max(pos[("dataless",)]):
            feats.add("dataless_after_data")
        if min(pos[("dataless",)]) < max(pos[("bulk", "single")]):
            feats.add("data_after_dataless")
    return {"mixed": True, "ids": ids, "data": data, "use_num": use_num, "use_ref": use_ref, "use_items": use_items,
            "views": views, "targs": targs, "bargs": bargs, "blk_more": blk_more, "trows": t, "insts": insts,
            "features": sorted(feats)}


# ------------------------------------------------------------------ the rows a sheet holds (generator's own reading)


def sheet_rows(case: dict, sheet: str) -> list:
    """rows of `data`, of `other`, or of a sheet derived by a filter operation — in sheet order"""
    if sheet == "data":
        return list(case["data"])
    if sheet == "other":
        return [{"ID": i, "label": "L" + i[1:]} for i in OTHER_IDS]
    v = next(v for v in case.get("views", []) if v["name"] == sheet)
    rows = sheet_rows(case, v["of"])
    if v["op"] == "==":
        return [r for r in rows if r[v["field"]] == v["value"]]
    return [r for r in rows if r[v["field"]] > v["value"]]


def view_expression(v: dict) -> str:
    return f"{v['field']}=='{v['value']}'" if v["op"] == "==" else f"{v['field']} > {v['value']}"


# ------------------------------------------------------------------ workbook


def base_sheets(case: dict) -> dict:
    heads = ["ID", "word"] + (["num:int"] if case["use_num"] else []) + (["ref"] if case["use_ref"] else []) \
        + (["items.1", "items.2"] if case["use_items"] else [])
    rows = []
    for r in case["data"]:
        row = {"ID": r["ID"], "word": r["word"]}
        if case["use_num"]:
            row["num:int"] = str(r["num"])
        if case["use_ref"]:
            row["ref"] = r["ref"]
        if case["use_items"]:
            row["items.1"], row["items.2"] = r["items"]
        rows.append(row)
    blk = [{"row_id": "b1", "type": "send_message", "from": "start",
            "message_text": "block {{ label|default('no label') }} {{ bword|default('nb') }}"}]
    if case["blk_more"]:
        blk.append({"type": "send_message", "include_if": "{{ label is defined }}",
                    "message_text": "block more {{ label|default('?') }}"})
    return {
        "data": rows_to_csv(heads, rows),
        "other": rows_to_csv(["ID", "label"], [{"ID": i, "label": "L" + i[1:]} for i in OTHER_IDS]),
        "otmpl": rows_to_csv(H, [r for e in case["trows"] for r in e["rows"]]),
        "oblk": rows_to_csv(H, blk),
    }


def head_rows(case: dict) -> list:
    derived = [{"type": "data_sheet", "sheet_name": v["of"], "new_name": v["name"],
                "operation": "filter|expression;" + view_expression(v)} for v in case.get("views", [])]
    return [{"type": "data_sheet", "sheet_name": "data"}, {"type": "data_sheet", "sheet_name": "other"}] + derived + [
            {"type": "template_definition", "sheet_name": "otmpl", "template_arguments": defs_cell(case["targs"])},
            {"type": "template_definition", "sheet_name": "oblk", "template_arguments": defs_cell(case["bargs"])}]


def index_row(inst: dict) -> dict:
    return {"type": "create_flow", "sheet_name": inst["tmpl"], "data_sheet": inst["sheet"], "data_row_id": inst["row_id"],
            "new_name": inst["new_name"], "template_arguments": args_cell(inst["given"])}


def workbook(case: dict, insts: list) -> dict:
    return dict(base_sheets(case), content_index=rows_to_csv(IH, head_rows(case) + [index_row(i) for i in insts]))


def expand(case: dict, insts: list) -> list:
    """one single-row (or data-less) index row per flow the rows of `insts` stand for, in the order of the flows"""
    out = []
    for inst in insts:
        if inst["sheet"] and not inst["row_id"]:
            for r in sheet_rows(case, inst["sheet"]):       # zero rows: zero flows
                out.append(dict(inst, row_id=r["ID"], kind=inst["kind"] + "_row"))
        else:
            out.append(inst)
    return out


# ------------------------------------------------------------------ what each instance must say


def bind(defs, given, ctx):
    for k, d in enumerate(defs):
        ctx[d[0]] = given[k] if k < len(given) and given[k] != "" else d[2]
    return ctx


def expect_block(case, rid, given):
    ctx = bind(case["bargs"], given, {"label": "L" + rid[1:]} if rid else {})
    out = [f"block {ctx.get('label', 'no label')} {ctx.get('bword', 'nb')}"]
    if case["blk_more"] and "label" in ctx:
        out.append(f"block more {ctx['label']}")
    return out


def expect_template(case, ctx):
    out = []
    word = ctx.get("word", "nobody")
    for e in case["trows"]:
        tag = e["tag"]
        if tag == "first":
            out.append(f"O {word} {ctx.get('extra', 'noextra')}")
        elif tag == "num":
            out.append(f"num {ctx['num']}" if "num" in ctx else "no num")
        elif tag == "with_data":
            if "word" in ctx:
                out.append(f"with data {word}")
        elif tag == "without_data":
            if "word" not in ctx:
                out.append("without data")
        elif tag == "loop":
            out += [f"item {it} of {word}" for it in ctx.get("items", ["d1"])]
        elif tag == "blk":
            ref = ctx.get("ref", "")
            if (e["cond"] == "ref_set" and ref == "") or (e["cond"] == "ref_blank" and ref != ""):
                continue
            rid = ref if e["rid"] == "ref" else e["rid"]
            out += expect_block(case, rid, [word] if e["arg"] == "word" else [])
        elif tag == "after":
            out.append("after no label nb")
        elif tag == "bye":
            out.append(f"bye {word}")
    return out


def expected_instances(case: dict, insts: list) -> list:
    """[(flow name, the single index row of that instance, texts of its messages in order)], in index order"""
    out = []
    for inst in expand(case, insts):
        base = inst["new_name"] or inst["tmpl"]
        name = f"{base} - {inst['row_id']}" if inst["row_id"] else base
        if inst["tmpl"] == "oblk":
            texts = expect_block(case, inst["row_id"], inst["given"])
        else:
            ctx = {}
            if inst["row_id"]:
                row = next(r for r in case["data"] if r["ID"] == inst["row_id"])
                ctx = {k: v for k, v in row.items()}
            texts = expect_template(case, bind(case["targs"], inst["given"], ctx))
        out.append((name, inst, texts))
    return out
