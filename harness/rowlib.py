"""Shared machinery of C07 / C09: schema descriptions ↔ dynamic pydantic (v1) ParserModels ↔ the
JSON the Lean driver reads; value generators; representable / admissible predicates (mirrors of
Props/C07.lean); real-code wrappers.

Schema description (plain Python data):
    "str" | "int" | "float" | "bool" | "any"            basic types and untyped `list`
    ("list", T)
    ("model", name, [(field, T, default-or-REQ), …], h2f: dict, f2h: dict)
Values are plain data: str/int/float/bool, lists, dict for a model (every field present).
"""
from __future__ import annotations

import json
import math
import typing

REQ = "<required>"
BASIC = ("str", "int", "float", "bool")


def kind(t):
    return t if isinstance(t, str) else t[0]


def model(name, fields, h2f=None, f2h=None):
    return ("model", name, list(fields), dict(h2f or {}), dict(f2h or {}))


# ------------------------------------------------------------------ JSON for the driver


def ty_json(t):
    k = kind(t)
    if k in BASIC or k == "any":
        return k
    if k == "list":
        return {"list": ty_json(t[1])}
    _, _, fields, h2f, f2h = t
    return {
        "model": [[n, ty_json(ft), None if d is REQ else val_json(ft, d)] for n, ft, d in fields],
        "h2f": [[a, b] for a, b in h2f.items()],
        "f2h": [[a, b] for a, b in f2h.items()],
    }


def val_json(t, v):
    k = kind(t)
    if k == "float":
        return repr(float(v))
    if k in BASIC or k == "any":
        return v
    if k == "list":
        return [val_json(t[1], x) for x in v]
    return {n: val_json(ft, v[n]) for n, ft, _ in t[2]}


def schema_json(t, basic=None, main=None):
    return {"top": ty_json(t), "basic": [[a, b] for a, b in (basic or {}).items()], "main": main}


def canon_schema(sj):
    """schema JSON with every remap table (lookups with unique keys) sorted by key: the form in which the
    Lean schema and the one read off the working tree are compared — their order carries no meaning"""
    def ty(j):
        if isinstance(j, dict) and "list" in j:
            return {"list": ty(j["list"])}
        if isinstance(j, dict) and "model" in j:
            return {"model": [[n, ty(t), d] for n, t, d in j["model"]],
                    "h2f": sorted(map(list, j.get("h2f") or [])), "f2h": sorted(map(list, j.get("f2h") or []))}
        return j
    main = sj.get("main")
    return {"top": ty(sj["top"]), "basic": sorted(map(list, sj.get("basic") or [])),
            "main": None if main is None else [main[0], main[1], sorted(map(list, main[2]))]}


def canon_model(j):
    """driver's value JSON → comparable form (floats as python floats)"""
    if isinstance(j, dict):
        if set(j) == {"f"} and isinstance(j["f"], str):
            return ("float", _f(j["f"]))
        return {k: canon_model(v) for k, v in j.items()}
    if isinstance(j, list):
        return [canon_model(x) for x in j]
    return j


def _f(s):
    x = float(s)
    return "nan" if math.isnan(x) else x


def canon_plain(t, v):
    """plain value → the same comparable form"""
    k = kind(t)
    if k == "float":
        return ("float", _f(repr(float(v))))
    if k in BASIC or k == "any":
        return v
    if k == "list":
        return [canon_plain(t[1], x) for x in v]
    return {n: canon_plain(ft, v[n]) for n, ft, _ in t[2]}


# ------------------------------------------------------------------ pydantic classes

_CLASSES: dict = {}


def py_type(t):
    from typing import List

    k = kind(t)
    if k in BASIC:
        return {"str": str, "int": int, "float": float, "bool": bool}[k]
    if k == "any":
        return list
    if k == "list":
        return List[py_type(t[1])]
    return mk_class(t)


def instance(t, v):
    k = kind(t)
    if k == "model":
        return mk_class(t)(**{n: instance(ft, v[n]) for n, ft, _ in t[2]})
    if k == "list":
        return [instance(t[1], x) for x in v]
    if k == "any":
        return json.loads(json.dumps(v))
    return v


def _fill_in_place(owner, n, ft, val):
    """give field `n` of `owner` the value `val` WITHOUT handing it to a constructor: lists are filled in place,
    sub-records field by field on the instance the default provided, scalars (immutable) are assigned"""
    k = kind(ft)
    cur = getattr(owner, n)
    if k == "model" and cur is not None:
        for fn, fft, _ in ft[2]:
            _fill_in_place(cur, fn, fft, val[fn])
    elif k in ("list", "any") and isinstance(cur, list):
        cur[:] = instance(ft, val)
    else:
        setattr(owner, n, instance(ft, val))


def instance_filled(t, v):
    """the same value as `instance(t, v)` reached by another construction history: the constructor gets the
    required fields only, every other field starts at its default and is filled in afterwards (append to the
    default list, set the attributes of the default sub-record, assign the scalar) — what code that builds rows
    step by step does (`row.choices.append(..)`, `edge.condition.value = ..`)"""
    cls = mk_class(t)
    inst = cls(**{n: instance(ft, v[n]) for n, ft, d in t[2] if d is REQ})
    for n, ft, d in t[2]:
        if d is not REQ:
            _fill_in_place(inst, n, ft, v[n])
    return inst


def instance_assigned(t, v):
    """every non-required field assigned as a whole after construction (`row.choices = [..]`)"""
    cls = mk_class(t)
    inst = cls(**{n: instance(ft, v[n]) for n, ft, d in t[2] if d is REQ})
    for n, ft, d in t[2]:
        if d is not REQ:
            setattr(inst, n, instance(ft, v[n]))
    return inst


def instance_copied(t, v):
    """a deep copy of the constructed instance (`m.copy(deep=True)`)"""
    return instance(t, v).copy(deep=True)


def instance_from_dict(t, v):
    """`Model.parse_obj(plain dict)`: sub-records arrive as dicts and are built by validation"""
    return mk_class(t).parse_obj(json.loads(json.dumps(v)))


# construction histories of ONE value (C07: every instance, however it came to hold its value)
HISTORIES = [("filled in place", instance_filled), ("assigned field by field", instance_assigned),
             ("deep copy", instance_copied), ("parse_obj of the plain dict", instance_from_dict)]


def mk_class(t):
    """dynamic ParserModel subclass for a ("model", …) description (cached by structure)"""
    from pydantic.v1 import create_model
    from rpft.parsers.common.rowparser import ParserModel

    key = json.dumps(ty_json(t), sort_keys=True) + t[1]
    if key in _CLASSES:
        return _CLASSES[key]
    _, name, fields, h2f, f2h = t
    kw = {}
    for n, ft, d in fields:
        kw[n] = (py_type(ft), ... if d is REQ else instance(ft, d))
    cls = create_model(name, __base__=ParserModel, **kw)
    if h2f:
        cls.header_name_to_field_name = staticmethod(lambda h, _m=dict(h2f): _m.get(h, h))
    if f2h:
        cls.field_name_to_header_name = staticmethod(lambda f, _m=dict(f2h): _m.get(f, f))
    _CLASSES[key] = cls
    return cls


def plain_of_instance(t, inst):
    k = kind(t)
    if k == "model":
        return {n: plain_of_instance(ft, getattr(inst, n)) for n, ft, _ in t[2]}
    if k == "list":
        return [plain_of_instance(t[1], x) for x in inst]
    return inst


# ------------------------------------------------------------------ real code wrappers


def real_unparse(cls, inst, targets=(), excluded=()):
    from rpft.parsers.common.cellparser import CellParser
    from rpft.parsers.common.rowparser import RowParser

    rp = RowParser(cls, CellParser())
    try:
        d = rp.unparse_row(inst, set(targets), set(excluded))
    except Exception as e:  # noqa: BLE001
        return ("err", type(e).__name__), None
    return ("ok", [[k, v if isinstance(v, str) else str(v)] for k, v in d.items()]), d


def shared_roundtrip(rp, t, inst, targets, data: dict):
    """unparse and parse with a RowParser that is REUSED over many rows (one parser per sheet, as SheetParser
    and RowDataSheet use it): → (cells outcome like real_unparse, parse outcome like real_parse)"""
    try:
        d = rp.unparse_row(inst, set(targets), set())
        cells = ("ok", [[k, v if isinstance(v, str) else str(v)] for k, v in d.items()])
    except Exception as e:  # noqa: BLE001
        cells = ("err", type(e).__name__)
    try:
        m = rp.parse_row(dict(data))
        back = ("ok", canon_plain(t, plain_of_instance(t, m)))
    except Exception as e:  # noqa: BLE001
        back = ("err", type(e).__name__)
    return cells, back


def real_parse(cls, t, data: dict):
    """→ ("ok", canonical plain value) | ("err", exception class)"""
    from rpft.parsers.common.cellparser import CellParser
    from rpft.parsers.common.rowparser import RowParser

    rp = RowParser(cls, CellParser())
    try:
        m = rp.parse_row(dict(data))
    except Exception as e:  # noqa: BLE001
        return ("err", type(e).__name__)
    return ("ok", canon_plain(t, plain_of_instance(t, m)))


def real_parse_seq(cls, t, rows: list):
    """the rows parsed one after the other by ONE RowParser (as SheetParser does for a sheet)"""
    from rpft.parsers.common.cellparser import CellParser
    from rpft.parsers.common.rowparser import RowParser

    rp = RowParser(cls, CellParser())
    out = []
    for data in rows:
        try:
            m = rp.parse_row(dict(data))
        except Exception as e:  # noqa: BLE001
            out.append(("err", type(e).__name__))
            continue
        out.append(("ok", canon_plain(t, plain_of_instance(t, m))))
    return out


def model_result(r):
    """{"ok": v} | {"err": k} from the driver → same shape as real_parse"""
    if r is None:
        return None
    if "__error__" in r:
        return ("driver-error", r["__error__"])
    if "ok" in r:
        return ("ok", canon_model(r["ok"]))
    return ("err", r["err"])


def same_outcome(real, mod):
    """values must be equal; errors only need to be errors on both sides (exception classes of
    the real code are coarser/finer than the model's enum)"""
    if mod == ("err", "convert") and real[0] == "ok" and ("['" in json.dumps(real[1]) or '[\\"' in json.dumps(real[1])):
        return True  # str(list): the code stores the Python repr of a list in a str field; the model stops
    if real[0] == "ok" or mod[0] == "ok":
        return real == mod
    return real[0] == "err" and mod[0] == "err"


# ------------------------------------------------------------------ type facts


def pack_depth(t):
    """nesting depth of to_nested_list(value) for a value of type t (records cost a key/value level)"""
    k = kind(t)
    if k in BASIC:
        return 0
    if k == "any":
        return 2  # decided on the value: see any_depth
    if k == "list":
        return 1 + pack_depth(t[1])
    return 2 + max([pack_depth(ft) for _, ft, _ in t[2]] or [0])


def re_match(headers, prefix):
    """RowParser.matches_headers re-implemented independently of the model (regex as in the code)"""
    import re

    if not prefix:
        return False
    for h in headers:
        if re.compile("^" + h.replace(".", "\\.").replace("*", "[^.]+")).match(prefix):
            return True
    return False


def candidate_headers(t, prefix=""):
    """headers that can pack something: every non-basic position, lists with `*`"""
    out = []
    k = kind(t)
    if k == "model":
        for n, ft, _ in t[2]:
            hn = t[4].get(n, n)
            if kind(ft) in BASIC:
                continue
            p = f"{prefix}.{hn}" if prefix else hn
            out.append(p)
            if hn == n:
                out += candidate_headers(ft, p)
    elif k == "list":
        if kind(t[1]) not in BASIC:
            p = f"{prefix}.*"
            out.append(p)
            out += candidate_headers(t[1], p)
    return out


def walk_layout(t, targets, prefix="", forced=False):
    """Static walk of unparse over the schema (index 1 stands for every index):
    yields (prefix, type, packed?) for every position written as one cell."""
    k = kind(t)
    if k in BASIC:
        yield prefix, t, False
        return
    if forced or re_match(targets, prefix):
        yield prefix, t, True
        return
    if k == "any":
        yield prefix, t, False  # spread untyped list
        return
    if k == "list":
        yield from walk_layout(t[1], targets, f"{prefix}.1" if prefix else "1")
        return
    for n, ft, _ in t[2]:
        hn = t[4].get(n, n)
        p = f"{prefix}.{hn}" if prefix else hn
        yield from walk_layout(ft, targets, p, forced=(hn != n))


def admissible(t, targets):
    """every packed position has nesting depth ≤ 2 (mirror of Props.C07 Admissible)"""
    return all((not packed) or pack_depth(pt) <= 2 for _, pt, packed in walk_layout(t, targets))


def any_spread_ok(t, targets, v, prefix=""):
    """an untyped list that is spread must hold plain strings only (else F-C04-d)"""
    k = kind(t)
    if k in BASIC:
        return True
    if prefix and re_match(targets, prefix):
        return True
    if k == "any":
        return all(isinstance(x, str) for x in v)
    if k == "list":
        return all(any_spread_ok(t[1], targets, x, f"{prefix}.{i+1}") for i, x in enumerate(v))
    ok = True
    for n, ft, d in t[2]:
        hn = t[4].get(n, n)
        if hn != n:
            continue  # forced pack
        if d is not REQ and v[n] == d:
            continue
        ok = ok and any_spread_ok(ft, targets, v[n], f"{prefix}.{hn}" if prefix else hn)
    return ok


TMP = "\x01"


def str_ok(s):
    return s == s.strip() and "{" not in s


def all_default(t, v):
    return all(d is not REQ and v[n] == d for n, ft, d in t[2])


def representable(t, v, depth=0, in_list=False):
    """mirror of Props.C07 Representable (layout independent):
    strings trimmed, template free; inside lists no blank string, no empty inner list,
    no all-default record; inside sub-records a blank string must be the default (it is the last
    element of its key/value pair); untyped lists: at most two levels, no blank, not empty unless
    default; floats finite."""
    k = kind(t)
    if k == "str":
        return str_ok(v) and not (in_list and v == "")
    if k == "int":
        return True
    if k == "bool":
        return True
    if k == "float":
        return not math.isnan(v)
    if k == "any":
        def flat(x):
            return isinstance(x, str) and str_ok(x) and x != ""
        if in_list and not v:
            return False  # an empty untyped list inside a list leaves no cell
        return all(flat(x) or (isinstance(x, list) and x and all(flat(y) for y in x)) for x in v)
    if k == "list":
        if in_list and not v:
            return False
        return all(representable(t[1], x, depth + 1, True) for x in v)
    if in_list and all_default(t, v):
        return False
    for n, ft, d in t[2]:
        x = v[n]
        if d is not REQ and x == d:
            continue
        fk = kind(ft)
        if (depth >= 1 or in_list) and fk == "str" and x == "":
            return False  # blank last element of its key/value pair
        if fk in ("list", "any") and not x:
            return False  # an empty list leaves no cell (spread) / reads back as [""] (untyped): must be the default
        if fk == "model" and all_default(ft, x):
            return False  # written as an empty cell when packed
        if not representable(ft, x, depth + 1, False):
            return False
    return True


# ------------------------------------------------------------------ the repo's own flow row model


def desc_of_class(cls, maps):
    """schema description of an existing ParserModel class (pydantic introspection + ast maps);
    registers the class so that mk_class returns it"""
    from rpft.parsers.common.rowparser import ParserModel

    def ty(t):
        if t in (str, int, float, bool):
            return t.__name__
        if t is list:
            return "any"
        if typing.get_origin(t) is list:
            (a,) = typing.get_args(t)
            return ("list", ty(a))
        if isinstance(t, type) and issubclass(t, ParserModel):
            return desc_of_class(t, maps)
        raise TypeError(t)

    fields = []
    for n, f in cls.__fields__.items():
        ft = ty(f.outer_type_)
        d = REQ if f.required else plain_of_instance(ft, f.get_default())
        fields.append((n, ft, d))
    h2f, f2h = maps(cls)
    t = model(cls.__name__, fields, dict(h2f), dict(f2h))
    _CLASSES[json.dumps(ty_json(t), sort_keys=True) + t[1]] = cls
    return t


def flow_row_schema():
    """(description, schema JSON for the driver) of FlowRowModel, from the working tree: field lists by
    pydantic introspection, remap tables read off the BEHAVIOUR of the model's own remap functions
    (harness/tables/t07_flowrow.py) — no dependence on where / how the source spells them"""
    from .tables import t07_flowrow as T

    mod = T.load_module()
    t = desc_of_class(mod.FlowRowModel, T.source_maps())
    basic, hdr, tcol, mainarg = T.context_tables(mod)
    sj = schema_json(t, dict(basic), [hdr, tcol, [[a, b] for a, b in mainarg]])
    return t, sj, dict(mainarg)
