"""C13 — pure comparison / oracle functions shared by the check (harness/props/c13.py) and the
runner (harness/c13_runner.py).  No rpft code is imported here."""
from __future__ import annotations

import json
import re

from .flows import named_refs, object_ids

UUID_ANY = re.compile(r"[0-9a-f]{8}-[0-9a-f]{4}-4[0-9a-f]{3}-[89ab][0-9a-f]{3}-[0-9a-f]{12}")


# ------------------------------------------------------------------ canonicalisation / comparison


def given_ids(spec) -> set:
    return set(UUID_ANY.findall(json.dumps(spec)))


def canon_out(spec, res):
    """canonical observable of one call: result + exception + log records (with the processing
    stack each record was emitted under), invented uuids renamed #k by first occurrence"""
    keep = given_ids(spec)
    result = res["result"]
    if spec["op"] == "convert_to_json" and isinstance(result, str):
        try:
            parsed = json.loads(result)
            if spec.get("fmt", "csv") == "csv":
                # CSVSheetReader enumerates Path.glob("*.csv"): the order of the top-level "sheets"
                # entries is the file system's, not the input's (recorded assumption)
                parsed["sheets"] = dict(sorted(parsed.get("sheets", {}).items()))
                result = {"parsed_sorted_sheets": parsed}
            else:
                result = {"text": result}
        except ValueError:
            result = {"text": result}
    mapping: dict = {}

    def sub(m):
        u = m.group(0)
        if u in keep:
            return u
        if u not in mapping:
            mapping[u] = f"#{len(mapping)}"
        return mapping[u]

    def ren(x):
        if isinstance(x, dict):
            return {ren(k): ren(v) for k, v in x.items()}
        if isinstance(x, list):
            return [ren(v) for v in x]
        if isinstance(x, str):
            return UUID_ANY.sub(sub, x)
        return x

    return json.dumps(ren({"result": result, "exc": res["exc"], "logs": res["logs"], "plain": res.get("plain_json", True)}),
                      ensure_ascii=False)


def bijection_problems(a, b, keep: set, fwd=None, bwd=None, path=""):
    """explicit two-way check: a and b agree everywhere except on invented uuids, which correspond
    one-to-one (independent of the first-occurrence canonicaliser)"""
    fwd = {} if fwd is None else fwd
    bwd = {} if bwd is None else bwd
    out = []

    def rec(x, y, p):
        if len(out) > 3:
            return
        if isinstance(x, dict) and isinstance(y, dict):
            kx, ky = list(x.keys()), list(y.keys())
            if len(kx) != len(ky):
                out.append(f"{p}: different keys")
                return
            for k1, k2 in zip(kx, ky):
                rec(k1, k2, p + "/<key>")
                rec(x[k1], y[k2], f"{p}/{k1}")
        elif isinstance(x, list) and isinstance(y, list):
            if len(x) != len(y):
                out.append(f"{p}: lengths {len(x)} / {len(y)}")
                return
            for i, (u, v) in enumerate(zip(x, y)):
                rec(u, v, f"{p}/{i}")
        elif isinstance(x, str) and isinstance(y, str):
            ux, uy = UUID_ANY.findall(x), UUID_ANY.findall(y)
            if UUID_ANY.sub("#", x) != UUID_ANY.sub("#", y) or len(ux) != len(uy):
                # show the place where they part (long texts differ at the far end as often as not)
                k = next((i for i, (c1, c2) in enumerate(zip(x, y)) if c1 != c2), min(len(x), len(y)))
                lo = max(0, k - 40) if max(len(x), len(y)) > 80 else 0
                out.append(f"{p}: {x[lo:lo + 80]!r} / {y[lo:lo + 80]!r}" + (f" (from character {lo}; lengths {len(x)} / {len(y)})" if lo else ""))
                return
            for u, v in zip(ux, uy):
                if u in keep or v in keep:
                    if u != v:
                        out.append(f"{p}: given id not reproduced verbatim: {u} / {v}")
                    continue
                if fwd.setdefault(u, v) != v:
                    out.append(f"{p}: {u} corresponds to both {fwd[u]} and {v}")
                if bwd.setdefault(v, u) != u:
                    out.append(f"{p}: {v} corresponds to both {bwd[v]} and {u}")
        elif x != y or type(x) is not type(y):
            out.append(f"{p}: {str(x)[:80]!r} / {str(y)[:80]!r}")

    rec(a, b, path)
    return out


def invented_object_dups(doc, keep: set):
    seen, out = {}, []
    for path, u in object_ids(doc):
        if isinstance(u, str) and u and u not in keep:
            if u in seen:
                out.append(f"invented id {u} names two objects: {seen[u]} and {path}")
            seen[u] = path
    # named objects (groups, flows — defined here or only referred to): an invented identifier stands for ONE of them
    who = {}
    for kind, name, u, path in named_refs(doc):
        if isinstance(u, str) and u and u not in keep:
            who.setdefault(u, {})[(kind, name)] = path
    for u, names in who.items():
        if len(names) > 1:
            out.append(f"invented id {u} stands for {len(names)} different named objects: " + ", ".join(f"{k} {n!r}" for k, n in sorted(names, key=repr)))
    return out


# ------------------------------------------------------------------ per-call checks (no comparison needed)


def steps_problems(spec, res):
    """(v) idempotence / commutation on one live object and across objects built from the same input"""
    out = []
    result = res["result"]
    if spec["op"] not in ("container", "compile_ops") or not isinstance(result, list):
        return out
    keep = given_ids(spec)
    first = {}
    for qi, (seq, outs) in enumerate(zip(spec["seqs"], result)):
        local = {}
        validated = False
        for si, (step, o) in enumerate(zip(seq, outs)):
            # `udict` observes the UUIDDict itself: empty until the first validate()/render(), stable after
            key = json.dumps(step + [validated] if step[0] == "udict" else step)
            if step[0] in ("render", "validate"):
                validated = True
            val = o
            where = f"sequence {qi} {json.dumps(seq)} step {si}"
            # same object: the same operation gives exactly the same answer wherever it stands
            if key in local and local[key][1] != val:
                out.append(f"{where}: {step[0]} differs from the same operation at step {local[key][0]} on the same object")
            local.setdefault(key, (si, val))
            # other object from the same input: equal up to the renaming of invented ids
            if key in first:
                probs = bijection_problems(first[key][1], val, keep)
                if probs:
                    out.append(f"{where}: {step[0]} differs from {first[key][0]} beyond a renaming of invented ids: {probs[0]}")
            first.setdefault(key, (where, val))
    return out


def call_problems(spec, res):
    """checks on a single call's answer"""
    out = []
    # hit counters of functools caches are not state the property names (a cache that changes an
    # answer is caught by the differential runs); everything else that outlives the call is
    audit = [a for a in res["audit"] if not a["where"].endswith(".cache_info")]
    if audit:
        a = audit[0]
        out.append(("global state changed by the call", f"{a['where']}: import-time {a['import_time'][:160]} now {a['now'][:160]}"))
    if res["reused_in_process"]:
        out.append(("invented uuid reused within the process", res["reused_in_process"][0]))
    if not res.get("plain_json", True):
        out.append(("result is not plain JSON", ""))
    r = res["result"]
    keep = given_ids(spec)
    if spec["op"] in ("create_flows", "parser_default") and res["exc"] is None and isinstance(r, dict):
        doc = r.get("returned", r) if "returned" in r else r
        if spec.get("outfile") and r.get("file_equals_returned") is False:
            out.append(("file written by create_flows differs from the returned value", ""))
        for d in invented_object_dups(doc, keep):
            out.append(("invented uuid shared by two objects", d))
        if not [lg for lg in res["logs"] if lg[0] >= 40]:
            text = json.dumps(doc)
            for u in spec.get("expect_ids", []):
                if u not in text:
                    out.append(("identifier given in the input is not reproduced", u))
    if spec["op"] == "container" and res["exc"] is None and isinstance(r, list):
        want = sorted(u for _, u in object_ids(spec["doc"]) if u)
        for seq, outs in zip(spec["seqs"], r):
            for step, o in zip(seq, outs):
                if step[0] == "render" and "render" in o:
                    got = sorted(u for _, u in object_ids(o["render"]) if u)
                    if got != want:
                        out.append(("object identifiers of the input are not reproduced verbatim by from_dict().render()",
                                    f"missing {sorted(set(want) - set(got))[:2]} extra {sorted(set(got) - set(want))[:2]}"))
                    break
    for p in steps_problems(spec, res):
        out.append(("render / to_rows are not idempotent or do not commute", p))
    return out


def is_f_c13_a(spec, problems) -> bool:
    """trigger: a group / flow reference without uuid in the input document and a uuid-keeping export
    on both sides of a render; pattern: the only discrepancy is to_rows before vs after render"""
    text = json.dumps(spec.get("doc"))
    trigger = '"uuid": null' in text or '"uuid": ""' in text
    pattern = bool(problems) and all(w == "render / to_rows are not idempotent or do not commute" and "to_rows" in d for w, d in problems)
    return trigger and pattern


