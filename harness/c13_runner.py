"""C13 runner — executes sequences of real API calls inside ONE Python process and reports what
each call returned plus a global-state audit after every call.

Launched by harness/props/c13.py with `/venv/bin/python -m harness.c13_runner` (PYTHONPATH =
$RPFT_REPO/src:<worktree>), optionally under a fixed PYTHONHASHSEED.  Reads ONE JSON job
description on stdin, prints ONE JSON document on stdout.

    {"workdir": path, "mode": "seq" | "forkeach", "jobs": [{"id": …, "calls": [call, …]}, …]}

mode "seq"      : all jobs one after the other in this process (a *used* process; a job list of
                  one job with one call is the *fresh* run).
mode "forkeach" : the process imports rpft, takes the import-time snapshot, then forks one child
                  per job (each child is fresh with respect to call history, and inherits this
                  interpreter's hash seed) — used to sweep many jobs under one PYTHONHASHSEED.

Input files are prepared with stdlib/tablib only (never with rpft code), so that the first rpft
code a fresh process runs is the observed call itself.
"""
from __future__ import annotations

import collections
import hashlib
import importlib
import io
import json
import logging
import os
import pkgutil
import re
import sys
import types

UUID_ANY = re.compile(r"[0-9a-f]{8}-[0-9a-f]{4}-4[0-9a-f]{3}-[89ab][0-9a-f]{3}-[0-9a-f]{12}")
UUID_FULL = re.compile(r"^" + UUID_ANY.pattern + r"$")
ADDR = re.compile(r"0x[0-9a-fA-F]{6,}")
LOGGER_NAMES = ("main", "rpft.rapidpro.models.routers")


# ----------------------------------------------------------------------------- audit


PRIM = (type(None), bool, int, float, str, bytes, complex)


def _is_rpft_class(cls) -> bool:
    m = getattr(cls, "__module__", "") or ""
    return m == "rpft" or m.startswith("rpft.") or m.startswith("c13dm_")


def fp(x, depth=0, path=()):
    """identity-free fingerprint of a value (JSON-able)"""
    if isinstance(x, PRIM):
        return [type(x).__name__, x if isinstance(x, (type(None), bool, int, str)) else repr(x)]
    if depth > 10:
        return ["deep", type(x).__name__]
    if id(x) in path:
        return ["cycle", type(x).__name__]
    path = path + (id(x),)
    if isinstance(x, (list, tuple, collections.deque)):
        return [type(x).__name__, [fp(e, depth + 1, path) for e in x]]
    if isinstance(x, dict):  # dict, OrderedDict, defaultdict, ChainMap is not a dict
        return [type(x).__name__, [[fp(k, depth + 1, path), fp(v, depth + 1, path)] for k, v in list(x.items())]]
    if isinstance(x, (set, frozenset)):
        return [type(x).__name__, sorted(json.dumps(fp(e, depth + 1, path), sort_keys=True, default=repr) for e in x)]
    if isinstance(x, logging.Logger):
        return ["logger", x.name, x.level, len(x.handlers), len(x.filters), x.propagate, x.disabled]
    if isinstance(x, (types.FunctionType, types.BuiltinFunctionType, types.MethodType, type, types.ModuleType)):
        return ["ref", type(x).__name__, getattr(x, "__module__", None), getattr(x, "__qualname__", getattr(x, "__name__", ""))]
    if isinstance(x, re.Pattern):
        return ["re", x.pattern, x.flags]
    cls = type(x)
    if _is_rpft_class(cls) or hasattr(x, "__fields__"):
        d = getattr(x, "__dict__", None)
        if isinstance(d, dict):
            return ["obj", cls.__module__ + "." + cls.__qualname__, fp(d, depth + 1, path)]
    if hasattr(x, "__dict__") and cls.__module__.split(".")[0] in ("jinja2", "tablib", "networkx"):
        return ["ext", cls.__module__ + "." + cls.__qualname__]
    return ["other", cls.__module__ + "." + cls.__qualname__]


def _collect_func(fn, key, out):
    fn = getattr(fn, "__wrapped__", fn) if not isinstance(fn, types.FunctionType) else fn
    if hasattr(fn, "cache_info"):
        try:
            out[key + ".cache_info"] = fp(tuple(fn.cache_info()))
        except Exception:  # noqa: BLE001
            pass
    if not isinstance(fn, types.FunctionType):
        return
    for i, d in enumerate(fn.__defaults__ or ()):
        out[f"{key}.__defaults__[{i}]"] = fp(d)
    for k, d in (fn.__kwdefaults__ or {}).items():
        out[f"{key}.__kwdefaults__[{k}]"] = fp(d)


def _collect_class(cls, key, out, seen):
    if id(cls) in seen:
        return
    seen.add(id(cls))
    for name, v in list(vars(cls).items()):
        k = f"{key}.{name}"
        if isinstance(v, (staticmethod, classmethod)):
            _collect_func(v.__func__, k, out)
        elif isinstance(v, types.FunctionType) or hasattr(v, "cache_info"):
            _collect_func(v, k, out)
        elif isinstance(v, property):
            for part in ("fget", "fset", "fdel"):
                f = getattr(v, part)
                if f is not None:
                    _collect_func(f, f"{k}.{part}", out)
        elif isinstance(v, type):
            if _is_rpft_class(v):
                _collect_class(v, k, out, seen)
        elif name == "__fields__" and isinstance(v, dict):
            # pydantic (v1 API) field defaults: shared objects copied into every instance
            for fname, field in v.items():
                out[f"{k}[{fname}].default"] = fp(getattr(field, "default", None))
                out[f"{k}[{fname}].default_factory"] = fp(getattr(field, "default_factory", None))
        elif name.startswith("__") and name.endswith("__"):
            continue
        elif name in ("_abc_impl",):
            continue
        else:
            out[k] = fp(v)


def rpft_modules():
    return [m for n, m in sorted(sys.modules.items()) if (n == "rpft" or n.startswith("rpft.")) and m is not None]


def collect() -> dict:
    """every piece of state reachable from the rpft.* modules that outlives a call"""
    out: dict = {}
    seen: set = set()
    for mod in rpft_modules():
        mname = mod.__name__
        for name, v in list(vars(mod).items()):
            if name.startswith("__") and name.endswith("__"):
                continue
            k = f"{mname}.{name}"
            if isinstance(v, types.ModuleType):
                continue
            if isinstance(v, type):
                if v.__module__ == mname:
                    _collect_class(v, k, out, seen)
                continue
            if isinstance(v, types.FunctionType) or hasattr(v, "cache_info"):
                if getattr(v, "__module__", None) == mname:
                    _collect_func(v, k, out)
                continue
            out[k] = fp(v)
    # ambient process state the library has no business changing
    out["<cwd>"] = os.getcwd()
    out["<sys.path>"] = hashlib.sha1(json.dumps(sys.path).encode()).hexdigest()
    out["<os.environ>"] = hashlib.sha1(json.dumps(sorted(os.environ.items())).encode()).hexdigest()
    for ln in LOGGER_NAMES + ("",):
        out[f"<logger {ln or 'root'}>"] = fp(logging.getLogger(ln))
    out["<rpft modules>"] = [m.__name__ for m in rpft_modules()]
    return {k: json.dumps(v, sort_keys=True, default=repr) for k, v in out.items()}


def import_all_rpft():
    import rpft

    for m in pkgutil.walk_packages(rpft.__path__, "rpft."):
        if m.name == "rpft.cli":  # importing it configures the logger to exit on CRITICAL and creates errors.log
            continue
        importlib.import_module(m.name)


def diff_snapshots(base: dict, now: dict) -> list:
    out = []
    for k in sorted(set(base) | set(now)):
        a, b = base.get(k), now.get(k)
        if a != b:
            out.append({"where": k, "import_time": (a or "<absent>")[:400], "now": (b or "<absent>")[:400]})
    return out


# ----------------------------------------------------------------------------- log capture


class Capture(logging.Handler):
    """records ≥ WARNING of the repo's loggers, each with the processing stack the repo's own
    ContextFilter attaches; optionally behaves like the CLI's ShutdownHandler (exit on CRITICAL)"""

    def __init__(self, crit_raises=False):
        super().__init__(level=logging.WARNING)
        from rpft.logger.logger import ContextFilter

        self.addFilter(ContextFilter())
        self.records = []
        self.crit_raises = crit_raises

    def emit(self, record):
        self.records.append([record.levelno, getattr(record, "processing_stack", None), record.getMessage()])
        if self.crit_raises and record.levelno >= logging.CRITICAL:
            sys.exit(1)

    def __enter__(self):
        self._old = []
        for n in LOGGER_NAMES:
            lg = logging.getLogger(n)
            self._old.append((lg, lg.propagate))
            lg.addHandler(self)
            lg.propagate = False
        return self

    def __exit__(self, *a):
        for lg, prop in self._old:
            lg.removeHandler(self)
            lg.propagate = prop
        return False


# ----------------------------------------------------------------------------- input files


def write_workbook(sheets: dict, fmt: str, d: str, stem: str) -> str:
    """sheets: name → CSV text.  Returns the path to hand to the converter."""
    import tablib

    if fmt == "csv":
        p = os.path.join(d, stem)
        os.mkdir(p)
        for name, text in sheets.items():
            with open(os.path.join(p, f"{name}.csv"), "w", encoding="utf-8", newline="") as f:
                f.write(text)
        return p
    tables = {n: tablib.import_set(t, format="csv") for n, t in sheets.items()}
    if fmt == "xlsx":
        book = tablib.Databook()
        for n, t in tables.items():
            t.title = n
            book.add_sheet(t)
        p = os.path.join(d, stem + ".xlsx")
        with open(p, "wb") as f:
            f.write(book.export("xlsx"))
        return p
    if fmt == "json":
        p = os.path.join(d, stem + ".json")
        with open(p, "w", encoding="utf-8") as f:
            json.dump({"meta": {"version": "0.1.0"}, "sheets": {n: t.dict for n, t in tables.items()}}, f)
        return p
    raise ValueError(fmt)


def write_models(src: str | None, d: str):
    """data-model module named by its content (sys.modules caches by name)"""
    if not src:
        return None
    name = "c13dm_" + hashlib.sha1(src.encode()).hexdigest()[:12]
    md = os.path.join(os.path.dirname(d), "_models")
    os.makedirs(md, exist_ok=True)
    p = os.path.join(md, name + ".py")
    if not os.path.exists(p):
        tmp = p + f".{os.getpid()}.tmp"
        with open(tmp, "w") as f:
            f.write(src)
        os.replace(tmp, p)
    if md not in sys.path:
        sys.path.insert(0, md)
    return name


def read_outputs(folder: str) -> dict:
    out = {}
    for fn in sorted(os.listdir(folder)):
        p = os.path.join(folder, fn)
        if fn.endswith(".xlsx"):
            import openpyxl

            wb = openpyxl.load_workbook(p)
            out[fn] = {ws.title: [[c for c in row] for row in ws.iter_rows(values_only=True)] for ws in wb.worksheets}
        else:
            with open(p, "rb") as f:
                out[fn] = f.read().decode("utf-8")
    return out


# ----------------------------------------------------------------------------- calls


def container_steps(container, seq):
    """render / to_rows / raw_rows / udict steps on one live container object"""
    outs = []
    for step in seq:
        kind = step[0]
        try:
            if kind == "render":
                outs.append({"render": container.render()})
            elif kind == "validate":
                container.validate()
                outs.append({"validate": None})
            elif kind == "to_rows":
                strip, numbered = bool(step[1]), bool(step[2])
                outs.append({"to_rows": [[fl.name, fl.to_row_data_sheet(strip, numbered).convert_to_tablib().export("csv")]
                                         for fl in container.flows]})
            elif kind == "raw_rows":
                outs.append({"raw_rows": [[fl.name, [r.dict() for r in fl.to_rows(bool(step[1]))]] for fl in container.flows]})
            elif kind == "udict":
                outs.append({"udict": {"flow": [[k, v] for k, v in container.uuid_dict.flow_dict.items()],
                                       "group": [[k, v] for k, v in container.uuid_dict.group_dict.items()]}})
            else:
                raise ValueError(kind)
        except Exception as e:  # noqa: BLE001 — a step that raises is an observable too
            outs.append({"exc": f"{type(e).__name__}: {e}"})
    return outs


def do_call(spec: dict, d: str):
    """run one API call; returns its result (JSON-able)"""
    from rpft import converters

    op = spec["op"]
    if op in ("create_flows", "save_data_sheets", "compile_ops", "parser_default"):
        fmt = spec.get("fmt", "csv")
        paths = [write_workbook(wb, fmt, d, f"wb{i}") for i, wb in enumerate(spec["wbs"])]
        models = write_models(spec.get("models"), d)
        tags = spec.get("tags")
        outfile = os.path.join(d, "out.json") if spec.get("outfile") else None
        if op == "create_flows":
            if tags is None:
                res = converters.create_flows(paths, outfile, fmt, data_models=models)      # default tags=[]
            else:
                res = converters.create_flows(paths, outfile, fmt, data_models=models, tags=tags)
        elif op == "save_data_sheets":
            if tags is None:
                res = converters.save_data_sheets(paths, outfile, fmt, data_models=models)
            else:
                res = converters.save_data_sheets(paths, outfile, fmt, data_models=models, tags=tags)
        elif op == "compile_ops":
            # every sequence works on a container compiled anew from the same files
            return [container_steps(converters.get_content_index_parser(paths, fmt, models, tags or []).parse_all(), seq)
                    for seq in spec["seqs"]]
        else:  # ContentIndexParser with its default tag_matcher=TagMatcher()
            from rpft.parsers.creation.contentindexparser import ContentIndexParser

            reader = converters.create_sheet_reader(fmt, paths[0])
            return ContentIndexParser(reader, models).parse_all().render()
        if outfile:
            with open(outfile, encoding="utf8") as f:
                on_disk = json.load(f)
            return {"returned": res, "file_equals_returned": on_disk == json.loads(json.dumps(res))}
        return res
    if op == "convert_to_json":
        fmt = spec.get("fmt", "csv")
        return converters.convert_to_json(write_workbook(spec["wbs"][0], fmt, d, "wb0"), fmt)
    if op == "flows_to_sheets":
        inp = os.path.join(d, "in.json")
        with open(inp, "w", encoding="utf-8") as f:
            json.dump(spec["doc"], f)
        out = os.path.join(d, "out")
        os.mkdir(out)
        converters.flows_to_sheets(inp, out, spec.get("fmt", "csv"), bool(spec.get("strip")), bool(spec.get("numbered")))
        return read_outputs(out)
    if op == "container":
        from rpft.rapidpro.models.containers import RapidProContainer

        # every sequence works on a new container built from the same document
        return [container_steps(RapidProContainer.from_dict(spec["doc"]), seq) for seq in spec["seqs"]]
    if op == "uuiddict":
        # the real UUIDDict under a sequence of record/generate operations (tie for det.uuid)
        from rpft.rapidpro.models.containers import UUIDDict

        ud = UUIDDict()
        errors = []
        for i, o in enumerate(spec["ops"]):
            try:
                if o["k"] == "generate":
                    ud.generate_missing_uuids()
                elif o["k"] == "flow":
                    ud.record_flow_uuid(o["name"], o["uuid"])
                else:
                    ud.record_group_uuid(o["name"], o["uuid"])
            except ValueError:
                errors.append(i)
        return {"flow": [[k, v] for k, v in ud.flow_dict.items()], "group": [[k, v] for k, v in ud.group_dict.items()], "errors": errors}
    if op == "logprog":
        # a nest of real `with logging_context(...)` blocks (tie for det.stack)
        from rpft.logger.logger import get_logger, logging_context

        lg = get_logger()

        def run(ps):
            for p in ps:
                if "w" in p:
                    lg.warning(p["w"])
                elif "f" in p:
                    raise RuntimeError(p["f"])
                elif "c" in p:
                    with logging_context(p["c"]):
                        run(p["b"])
                else:
                    try:
                        run(p["a"])
                    except Exception:  # noqa: BLE001
                        pass

        run([spec["prog"]])
        return None
    raise ValueError(f"unknown op {op}")


def uuids_in(x, acc: list):
    if isinstance(x, dict):
        for k, v in x.items():
            uuids_in(k, acc)
            uuids_in(v, acc)
    elif isinstance(x, (list, tuple)):
        for v in x:
            uuids_in(v, acc)
    elif isinstance(x, str):
        acc.extend(UUID_ANY.findall(x))


class Process:
    def __init__(self, workdir):
        self.workdir = workdir
        self.n = 0
        self.seen_ids: set = set()
        self.baseline = None
        self.prev = None

    def snapshot(self):
        import_all_rpft()
        self.baseline = collect()

    def call(self, spec):
        self.n += 1
        d = os.path.join(self.workdir, f"p{os.getpid()}_{self.n}")
        os.mkdir(d)
        given: list = []
        uuids_in(spec, given)
        given_set = set(given)
        res, exc = None, None
        with Capture(bool(spec.get("crit_raises"))) as cap:
            try:
                res = do_call(spec, d)
            except BaseException as e:  # noqa: BLE001
                if isinstance(e, KeyboardInterrupt):
                    raise
                exc = f"{type(e).__name__}: {e}"
        try:
            res = json.loads(json.dumps(res))
            plain = True
        except (TypeError, ValueError):
            res = json.loads(json.dumps(res, default=repr))
            plain = False
        norm = lambda s: ADDR.sub("0x?", s.replace(d, "<DIR>")) if isinstance(s, str) else s  # noqa: E731
        logs = [[lvl, norm(stack), norm(msg)] for lvl, stack, msg in cap.records]
        out_ids: list = []
        uuids_in({"r": res, "e": exc, "l": logs}, out_ids)
        invented = list(dict.fromkeys(u for u in out_ids if u not in given_set))
        reused = [u for u in invented if u in self.seen_ids]
        self.seen_ids.update(given_set)
        self.seen_ids.update(out_ids)
        now = collect()
        audit = diff_snapshots(self.baseline, now)
        # a module imported lazily by this call becomes part of the baseline (not a state change)
        for a in [a for a in audit if a["import_time"] == "<absent>" or a["where"] == "<rpft modules>"]:
            self.baseline[a["where"]] = now.get(a["where"])
        # report a deviation from the import-time state at the call that produced it (not again at
        # every later call of the process)
        prev = self.prev if self.prev is not None else self.baseline
        audit = [a for a in audit if a["import_time"] != "<absent>" and a["where"] != "<rpft modules>"
                 and now.get(a["where"]) != prev.get(a["where"])]
        self.prev = now
        full = {"result": res, "plain_json": plain, "exc": norm(exc), "logs": logs, "invented": invented,
                "reused_in_process": reused, "audit": audit}
        if spec.get("_raw") or spec["op"] in ("logprog", "uuiddict"):
            return full
        # compact answer: the oracles and the canonical form are evaluated here (same functions as in the check)
        from harness.c13_common import call_problems, canon_out

        canon = canon_out(spec, full)
        return {"exc": full["exc"], "plain_json": plain, "invented": invented, "reused_in_process": reused, "audit": audit,
                "max_log_level": max([lg[0] for lg in logs], default=0), "problems": call_problems(spec, full),
                "canon_sha": hashlib.sha1(canon.encode("utf-8", "surrogatepass")).hexdigest(), "canon_head": canon[:300]}

    def job(self, job):
        return {"id": job["id"], "calls": [self.call(c) for c in job["calls"]]}


def main():
    req = json.load(sys.stdin)
    real_out = sys.stdout
    sys.stdout = sys.stderr  # nothing the library prints may corrupt the answer
    proc = Process(req["workdir"])
    proc.snapshot()
    results = []
    if req.get("mode", "seq") == "seq":
        for job in req["jobs"]:
            results.append(proc.job(job))
    else:
        for job in req["jobs"]:
            r, w = os.pipe()
            pid = os.fork()
            if pid == 0:
                os.close(r)
                try:
                    data = json.dumps(proc.job(job)).encode()
                except BaseException as e:  # noqa: BLE001
                    data = json.dumps({"id": job["id"], "runner_error": repr(e)}).encode()
                with os.fdopen(w, "wb") as f:
                    f.write(data)
                os._exit(0)
            os.close(w)
            with os.fdopen(r, "rb") as f:
                data = f.read()
            os.waitpid(pid, 0)
            results.append(json.loads(data) if data else {"id": job["id"], "runner_error": "child died"})
    real_out.write(json.dumps({
        "results": results, "hashseed": os.environ.get("PYTHONHASHSEED"), "hash_probe": hash("c13") % 1000,
        "audit_items": len(proc.baseline), "pid": os.getpid(),
    }))
    real_out.flush()


if __name__ == "__main__":
    main()
