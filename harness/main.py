from __future__ import annotations

import argparse
import importlib
import os
import sys
import traceback

from . import core


def main():
    ap = argparse.ArgumentParser()
    ap.add_argument("prop")
    ap.add_argument("--tier", default=os.environ.get("VERIF_TIER", "quick"), choices=["quick", "thorough"])
    ap.add_argument("--replay", default=None)
    ap.add_argument("--seed", type=int, default=None)
    args = ap.parse_args()
    prop = args.prop.upper()
    seed = args.seed if args.seed is not None else core.seed_from_env()
    try:
        mod = importlib.import_module(f"harness.props.{prop.lower()}")
    except ModuleNotFoundError:
        print(f"no check for {prop}", file=sys.stderr)
        sys.exit(2)
    try:
        if args.replay:
            sys.exit(mod.replay(args.replay))
        ck = core.Check(prop, args.tier, seed)
        try:
            mod.run(ck)
        except (core.Infra, Exception) as e:  # noqa: BLE001
            # the harness could not finish.  If an obligation is already known to be broken (the Lean step does
            # not check, the correspondence disagrees) or a failing input is in hand, that is the verdict to
            # report (DESIGN §2.6) — the harness reads its tables off the same source, so it may well stop for
            # the same reason; otherwise it is an infrastructure failure (exit 2).
            lean = getattr(ck, "lean", None)
            if ck.violations or ck.tie_breaks or (lean is not None and not lean.ok):
                ck.harness_error = f"{type(e).__name__}: {e}"
                traceback.print_exc()
                sys.exit(ck.finish())
            raise
        sys.exit(ck.finish())
    except core.Infra as e:
        print(f"INFRA: {e}", file=sys.stderr)
        sys.exit(2)
    except SystemExit:
        raise
    except BaseException:
        traceback.print_exc()
        sys.exit(2)


if __name__ == "__main__":
    main()
