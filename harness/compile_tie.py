"""T2 tie for the Lean compiler model (Rpft/Compile.lean) and the parser-structure model
(Rpft/Sugar.lean): the real FlowParser is traced (row / open group / close group events with the
instantiated rows), the model is run on that event sequence by the driver, and the two flows are
compared as canonical JSON (invented identifiers renamed by first occurrence)."""
from __future__ import annotations

import contextlib
import copy
import json

from . import hook
from .flows import UUID4, CompileResult, LogCapture, canon_action, canon_flow, table_from_rows


def _edges_json(row):
    return [{"from": e.from_, "condition": {"value": e.condition.value, "variable": e.condition.variable,
                                            "type": e.condition.type, "name": e.condition.name}} for e in row.edges]


def _obs(action_dict):
    return canon_action(action_dict)["obs"]


def row_json(row):
    """what the model needs of an instantiated row; action content and constructor checks come
    from the real constructors (not modelled, see Compile.lean header)"""
    from rpft.parsers.creation.flowparser import FlowParser
    from rpft.rapidpro.models.common import generate_field_key
    from rpft.rapidpro.models.containers import RapidProContainer

    scratch = FlowParser(RapidProContainer(), "scratch", table_from_rows(["type"], []))
    action, action_ok = None, True
    special = row.type in ("hard_exit", "loose_exit", "go_to", "no_op", "insert_as_block")
    if not special:
        try:
            a = scratch._get_row_action(row)
            if a is not None:
                action = _obs(a.render())
        except Exception:  # noqa: BLE001
            action_ok = False
    own, node_ok = None, True
    if not special and action_ok:
        try:
            n = scratch._get_row_node(row)
            if row.type in ("start_new_flow", "call_webhook", "transfer_airtime") and n.actions:
                own = _obs(n.actions[0].render())
        except BaseException as e:  # noqa: BLE001
            if isinstance(e, (KeyboardInterrupt, SystemExit)):
                raise
            node_ok = False
    try:
        key = generate_field_key(row.save_name)
    except Exception:  # noqa: BLE001
        key = None
    return {
        "row_id": row.row_id, "type": row.type, "edges": _edges_json(row), "action": action, "action_ok": action_ok,
        "own_action": own, "node_uuid": row.node_uuid, "node_name": row.node_name, "save_name": row.save_name,
        "no_response": row.no_response, "expression": row.mainarg_expression, "flow_name": row.mainarg_flow_name,
        "dests": list(row.mainarg_destination_row_ids), "result_key": key, "node_ok": node_ok,
    }


def trace_compile(headers, rows, context=None, flow_name="flow"):
    """real compile with event tracing → (CompileResult, model events)"""
    from rpft.parsers.creation.flowparser import FlowParser, NodeGroup
    from rpft.rapidpro.models.containers import RapidProContainer

    raw = []
    if hook.available():
        return _trace_compile_hook(headers, rows, context, flow_name)

    class Stack(list):
        def append(self, x):
            raw.append({"ev": "push"})
            super().append(x)

        def pop(self, *a):
            raw.append({"ev": "pop"})
            return super().pop(*a)

    class Tracer(FlowParser):
        def _parse_row(self, row):
            raw.append({"ev": "row", "row": row_json(row)})
            super()._parse_row(row)

        def _parse_noop_row(self, row, store_row_id=True):
            if not store_row_id:
                raw.append({"ev": "begin_edges", "edges": _edges_json(row)})
            super()._parse_noop_row(row, store_row_id)

        def append_node_group(self, g, row_id):
            if isinstance(g, NodeGroup):
                raw.append({"ev": "closed", "row_id": row_id or ""})
            super().append_node_group(g, row_id)

    res = CompileResult()
    with LogCapture() as cap:
        try:
            container = RapidProContainer()
            p = Tracer(container, flow_name, table_from_rows(headers, rows), context=copy.deepcopy(context) if context else None)
            p.node_group_stack = Stack(p.node_group_stack)
            p.parse()
            res.doc = container.render()
        except BaseException as e:  # noqa: BLE001
            if isinstance(e, (KeyboardInterrupt, SystemExit)):
                raise
            res.exc = f"{type(e).__name__}: {e}"
    res.errors = cap.errors()
    res.warnings = cap.warnings()
    return res, _normalise_compile(raw)


def _raw_sink(out, NodeGroup, only=None):
    """the project's hook events (harness/hook.py) → the raw events the subclassing tracers record.
    out(): the list being written; only(parser): whether that parser is traced"""
    def sink(name, d):
        if only is not None and not only(d["parser"]):
            return
        if name == "push":
            out().append({"ev": "push"})
        elif name == "pop":
            out().append({"ev": "pop"})
        elif name == "row":
            out().append({"ev": "row", "row": row_json(d["row"])})
        elif name == "noop_row":
            if not d["store_row_id"]:
                out().append({"ev": "begin_edges", "edges": _edges_json(d["row"])})
        elif name == "append_group":
            g = d["group"]
            if isinstance(g, NodeGroup) and not getattr(g, "_inserted", False):
                out().append({"ev": "closed", "row_id": d["row_id"] or ""})
    return sink


def _trace_compile_hook(headers, rows, context, flow_name):
    """trace_compile through the project's guarded hook: the plain FlowParser, no subclass"""
    from rpft.parsers.creation.flowparser import FlowParser, NodeGroup
    from rpft.rapidpro.models.containers import RapidProContainer

    raw, me = [], []
    res = CompileResult()
    with LogCapture() as cap:
        try:
            container = RapidProContainer()
            p = FlowParser(container, flow_name, table_from_rows(headers, rows), context=copy.deepcopy(context) if context else None)
            me.append(p)
            with hook.sink(_raw_sink(lambda: raw, NodeGroup, lambda q: q is me[0])):
                p.parse()
            res.doc = container.render()
        except BaseException as e:  # noqa: BLE001
            if isinstance(e, (KeyboardInterrupt, SystemExit)):
                raise
            res.exc = f"{type(e).__name__}: {e}"
    res.errors = cap.errors()
    res.warnings = cap.warnings()
    return res, _normalise_compile(raw)


def _normalise_compile(raw):
    # normalise: push [+ begin_edges] → open ; pop + closed → close
    events = []
    i = 0
    while i < len(raw):
        e = raw[i]
        if e["ev"] == "push":
            if i + 1 < len(raw) and raw[i + 1]["ev"] == "begin_edges":
                events.append({"ev": "open", "edges": raw[i + 1]["edges"], "starting": False})
                i += 2
            else:
                events.append({"ev": "open", "edges": [], "starting": True})
                i += 1
        elif e["ev"] == "pop":
            rid = raw[i + 1]["row_id"] if i + 1 < len(raw) and raw[i + 1]["ev"] == "closed" else ""
            events.append({"ev": "close", "row_id": rid})
            i += 2 if i + 1 < len(raw) and raw[i + 1]["ev"] == "closed" else 1
        elif e["ev"] == "row":
            events.append(e)
            i += 1
        else:
            i += 1
    return events


def _canon_nodes(nodes, invented):
    """rename invented identifiers by first occurrence; erase what the model does not carry"""
    mapping = {}

    def ren(x):
        if isinstance(x, str) and invented(x):
            if x not in mapping:
                mapping[x] = f"#{len(mapping)}"
            return mapping[x]
        if isinstance(x, list):
            return [ren(v) for v in x]
        if isinstance(x, dict):
            return {k: ren(x[k]) for k in sorted(x)}   # fixed traversal order on both sides
        return x

    out = []
    for n in nodes:
        m = {"uuid": n["uuid"], "actions": [{"uuid": a["uuid"], "obs": a["obs"]} for a in n["actions"]],
             "exits": [{"uuid": e["uuid"], "destination_uuid": e.get("destination_uuid")} for e in n["exits"]], "router": None}
        r = n.get("router")
        if r:
            r = copy.deepcopy(r)
            for k in r.get("cases", []):
                if k["type"] == "has_group" and k["arguments"]:
                    k["arguments"] = [None] + list(k["arguments"][1:])   # group uuids are C06's subject (both sides)
            m["router"] = r
        out.append(ren(m))
    return out


def compare(drv, res: CompileResult, events, given_ids=frozenset()):
    """('agree'|'both_error'|'unsupported'|'disagree', detail)"""
    ans = drv.results([{"op": "compile.run", "events": events}])[0]
    if "__error__" in ans:
        return "disagree", {"driver": ans}
    if ans.get("err") == "unsupported":
        return "unsupported", ans
    real_ok = res.ok
    model_ok = "nodes" in ans
    if not real_ok and not model_ok:
        return "both_error", {"real": [res.exc, res.errors[:1]], "model": ans}
    if real_ok != model_ok:
        return "disagree", {"what": "one side reports an error", "real": [res.exc, res.errors[:2]], "model": ans if not model_ok else "ok"}
    real_nodes = _canon_nodes(canon_flow(res.doc["flows"][0])["nodes"], lambda s: s not in given_ids and bool(UUID4.match(s)))
    model_nodes = _canon_nodes(ans["nodes"], lambda s: s.startswith("~"))
    if real_nodes == model_nodes:
        return "agree", {"nodes": len(real_nodes)}
    # first differing node
    for i, (a, b) in enumerate(zip(real_nodes, model_nodes)):
        if a != b:
            return "disagree", {"what": f"node {i} differs", "real": a, "model": b}
    return "disagree", {"what": "node count differs", "real": len(real_nodes), "model": len(model_nodes)}


# ------------------------------------------------------------------ parser-structure tie (Rpft/Sugar.lean)


def tree_of_rows(rows):
    """flat rows → the tree `_parse_block` traverses (None if ill nested)"""
    pos = 0

    def body(end):
        nonlocal pos
        out = []
        while pos < len(rows):
            t = rows[pos].get("type", "")
            if t in ("end_for", "end_block"):
                if t != end:
                    raise ValueError("nesting")
                pos += 1
                return out
            if t in ("begin_for", "begin_block"):
                p = pos
                pos += 1
                b = body("end_for" if t == "begin_for" else "end_block")
                out.append({"for" if t == "begin_for" else "block": p, "body": b})
            else:
                out.append({"row": pos})
                pos += 1
        if end is not None:
            raise ValueError("unterminated")
        return out

    try:
        return body(None)
    except ValueError:
        return None


def trace_structure(headers, rows, context=None):
    """real parse with the structure traced: (CompileResult, real events, instantiation table)"""
    from rpft.parsers.creation.flowparser import FlowParser
    from rpft.rapidpro.models.containers import RapidProContainer

    real, table = [], []
    state = {"last": None, "begins": [], "ctx0": None}

    def key_of(ctx):
        c0 = state["ctx0"]
        items = [(k, repr(v)) for k, v in ctx.items() if k not in c0 or repr(c0[k]) != repr(v)]
        return sorted(items)

    def on_push():
        pos, key = state["last"]
        state["begins"].append(pos)
        real.append(["open", pos])

    def on_pop():
        real.append(["close", state["begins"].pop()])

    def on_row():
        pos, key = state["last"]
        real.append(["row", pos, [list(p) for p in key]])

    use_hook = hook.available()
    me = []

    def sink(name, d):
        if not me or d["parser"] is not me[0]:
            return
        if name == "push":
            on_push()
        elif name == "pop":
            on_pop()
        elif name == "row":
            on_row()

    class Stack(list):
        def append(self, x):
            on_push()
            super().append(x)

        def pop(self, *a):
            on_pop()
            return super().pop(*a)

    class LegacyTracer(FlowParser):
        def _parse_row(self, row):
            on_row()
            super()._parse_row(row)

    Tracer = FlowParser if use_hook else LegacyTracer
    res = CompileResult()
    with LogCapture() as cap:
        try:
            container = RapidProContainer()
            p = Tracer(container, "flow", table_from_rows(headers, rows), context=copy.deepcopy(context) if context else None)
            sp = p.sheet_parser
            state["ctx0"] = copy.deepcopy(sp.context)
            orig = sp.parse_next_row

            def wrapped(omit_templating=False, return_index=False):
                key = key_of(sp.context)
                row, idx = orig(omit_templating=omit_templating, return_index=True)
                if row is not None:
                    pos = idx - 2
                    state["last"] = (pos, key)
                    if not omit_templating:
                        lv = None
                        if row.type == "begin_for":
                            lv = [x for x in row.loop_variable[:2]]
                            lv = None if not lv or not lv[0] else [lv[0], (lv[1] if len(lv) > 1 and lv[1] else None)]
                        table.append({"pos": pos, "key": [list(q) for q in key], "incl": bool(row.include_if), "lv": lv,
                                      "iter": [repr(x) for x in row.mainarg_iterlist] if row.type == "begin_for" else []})
                return (row, idx) if return_index else row

            sp.parse_next_row = wrapped
            if use_hook:
                me.append(p)
                with hook.sink(sink):
                    p.parse()
            else:
                p.node_group_stack = Stack(p.node_group_stack)
                p.parse()
            res.doc = container.render()
        except BaseException as e:  # noqa: BLE001
            if isinstance(e, (KeyboardInterrupt, SystemExit)):
                raise
            res.exc = f"{type(e).__name__}: {e}"
    res.errors = cap.errors()
    res.warnings = cap.warnings()
    return res, real, table


def compare_structure(drv, rows, res, real, table):
    """('agree'|'both_error'|'skipped'|'disagree', detail)"""
    items = tree_of_rows(rows)
    if items is None:
        return "skipped", {}
    ans = drv.results([{"op": "sugar.events", "items": items, "table": table, "ctx": []}])[0]
    if "__error__" in ans:
        return "disagree", {"driver": ans}
    if "err" in ans:
        if not res.ok:
            return "both_error", {"model": ans["err"], "real": [res.exc, res.errors[:1]]}
        return "disagree", {"what": "the model cannot follow the real parser", "model": ans["err"]}
    if not res.ok:
        # the real run failed later (inside _parse_row etc.): compare the prefix the real parser performed
        if ans["events"][: len(real)] == real:
            return "both_error", {"real": [res.exc, res.errors[:1]]}
        return "disagree", {"what": "event prefix differs on a failing run", "model": ans["events"][:20], "real": real[:20]}
    if ans["events"] == real:
        return "agree", {"events": len(real)}
    for i, (a, b) in enumerate(zip(ans["events"], real)):
        if a != b:
            return "disagree", {"what": f"event {i} differs", "model": a, "real": b}
    return "disagree", {"what": "event count differs", "model": len(ans["events"]), "real": len(real)}


# ------------------------------------------------------------------ content indexes (templates, insert_as_block)


def _normalise(raw):
    """raw tracer events → model events (open / close / row / insert, nested)"""
    events = []
    i = 0
    while i < len(raw):
        e = raw[i]
        k = e["ev"]
        if k == "push":
            if i + 1 < len(raw) and raw[i + 1]["ev"] == "begin_edges":
                events.append({"ev": "open", "edges": raw[i + 1]["edges"], "starting": False})
                i += 2
            else:
                events.append({"ev": "open", "edges": [], "starting": True})
                i += 1
        elif k == "pop":
            nxt = raw[i + 1] if i + 1 < len(raw) else None
            if nxt and nxt["ev"] == "closed":
                events.append({"ev": "close", "row_id": nxt["row_id"]})
                i += 2
            else:
                events.append({"ev": "close", "row_id": ""})
                i += 1
        elif k == "row":
            if e["row"]["type"] == "insert_as_block" and i + 1 < len(raw) and raw[i + 1]["ev"] == "insert_body":
                events.append({"ev": "insert", "row": e["row"], "events": _normalise(raw[i + 1]["events"])})
                i += 2
            else:
                events.append(e)
                i += 1
        else:
            i += 1   # stray 'closed' of an inserted block's append (handled by the insert event)
    return events


def trace_index(sheets: dict, tags=None):
    """real ContentIndexParser run with every FlowParser traced → (CompileResult, {flow name: events})"""
    import rpft.parsers.creation.contentindexparser as cip
    from rpft.parsers.creation.flowparser import FlowParser, NodeGroup
    from rpft.parsers.creation.tagmatcher import TagMatcher

    from .flows import mem_reader

    cur = [None]        # the raw event list being written
    per_flow = {}
    use_hook = hook.available()

    class Stack(list):
        def append(self, x):
            cur[0].append({"ev": "push"})
            super().append(x)

        def pop(self, *a):
            cur[0].append({"ev": "pop"})
            return super().pop(*a)

    class Scoped(FlowParser):
        """public entry points only: which flow / inserted block the events belong to"""

        def parse_as_block(self):
            parent = cur[0]
            mine = []
            cur[0] = mine
            try:
                g = super().parse_as_block()
                g._inserted = True
                return g
            finally:
                cur[0] = parent
                parent.append({"ev": "insert_body", "events": mine})

        def parse(self, add_to_container=True):
            mine = []
            cur[0] = mine
            try:
                return super().parse(add_to_container)
            finally:
                per_flow[self.flow_name] = mine
                cur[0] = None

    class LegacyTracer(Scoped):
        def __init__(self, *a, **kw):
            super().__init__(*a, **kw)
            self.node_group_stack = Stack(self.node_group_stack)

        def _parse_row(self, row):
            cur[0].append({"ev": "row", "row": row_json(row)})
            super()._parse_row(row)

        def _parse_noop_row(self, row, store_row_id=True):
            if not store_row_id:
                cur[0].append({"ev": "begin_edges", "edges": _edges_json(row)})
            super()._parse_noop_row(row, store_row_id)

        def append_node_group(self, g, row_id):
            if isinstance(g, NodeGroup) and not getattr(g, "_inserted", False):
                cur[0].append({"ev": "closed", "row_id": row_id or ""})
            super().append_node_group(g, row_id)

    Tracer = Scoped if use_hook else LegacyTracer
    tracing = (hook.sink(_raw_sink(lambda: cur[0], NodeGroup, lambda q: isinstance(q, Scoped))) if use_hook
               else contextlib.nullcontext())
    res = CompileResult()
    saved = cip.FlowParser
    cip.FlowParser = Tracer
    try:
        with LogCapture() as cap:
            try:
                with tracing:
                    parser = cip.ContentIndexParser(mem_reader(sheets), None, TagMatcher(tags or []))
                    res.doc = parser.parse_all().render()
            except BaseException as e:  # noqa: BLE001
                if isinstance(e, (KeyboardInterrupt, SystemExit)):
                    raise
                res.exc = f"{type(e).__name__}: {e}"
        res.errors = cap.errors()
        res.warnings = cap.warnings()
    finally:
        cip.FlowParser = saved
    return res, {k: _normalise(v) for k, v in per_flow.items()}


def compare_index(drv, res: CompileResult, per_flow):
    """('agree'|'both_error'|'unsupported'|'disagree', detail) over all flows of a workbook"""
    if not res.ok:
        # some flow failed: the model must fail on at least one flow as well
        answers = drv.results([{"op": "compile.run", "events": ev} for ev in per_flow.values()]) if per_flow else []
        if not per_flow or any("err" in a or "__error__" in a for a in answers):
            return "both_error", {}
        return "both_error", {"note": "index-level error (not a flow)"}
    flows = {f["name"]: f for f in res.doc["flows"]}
    names = [n for n in per_flow if n in flows]
    answers = drv.results([{"op": "compile.run", "events": per_flow[n]} for n in names])
    for n, ans in zip(names, answers):
        if "__error__" in ans:
            return "disagree", {"flow": n, "driver": ans}
        if ans.get("err") == "unsupported":
            return "unsupported", ans
        if "nodes" not in ans:
            return "disagree", {"flow": n, "what": "model reports an error, the real compiler does not", "model": ans}
        real_nodes = _canon_nodes(canon_flow(flows[n])["nodes"], lambda s: bool(UUID4.match(s)))
        model_nodes = _canon_nodes(ans["nodes"], lambda s: s.startswith("~"))
        if real_nodes != model_nodes:
            for i, (a, b) in enumerate(zip(real_nodes, model_nodes)):
                if a != b:
                    return "disagree", {"flow": n, "what": f"node {i} differs", "real": a, "model": b}
            return "disagree", {"flow": n, "what": "node count differs", "real": len(real_nodes), "model": len(model_nodes)}
    return "agree", {"flows": len(names)}
