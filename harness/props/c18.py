"""C18 — a model inferred from headers reads data like the explicit model it denotes.

A  proof step: Rpft.Props.C18 (infer_render for all nested schemas, infer_order_insensitive for all
   column orders, inferred_parses_like_explicit, infer_cells_independent, InFamily/InFamilyU +
   negative witnesses) re-checked by the kernel against tables regenerated from /repo.
B  tie: Lean `infer` vs the real `model_from_headers` (walk of `__fields__`: names, types,
   defaults) on rendered family schemas in several spellings and on a malformed-header stream;
   Lean `renderHeaders` vs the harness' own renderer.
C  direct oracle: for every schema the EXPLICIT twin (pydantic `create_model`, built from the
   schema, never from header text) and the INFERRED model parse the same rows through the real
   RowParser + CellParser; `row.dict()` must agree (type-sensitive), and the inferred structure
   must not depend on the cells (end to end through ContentIndexParser with a blank data_model),
   nor on other copies of the sheet: with several input files (CompositeSheetReader) holding a
   sheet of that name under different header rows, in both orders of the files, the rows and the
   structure are those of the explicit twin of the copy that is read (the last file that has it).
"""
from __future__ import annotations

import json
import random

from .. import core, par

MANIFEST = dict(
    text="Proof: over a line-by-line Lean model of model_inference.py, for ALL inputs (structural induction on the schema tree, no bound on depth or width): infer_render = C18_full (every schema of the family - basic fields with defaults, list/List[T], sub-records a.b, indexed lists a.1,a.2 with per-index defaults, lists of records, lists of lists, nested to any depth - rendered to its canonical header list is inferred back EXACTLY: names, order, types, defaults); infer_order_insensitive (for every such schema with its fields in ANY order (InFamilyU) and ANY permutation of its header list - interleaved fields, column-major lists of records, split sub-records/lists, list entries out of order, at any depth - inference succeeds and yields the schema up to the order of the fields of each record; TyEquiv = equal after sorting the fields of every record by name, proved an equivalence relation (tyEquiv_equivalence), sound (tyEquiv_of_perm) and not coarser than that (tyEquiv_model_names, tyEquiv_distinguishes)); corollaries for the column orders the harness generates (infer_column_moved, infer_adjacent_swap, infer_sorted_columns, infer_perm_agree, infer_perm_vs_canonical); inferred_parses_like_explicit (every row - any cells - parses under the inferred model to exactly the outcome under the explicit model, over the RowParser model of C07/C09); header_roundtrip; infer_cells_independent; non-vacuity examples and one kernel-checked negative witness per clause of InFamily/InFamilyU (needs_*), needs_up_to_field_order, needs_distinct_names, needs_same_columns; index_order_not_needed + row_parser_asserts_index_order (the increasing-index condition is RowParser.find_entry's, not model_from_headers'). Tie: Lean infer vs real model_from_headers (walk of __fields__: names, types, defaults) on rendered schemas in canonical, restyled and non-contiguous column orders and on a malformed-header stream. Direct oracle: inferred model vs explicit pydantic twin on generated rows through the real RowParser/CellParser (all three spellings/orders), plus the ContentIndexParser fallback end to end, incl. several input files (CompositeSheetReader of 2-4 readers) that hold the data sheet under different header rows (untyped / retyped / renamed / reshaped / unrelated copy), each in both orders of the files: expected is the explicit twin of the copy that is read (the last file that has the sheet).",
    ref="§5 C18",
    note="The theorems cover the canonical spelling of the headers (what renderHeaders writes) in every column order; restyled spellings (blanks around : and =, explicit :str, explicit zero defaults, True/TRUE) are covered by the tie and oracle C only. inferred_parses_like_explicit is a congruence (same model => same parse) through rowSchema, the translation of an inferred model into the RowParser model's schema type (plain ParserModel: identity remaps, every field defaulted; float defaults as text): that translation is a Lean definition, not tied to the real code - equality of row.dict() on the real code is established by oracle C on generated rows. Not proved: for a NON-canonical column order the row outcome under the inferred model equals the explicit one up to field order (needs field-order invariance of RowParser on leaf-addressed columns); checked by oracle C on the interleaved orders. Trusts: Lean kernel (axioms audited each run), the differential harness and Driver JSON codec, pydantic v1 create_model/field defaults, CPython int()/str.split/strip as modelled (ASCII digits; digit strings with '_' or Unicode digits answered 'unsupported' and skipped by the tie). Fractional float defaults (x:float=1.5) are not representable in the Lean Val (integer-valued) and go through oracle C only. Former finding F-C18-a (a default containing '.') was fixed in /repo; dotted defaults are in the main stream (the family predicate stays conservative about them).",
    technique="Lean 4 proof (string/annotation lemmas, header classification, induction on the size of the nested schema type, permutation invariance via grouping/lookup specifications and sorted normal forms) + model/code correspondence + differential oracle against an explicit pydantic twin",
)

# ------------------------------------------------------------------ schema helpers
# field = [name, T, V];  T = "str"|"int"|"float"|"bool"|"list"|{"list":T}|{"model":[field…]}
# V = None | {"s":str} | {"i":int} | {"f":int} | {"b":bool} | {"l":[V…]} | {"r":[[name,V]…]}

BASIC = ["str", "int", "float", "bool"]
ZERO = {"str": {"s": ""}, "int": {"i": 0}, "float": {"f": 0}, "bool": {"b": False}, "list": {"l": []}}

NAMES = [
    "a", "b", "c", "d", "name", "value", "x1", "Row_ID", "my field", "näme", "k-ey", "Q", "nn",
    "list", "str", "int", "t2", "f(x)", "a,b", "x y z", "é", "class", "0x", "1a", "-", "e5",
    "ID2", "msg", "attachment", "choices", "is_ok", "v_1", "日本", "+", "1-2", "type",
]
STR_DEFAULTS = ["", "", "x", "hello world", "a=b", "=", "日本", "a|b", "a;b", "true", "5", "-", "FALSE", "a\\b", "{x}", "a.b", "1.5", "v1.2.3", "e.g."]
LONG_P = 0.12   # share of indexed lists with 10-12 entries
MULTI_P = 0.4   # share of content-index cases that also put the sheet into several input files
FLOAT_LITERALS = ["1.5", "-0.25", "2.0", "0.5", "10.75"]
INT_DEFAULTS = [0, 0, 1, 5, -3, 42, 1000000, -1, 7]
ANN_ELEMS = ["str", "int", "float", "bool", "list", {"list": "str"}, {"list": "int"}]


def default_record(fields):
    return {"r": [[n, v] for n, _t, v in fields]}


def is_simple(T, V):
    if isinstance(T, dict):
        if "model" in T:
            return False
        return not V["l"]
    return True


def gen_td(rng: random.Random, depth: int):
    """(T, V) of one field; depth = remaining levels of nesting."""
    r = rng.random()
    if depth <= 0 or r < 0.45:
        k = rng.random()
        if k < 0.3:
            return "str", {"s": rng.choice(STR_DEFAULTS)}
        if k < 0.5:
            return "int", {"i": rng.choice(INT_DEFAULTS)}
        if k < 0.65:
            return "float", gen_basic_default(rng, "float")
        if k < 0.8:
            return "bool", {"b": rng.random() < 0.5}
        if k < 0.87:
            return "list", {"l": []}
        return {"list": rng.choice(ANN_ELEMS)}, {"l": []}
    if r < 0.7:
        fs = gen_fields(rng, depth - 1, rng.randint(1, 3))
        return {"model": fs}, default_record(fs)
    # indexed list: one element type, per-index defaults; now and then 10-12 entries
    # (two-digit indices: f.1 … f.10, f.11, f.12)
    long = rng.random() < LONG_P
    n = rng.randint(10, 12) if long else rng.randint(1, 3)
    if long:
        depth = min(depth, 2)   # keeps the number of headers of one schema in the hundreds
    k = rng.random()
    if k < 0.4 or depth <= 1:
        t = rng.choice(BASIC)
        ds = [gen_basic_default(rng, t) for _ in range(n)]
        return {"list": t}, {"l": ds}
    if k < 0.8:
        fs = gen_fields(rng, depth - 2, rng.randint(1, 3))
        return {"list": {"model": fs}}, {"l": [default_record(fs) for _ in range(n)]}
    # list of lists
    t = rng.choice(BASIC)
    ds = [{"l": [gen_basic_default(rng, t) for _ in range(rng.randint(0, 2))]} for _ in range(n)]
    return {"list": {"list": t}}, {"l": ds}


def gen_basic_default(rng, t):
    if t == "str":
        return {"s": rng.choice(STR_DEFAULTS)}
    if t == "int":
        return {"i": rng.choice(INT_DEFAULTS)}
    if t == "float":
        # {"fx": literal}: a float default with a fractional part (not representable in the Lean
        # model's Val.float, which is integer-valued: such schemas go through oracle C only)
        return {"fx": rng.choice(FLOAT_LITERALS)} if rng.random() < 0.3 else {"f": rng.choice(INT_DEFAULTS)}
    return {"b": rng.random() < 0.5}


def gen_fields(rng, depth, n):
    names = rng.sample(NAMES, n)
    return [[nm, *gen_td(rng, depth)] for nm in names]


def sort_simple_first(fields):
    """stable, recursive: simple fields before complex ones (the order the code builds)."""
    def fix_td(T, V):
        if isinstance(T, dict) and "model" in T:
            fs = sort_simple_first(T["model"])
            return {"model": fs}, default_record(fs)
        if isinstance(T, dict) and V["l"]:
            t = T["list"]
            pairs = [fix_td(t, d) for d in V["l"]]
            pairs.sort(key=lambda p: 0 if is_simple(*p) else 1)
            return {"list": pairs[0][0]}, {"l": [p[1] for p in pairs]}
        return T, V
    out = [[n, *fix_td(T, V)] for n, T, V in fields]
    out.sort(key=lambda f: 0 if is_simple(f[1], f[2]) else 1)
    return out


def schema_depth(fields):
    def d(T, V):
        if isinstance(T, dict) and "model" in T:
            return 1 + schema_depth(T["model"])
        if isinstance(T, dict) and V["l"]:
            return 1 + max(d(T["list"], x) for x in V["l"])
        return 0
    return max([d(T, V) for _n, T, V in fields] or [0])


# ------------------------------------------------------------------ harness' own renderer


def ty_str(T):
    if isinstance(T, dict):
        return "List[" + ty_str(T["list"]) + "]"
    return T


def val_str(V, style, rng):
    if "s" in V:
        return V["s"]
    if "fx" in V:
        return V["fx"]
    if "i" in V or "f" in V:
        i = V.get("i", V.get("f"))
        if style and rng.random() < 0.2 and i >= 0:
            return rng.choice(["+", "0", "00"]) + str(i)
        return str(i)
    if "b" in V:
        if style:
            return rng.choice(["True", "true", "TRUE", "yes"]) if V["b"] else rng.choice(["False", "false", "FALSE", "fAlSe"])
        return "True" if V["b"] else "False"
    raise ValueError(V)


def render_leaf(T, V, style=False, rng=None):
    """annotation text of a one-header field.  style=False: canonical (must equal Lean's)."""
    sp = (lambda: rng.choice(["", " ", "  "])) if style else (lambda: "")
    out = ""
    if T != "str" or (style and rng.random() < 0.3):
        out += sp() + ":" + sp() + ty_str(T)
    if not isinstance(T, dict) and T != "list":
        if V != ZERO[T] or (style and rng.random() < 0.3):
            out += sp() + "=" + sp() + val_str(V, style, rng)
    return out + sp()


def render(fields, style=False, rng=None):
    """[(header, leaf type)] in schema order."""
    out = []
    for n, T, V in fields:
        for suffix, lt in render_td(T, V, style, rng):
            out.append((n + suffix, lt))
    return out


def render_td(T, V, style, rng):
    if isinstance(T, dict) and "model" in T:
        return [("." + h, lt) for h, lt in render(T["model"], style, rng)]
    if isinstance(T, dict) and V["l"]:
        out = []
        order = list(range(len(V["l"])))
        if style and len(order) > 1 and rng.random() < 0.15:
            rng.shuffle(order)      # index columns out of order: the inferred model must not change
        for i in order:
            for suffix, lt in render_td(T["list"], V["l"][i], style, rng):
                out.append(("." + str(i + 1) + suffix, lt))
        return out
    return [(render_leaf(T, V, style, rng), T)]


# ------------------------------------------------------------------ column orders
# A sheet need not keep the columns of one field together: column-major lists of records
# (o.1.text, o.2.text, o.1.value, o.2.value), a split sub-record (c.name, note, c.phone), a split
# list (tag.1, note, tag.2).  RowParser only requires that the entries of one list are OPENED in
# increasing order (f.2… may not come before the first f.1… column).


def header_path(h):
    return h.split(":")[0].split("=")[0].strip().split(".")


def valid_order(headers):
    """every list entry is opened after its predecessor (what RowParser.find_entry asserts)."""
    seen = {}
    for h in headers:
        p = header_path(h)
        for i, seg in enumerate(p):
            if seg.isdigit():
                k, node = int(seg), tuple(p[:i])
                if k > seen.get(node, 0) + 1:
                    return False
                seen[node] = max(seen.get(node, 0), k)
    return True


def interleave(hdrs, rng, mode=None):
    """a non-contiguous but RowParser-valid order of the (header, leaf type) list."""
    n = len(hdrs)
    if n < 3 or n > 160:
        return None
    mode = mode or rng.choice(["shuffle", "shuffle", "column_major", "column_major", "split"])
    if mode == "column_major":
        # all columns of the same sub-field together, entries in increasing order
        first = {}
        keyed = []
        for idx, (h, lt) in enumerate(hdrs):
            p = header_path(h)
            key = tuple(seg for seg in p if not seg.isdigit())
            first.setdefault(key, idx)
            keyed.append((first[key], tuple(int(seg) for seg in p if seg.isdigit()), idx, (h, lt)))
        out = [x[3] for x in sorted(keyed, key=lambda x: x[:3])]
    elif mode == "split":
        out = list(hdrs)
        for _ in range(8):
            i, j = rng.randrange(n), rng.randrange(n)
            cand = list(out)
            cand.insert(j, cand.pop(i))
            if valid_order([h for h, _ in cand]):
                out = cand
                if rng.random() < 0.5:
                    break
    else:
        # random order, built left to right from the columns that may come next
        rest = list(hdrs)
        out = []
        seen = {}
        while rest:
            ok = []
            for x in rest:
                p = header_path(x[0])
                if all(int(seg) <= seen.get(tuple(p[:i]), 0) + 1 for i, seg in enumerate(p) if seg.isdigit()):
                    ok.append(x)
            x = rng.choice(ok)
            rest.remove(x)
            out.append(x)
            p = header_path(x[0])
            for i, seg in enumerate(p):
                if seg.isdigit():
                    seen[tuple(p[:i])] = max(seen.get(tuple(p[:i]), 0), int(seg))
    if out == list(hdrs) or not valid_order([h for h, _ in out]):
        return None
    return out


def is_contiguous(headers):
    """the columns of every field (at every level) are adjacent"""
    def chk(paths):
        seen, last = set(), None
        groups = {}
        for p in paths:
            k = p[0]
            if k != last and k in seen:
                return False
            seen.add(k)
            last = k
            if len(p) > 1:
                groups.setdefault(k, []).append(p[1:])
        return all(chk(g) for g in groups.values())
    return chk([header_path(h) for h in headers])


# ------------------------------------------------------------------ real-code side


def _mods():
    from typing import List

    from pydantic.v1 import create_model
    from rpft.parsers.common import model_inference, rowparser
    from rpft.parsers.common.cellparser import CellParser

    return List, create_model, model_inference, rowparser, CellParser


def build_explicit(fields, cname="Row"):
    """The hand-written model: fields, types, defaults straight from the schema."""
    List, create_model, _mi, rp, _cp = _mods()

    def ptype(T, hint):
        if isinstance(T, dict):
            if "model" in T:
                return build_explicit(T["model"], hint)
            return List[ptype(T["list"], hint + "Item")]
        return {"str": str, "int": int, "float": float, "bool": bool, "list": list}[T]

    def pval(T, V, pt):
        if isinstance(T, dict):
            if "model" in T:
                return pt()          # a record defaults to the record of its field defaults
            (et,) = pt.__args__
            return [pval(T["list"], d, et) for d in V["l"]]
        if T == "list":
            return []
        if T == "float":
            return float(V["fx"]) if "fx" in V else float(V["f"])
        return V[{"str": "s", "int": "i", "bool": "b"}[T]]

    kw = {}
    for n, T, V in fields:
        pt = ptype(T, cname + "_" + "".join(ch for ch in n if ch.isalnum()))
        kw[n] = (pt, pval(T, V, pt))
    return create_model(cname, __base__=rp.ParserModel, **kw)


def walk_type(t):
    List, _cm, _mi, rp, _cp = _mods()
    if t is str:
        return "str"
    if t is int:
        return "int"
    if t is float:
        return "float"
    if t is bool:
        return "bool"
    if t is list:
        return "list"
    if rp.is_parser_model_type(t):
        return {"model": walk_model(t)}
    args = getattr(t, "__args__", None)
    if rp.is_list_type(t) and args and len(args) == 1:
        return {"list": walk_type(args[0])}
    return {"other": repr(t)}


def walk_val(v):
    from pydantic.v1 import BaseModel

    if v is None:
        return None
    if isinstance(v, bool):
        return {"b": v}
    if isinstance(v, int):
        return {"i": v}
    if isinstance(v, float):
        return {"f": int(v)} if v == v and abs(v) != float("inf") and v.is_integer() else {"fx": repr(v)}
    if isinstance(v, str):
        return {"s": v}
    if isinstance(v, list):
        return {"l": [walk_val(x) for x in v]}
    if isinstance(v, BaseModel):
        return {"r": [[k, walk_val(getattr(v, k))] for k in type(v).__fields__]}
    return {"other": repr(v)}


def walk_model(m):
    return [[k, walk_type(f.outer_type_), walk_val(f.default)] for k, f in m.__fields__.items()]


def real_infer(headers):
    """canonical answer of the real model_from_headers, in the driver's JSON shape."""
    _L, _cm, mi, rp, _cp = _mods()
    hs = list(headers)              # ONE list object, as a reader hands its table's header row out
    try:
        m = mi.model_from_headers("sheet", hs)
    except Exception as e:  # noqa: BLE001
        return {"err": type(e).__name__}, None
    out = {"ok": {"model": walk_model(m)}} if rp.is_parser_model_type(m) else {"ok": walk_type(m)}
    # a sheet may be read more than once (several derived sheets, several parsers over one reader): inferring again
    # from the SAME header list gives the same model, and the list itself is as the reader wrote it
    try:
        m2 = mi.model_from_headers("sheet", hs)
        out2 = {"ok": {"model": walk_model(m2)}} if rp.is_parser_model_type(m2) else {"ok": walk_type(m2)}
    except Exception as e:  # noqa: BLE001
        out2 = {"err": type(e).__name__}
    if (out2 != out or hs != list(headers)) and len(REREAD_FAILS) < 40:
        REREAD_FAILS.append({"what": "a second inference from the same header list differs from the first (the model a sheet gets depends on "
                                     "whether it was read before)", "headers": list(headers), "headers_after_first_inference": list(hs),
                             "first": out, "second": out2})
    return out, m


REREAD_FAILS: list = []


def canon(v):
    from pydantic.v1 import BaseModel

    if isinstance(v, bool):
        return ["b", v]
    if isinstance(v, int):
        return ["i", v]
    if isinstance(v, float):
        return ["f", repr(v)]
    if isinstance(v, str):
        return ["s", v]
    if v is None:
        return ["n"]
    if isinstance(v, (list, tuple)):
        return ["l", [canon(x) for x in v]]
    if isinstance(v, dict):
        return ["d", sorted([k, canon(x)] for k, x in v.items())]
    if isinstance(v, BaseModel):
        return canon(v.dict())
    return ["?", repr(v)]


def parse_outcome(model, row):
    _L, _cm, _mi, rp, CP = _mods()
    from pydantic.v1 import ValidationError

    try:
        inst = rp.RowParser(model, CP()).parse_row(dict(row))
    except ValidationError as e:
        return ["exc", "ValidationError", sorted([list(map(str, x["loc"])), x["type"]] for x in e.errors())]
    except Exception as e:  # noqa: BLE001
        return ["exc", type(e).__name__]
    return ["ok", canon(inst.dict())]


# ------------------------------------------------------------------ rows

STR_CELLS = ["", "hello", " padded ", "a|b", "a;b|c", "1.5", "x.y", "ünï", "5", "a\\|b", "line\nbreak", "=", ":", "true"]
INT_CELLS = ["0", "7", "-12", " 3 ", "1000000"]
FLOAT_CELLS = ["1.5", "2", "-0.25", "1e3", " 4.0 "]
BOOL_CELLS = ["true", "false", "TRUE", "False", "yes", "x", "", " false "]


def gen_cell(rng, lt, blank_p):
    if rng.random() < blank_p:
        return ""
    if isinstance(lt, dict):  # List[T] written in one cell
        t = lt["list"]
        if isinstance(t, dict):
            k = rng.randint(1, 3)
            return "|".join(";".join(gen_cell(rng, t["list"], 0) .strip() or "q" for _ in range(rng.randint(1, 3))) for _ in range(k))
        k = rng.randint(1, 3)
        cells = [(gen_cell(rng, t, 0).strip() if t != "list" else "z") or "q" for _ in range(k)]
        cells = [c.replace("|", "/").replace(";", "/").replace("\\", "/") for c in cells]
        return "|".join(cells) if k > 1 or rng.random() < 0.5 else cells[0]
    if lt == "str":
        return rng.choice(STR_CELLS)
    if lt == "int":
        return rng.choice(INT_CELLS)
    if lt == "float":
        return rng.choice(FLOAT_CELLS)
    if lt == "bool":
        return rng.choice(BOOL_CELLS)
    if lt == "list":
        return rng.choice(["a|b", "a", "1;2|3;4", "x;y", ""])
    raise ValueError(lt)


def top_name(h):
    return h.split(".")[0].split(":")[0].split("=")[0].strip()


def gen_rows(rng, hdrs, n):
    """rows as {header: cell}; kinds: conforming, with blanks, with columns omitted."""
    rows = []
    for i in range(n):
        kind = ("conforming", "blanks", "omitted")[i % 3]
        row = {}
        for h, lt in hdrs:
            numeric = lt in ("int", "float")
            if kind == "conforming":
                bp = 0.0
            elif kind == "blanks":
                bp = 0.08 if numeric else 0.4     # a blank number is an error under both models
            else:
                bp = 0.0 if numeric else 0.1
            row[h] = gen_cell(rng, lt, bp)
        if kind == "omitted" and hdrs:
            # drop whole top-level fields (their defaults must then agree)
            tops = sorted({top_name(h) for h, _ in hdrs})
            drop = set(rng.sample(tops, rng.randint(1, max(1, len(tops) // 2))))
            row = {h: c for h, c in row.items() if top_name(h) not in drop}
        rows.append((kind, row))
    return rows


# ------------------------------------------------------------------ workers


def schema_worker(job):
    """job = (seed, n, maxdepth, nrows[, given]).  Family schemas: tie B + oracle C.
    `given`: explicit list of schemas (failing-input search) instead of n generated ones;
    those outside InFamily are skipped."""
    seed, n, maxdepth, nrows = job[:4]
    given = job[4] if len(job) > 4 else None
    rng = random.Random(seed)
    drv = core.Driver()
    res = {"n": 0, "ties": [], "viol": [], "strata": {}, "keys": [], "samples": [], "infra": []}
    schemas = []
    if given is not None:
        # only family schemas have an explicit twin; the others (holes, integer names, …) are skipped
        fam = drv.results([{"op": "infer.render", "schema": fs} for fs in given])
        schemas = [(fs, False) for fs, r in zip(given, fam) if "__error__" not in r and r.get("inFamily")]
        res["strata"]["search.skipped_not_in_family"] = len(given) - len(schemas)
    for i in range(n if given is None else 0):
        depth = rng.randint(0, maxdepth)
        fs = gen_fields(rng, depth, rng.randint(1, 5))
        ordered = rng.random() < 0.7
        if ordered:
            fs = sort_simple_first(fs)
        schemas.append((fs, ordered))

    def cnt(k, d=1):
        res["strata"][k] = res["strata"].get(k, 0) + d

    # model side: render + family membership + the model's own round trip
    # (schemas with a fractional float default are not representable in the Lean model: headers only)
    def lean_ok(fs):
        return '"fx"' not in json.dumps(fs)

    m_render = iter(drv.results([{"op": "infer.render", "schema": fs} for fs, _ in schemas if lean_ok(fs)]))
    m_plain = iter(drv.results([{"op": "infer.infer", "headers": [h for h, _ in render(fs)]} for fs, _ in schemas if not lean_ok(fs)]))
    m_render = [next(m_render) if lean_ok(fs) else {"headers": [h for h, _ in render(fs)], "inFamily": False, "roundtrip": False, "infer": next(m_plain), "no_lean_schema": True}
                for fs, _ in schemas]
    styled = []
    for fs, _ in schemas:
        styled.append(render(fs, True, rng))
    m_styled = drv.results([{"op": "infer.infer", "headers": [h for h, _ in hs]} for hs in styled])
    # non-contiguous column orders of the canonical headers (several per schema in a search)
    n_il = 1 if given is None else 4
    inter = []
    for fs, _ in schemas:
        cands = [interleave(render(fs), rng) for _ in range(n_il)]
        uniq = []
        for c in cands:
            if c is not None and c not in uniq:
                uniq.append(c)
        inter.append(uniq)
    m_inter = iter(drv.results([{"op": "infer.infer", "headers": [h for h, _ in hs]} for il in inter for hs in il]))
    m_inter = [[next(m_inter) for _ in il] for il in inter]

    for (fs, ordered), mr, hs_st, mst, ils, mils in zip(schemas, m_render, styled, m_styled, inter, m_inter):
        res["n"] += 1
        hdrs = render(fs)
        headers = [h for h, _ in hdrs]
        dep = schema_depth(fs)
        cnt(f"schema.depth={dep}")
        cnt("schema.simple_first" if ordered else "schema.any_order")
        txt = json.dumps(fs, ensure_ascii=False)
        dotted = '"fx"' in txt or any("." in v for v in _str_defaults(fs))
        if dotted:
            cnt("schema.has_dotted_default")
        if _max_indexed(fs) >= 10:
            cnt("schema.has_indexed_list_of_10+")
        if '{"list": {"model"' in txt:
            cnt("schema.has_list_of_records")
        if '"model"' in txt:
            cnt("schema.has_record")
        if '{"list": {"list"' in txt:
            cnt("schema.has_list_of_lists_or_List[List]")
        if "__error__" in mr:
            res["infra"].append({"driver": mr, "schema": fs})
            continue
        # B0: the two renderers agree
        if mr["headers"] != headers:
            res["ties"].append({"what": "renderHeaders (Lean) differs from the harness renderer", "schema": fs, "lean": mr["headers"], "harness": headers})
        if ordered and not dotted and not mr["inFamily"]:
            res["infra"].append({"what": "generator produced a schema outside InFamily", "schema": fs})
        if given is None and not dotted and not mr.get("no_lean_schema") and not mr.get("inFamilyU"):
            res["infra"].append({"what": "generator produced a schema outside InFamilyU", "schema": fs})
        if mr.get("inFamilyU"):
            cnt("schema.InFamilyU")
            if ils:
                cnt("schema.InFamilyU_with_interleaved_order")
        if mr["inFamily"]:
            cnt("schema.InFamily")
            if not mr["roundtrip"]:
                res["ties"].append({"what": "model contradicts infer_render on a family schema", "schema": fs, "model": mr["infer"]})
        # B1: model infer vs real model_from_headers on the canonical headers
        real, inferred = real_infer(headers)
        want = None
        if "ok" in mr["infer"]:
            want = {"ok": mr["infer"]["ok"]["ty"]}
        elif mr["infer"]["err"] != "unsupported":
            want = {"err": mr["infer"]["err"]}
        if "__error__" in mr["infer"]:
            res["infra"].append({"driver": mr["infer"], "headers": headers})
            continue
        if want is None:
            cnt("tie.skipped_unsupported")
        elif want != real:
            res["ties"].append({"what": "model infer differs from real model_from_headers", "headers": headers, "model": want, "real": real})
        # B2: same on a restyled spelling (spaces, explicit :str, explicit zero defaults, True/TRUE…)
        h_st = [h for h, _ in hs_st]
        real_st, inferred_st = real_infer(h_st)
        if "ok" in mst:
            if {"ok": mst["ok"]["ty"]} != real_st:
                res["ties"].append({"what": "model infer differs from real model_from_headers (restyled headers)", "headers": h_st, "model": mst, "real": real_st})
        elif mst.get("err") != "unsupported" and {"err": mst.get("err")} != real_st:
            res["ties"].append({"what": "model infer differs from real model_from_headers (restyled headers)", "headers": h_st, "model": mst, "real": real_st})
        # C: explicit twin vs inferred model on rows
        explicit = build_explicit(fs)
        key = json.dumps(headers, ensure_ascii=False)
        res["keys"].append(key)
        if len(res["samples"]) < 2 and dep >= 2:
            res["samples"].append({"headers": headers})
        if inferred is None:
            res["viol"].append({"what": "model_from_headers fails on the headers of a family schema", "schema": fs, "headers": headers, "error": real})
            continue
        # the structure the code builds IS the schema (up to the order of fields)
        got = real["ok"].get("model") if isinstance(real["ok"], dict) else None
        if canon_schema(got) != canon_schema(fs):
            # show it at the property's own observable as well: one conforming row under both models
            row = {h: gen_cell(random.Random(0), lt, 0.0) for h, lt in hdrs}
            res["viol"].append({"what": "inferred fields/types/defaults differ from the schema the headers denote", "schema": fs, "headers": headers, "inferred": got,
                                "row": row, "row_inferred": parse_outcome(inferred, row), "row_explicit": parse_outcome(explicit, row)})
            continue
        spellings = [("canonical", hdrs, inferred), ("restyled", hs_st, inferred_st)]
        # B3 + C on non-contiguous column orders: same schema, same explicit twin
        for hs_il, mil in zip(ils, mils):
            h_il = [h for h, _ in hs_il]
            cnt("order.interleaved")
            if not is_contiguous(h_il):
                cnt("order.non_contiguous")
            real_il, inferred_il = real_infer(h_il)
            if "ok" in mil:
                if {"ok": mil["ok"]["ty"]} != real_il:
                    res["ties"].append({"what": "model infer differs from real model_from_headers (interleaved columns)", "headers": h_il, "model": mil, "real": real_il})
            elif mil.get("err") != "unsupported" and {"err": mil.get("err")} != real_il:
                res["ties"].append({"what": "model infer differs from real model_from_headers (interleaved columns)", "headers": h_il, "model": mil, "real": real_il})
            got_il = real_il["ok"].get("model") if "ok" in real_il and isinstance(real_il["ok"], dict) else None
            if inferred_il is None or canon_schema(got_il) != canon_schema(fs):
                row = {h: gen_cell(random.Random(0), lt, 0.0) for h, lt in hs_il}
                res["viol"].append({"what": "the inferred structure depends on the order of the columns: interleaved columns of the same schema give other fields/types/defaults",
                                    "schema": fs, "headers": h_il, "headers_contiguous": headers, "inferred": got_il if inferred_il is not None else real_il,
                                    "row": row, "row_inferred": parse_outcome(inferred_il, row) if inferred_il is not None else None, "row_explicit": parse_outcome(explicit, row)})
                continue
            spellings.append(("interleaved", hs_il, inferred_il))
        for which, hh, mdl in spellings:
            if mdl is None:
                res["viol"].append({"what": "model_from_headers fails on restyled headers of a family schema", "headers": [h for h, _ in hh], "error": real_st})
                continue
            for kind, row in gen_rows(rng, hh, nrows):
                cnt(f"rows.{kind}")
                a = parse_outcome(mdl, row)
                b = parse_outcome(explicit, row)
                cnt("rows.outcome_" + a[0])
                if a != b:
                    res["viol"].append({"what": "row parses differently under the inferred and the explicit model", "schema": fs, "headers": [h for h, _ in hh], "row": row, "inferred": a, "explicit": b})
    res["viol"] = sorted(res["viol"], key=lambda v: len(json.dumps(v, default=str)))[:10]
    res["ties"] = sorted(res["ties"], key=lambda v: len(json.dumps(v, default=str)))[:10]
    res["viol"].extend(REREAD_FAILS)       # (real_infer: inference repeated on the same header list)
    del REREAD_FAILS[:]
    return res


def _str_defaults(fields):
    def vs(V):
        if isinstance(V, dict):
            if "s" in V:
                yield V["s"]
            for x in V.get("l", []):
                yield from vs(x)
            for _k, x in V.get("r", []):
                yield from vs(x)
    for _n, T, V in fields:
        yield from vs(V)


def _max_indexed(fields):
    def mt(T, V):
        if isinstance(T, dict) and "model" in T:
            return _max_indexed(T["model"])
        if isinstance(T, dict) and V and V.get("l"):
            return max([len(V["l"])] + [mt(T["list"], d) for d in V["l"]])
        return 0
    return max([mt(T, V) for _n, T, V in fields] or [0])


def canon_schema(fields):
    """order-insensitive (per record) canonical form of a schema."""
    if fields is None:
        return None

    def ct(T):
        if isinstance(T, dict) and "model" in T:
            return {"model": canon_schema(T["model"])}
        if isinstance(T, dict) and "list" in T:
            return {"list": ct(T["list"])}
        return T

    def cv(V):
        if isinstance(V, dict) and "r" in V:
            return {"r": sorted([[k, cv(x)] for k, x in V["r"]], key=lambda p: p[0])}
        if isinstance(V, dict) and "l" in V:
            return {"l": [cv(x) for x in V["l"]]}
        if isinstance(V, dict) and "fx" in V:
            x = float(V["fx"])
            return {"f": int(x)} if x.is_integer() else {"fx": repr(x)}
        return V

    return sorted([[n, ct(T), cv(V)] for n, T, V in fields], key=lambda f: f[0])


# malformed / quirky headers: tie only (the property says nothing about them)
NOISE_LEAVES = [
    "", " ", "a", "a:int", "a:int=5", "a : int = 5 ", "a=5:int", "a:int=abc", "a:int=", "a:bool=", "a:bool=0", "a:bool=FALSE",
    "a:str=x:y", "a=x:y", "a:foo", "a:List", "a:List[]", "a:List[str]=q", "a:list=1", "a:float=3", "a:float=abc", "a:float=1e3",
    "a:int=+7", "a:int=007", "a:int=1_0", "a:int=٣", "a:int=- 1", "a::int", "a:int:float", "a==", "_a", "__base__", "copy", "json",
    "dict", "validate", "Config", "schema", "a b", "a:List[List[int]]", "a:List[ int ]", "a:dict", "a: str", "a:=5", "a=", "a:float=-2",
]
NOISE_KEYS = ["a", "b", "1", "2", "3", "0", "-1", "+1", " 1", "01", "1_0", "x y", "", " a", "a ", "1a", "f:int", "g=1", "٣"]


def noise_headers(rng):
    n = rng.randint(1, 5)
    out = []
    for _ in range(n):
        depth = rng.choice([0, 0, 1, 1, 2, 3])
        path = [rng.choice(NOISE_KEYS) for _ in range(depth)]
        leaf = rng.choice(NOISE_LEAVES)
        if rng.random() < 0.3:
            leaf = leaf.replace("a", rng.choice(NOISE_KEYS), 1)
        out.append(".".join(path + [leaf]))
    if rng.random() < 0.2:
        out.append(rng.choice(out))
    return out


def noise_worker(job):
    seed, n = job
    rng = random.Random(seed)
    drv = core.Driver()
    cases = [noise_headers(rng) for _ in range(n)]
    ans = drv.results([{"op": "infer.infer", "headers": hs} for hs in cases])
    res = {"n": n, "ties": [], "strata": {}, "keys": []}
    for hs, m in zip(cases, ans):
        real, _ = real_infer(hs)
        res["keys"].append(json.dumps(hs, ensure_ascii=False))
        if "__error__" in m:
            res["ties"].append({"what": "driver error", "headers": hs, "model": m})
            continue
        if "ok" in m:
            res["strata"]["noise.model_ok"] = res["strata"].get("noise.model_ok", 0) + 1
            if {"ok": m["ok"]["ty"]} != real:
                res["ties"].append({"what": "model infer differs from real model_from_headers (malformed stream)", "headers": hs, "model": m, "real": real})
        elif m["err"] == "unsupported":
            res["strata"]["noise.skipped_unsupported"] = res["strata"].get("noise.skipped_unsupported", 0) + 1
        else:
            res["strata"]["noise.model_err_" + m["err"]] = res["strata"].get("noise.model_err_" + m["err"], 0) + 1
            if {"err": m["err"]} != real:
                res["ties"].append({"what": "model error differs from real model_from_headers (malformed stream)", "headers": hs, "model": m, "real": real})
    res["ties"] = sorted(res["ties"], key=lambda v: len(json.dumps(v, default=str)))[:10]
    del REREAD_FAILS[:]
    return res


# ------------------------------------------------------------------ end to end: ContentIndexParser fallback


def ci_worker(job):
    """Blank data_model ⇒ the sheet's model is inferred from its headers alone."""
    seed, n, maxdepth = job
    import tablib
    from rpft.parsers.creation.contentindexparser import ContentIndexParser
    from rpft.parsers.sheets import AbstractSheetReader, Sheet

    class Reader(AbstractSheetReader):
        def __init__(self, tables):
            self.name = "mem"
            self._sheets = {k: Sheet(reader=self, name=k, table=t) for k, t in tables.items()}

    rng = random.Random(seed)
    res = {"n": 0, "viol": [], "strata": {}, "keys": []}

    def cnt(k, d=1):
        res["strata"][k] = res["strata"].get(k, 0) + d

    for _ in range(n):
        fs = [["ID", "str", {"s": ""}]] + [f for f in gen_fields(rng, rng.randint(0, maxdepth), rng.randint(1, 4)) if f[0] != "ID"]
        hdrs = render(fs)
        if rng.random() < 0.5:
            hdrs = interleave(hdrs, rng) or hdrs     # columns of one field need not be adjacent
            if not is_contiguous([h for h, _ in hdrs]):
                res["strata"]["ci.non_contiguous_columns"] = res["strata"].get("ci.non_contiguous_columns", 0) + 1
        headers = [h for h, _ in hdrs]
        explicit = build_explicit(fs)
        walks, dicts = [], []
        rowsets = []
        for variant in range(2):
            rows = []
            for i, (_k, row) in enumerate(gen_rows(rng, hdrs, 3)[:2] if variant == 0 else [("conforming", {h: gen_cell(rng, lt, 0.0) for h, lt in hdrs}) for _ in range(3)]):
                row = {h: row.get(h, "") for h in headers}
                row["ID"] = f"r{i}"
                rows.append(row)
            rowsets.append(rows)
            ci = tablib.Dataset(headers=["type", "sheet_name", "data_sheet", "data_row_id", "new_name", "data_model", "status"])
            ci.append(["data_sheet", "mydata", "", "", "", "", ""])
            data = tablib.Dataset(headers=headers)
            for row in rows:
                data.append([row[h] for h in headers])
            try:
                p = ContentIndexParser(Reader({"content_index": ci, "mydata": data}))
                ds = p.data_sheets["mydata"]
                walks.append(walk_model(ds.row_model))
                dicts.append(["ok", [canon(r.dict()) for r in ds.rows.values()]])
            except Exception as e:  # noqa: BLE001
                walks.append(None)
                dicts.append(["exc", type(e).__name__])
        res["n"] += 1
        res["keys"].append(json.dumps(headers, ensure_ascii=False))
        real, _m = real_infer(headers)
        exp_walk = real["ok"]["model"] if "ok" in real and isinstance(real["ok"], dict) and "model" in real["ok"] else None
        for variant in range(2):
            # expected outcome: every row under the explicit twin
            exp = []
            bad = False
            for row in rowsets[variant]:
                o = parse_outcome(explicit, row)
                if o[0] != "ok":
                    bad = True
                    break
                exp.append(o[1])
            if bad:
                res["strata"]["ci.rows_rejected_by_explicit"] = res["strata"].get("ci.rows_rejected_by_explicit", 0) + 1
                if dicts[variant][0] == "ok":
                    res["viol"].append({"what": "data sheet accepted under the inferred model but rejected by the explicit model", "headers": headers, "rows": rowsets[variant]})
                continue
            if dicts[variant] != ["ok", exp]:
                res["viol"].append({"what": "data sheet without data_model: rows differ from the explicit model's", "headers": headers, "rows": rowsets[variant], "inferred": dicts[variant], "explicit": exp})
            elif walks[variant] != exp_walk:
                res["viol"].append({"what": "data sheet without data_model: structure differs from model_from_headers(headers)", "headers": headers, "rows": rowsets[variant], "got": walks[variant], "expected": exp_walk})
        if walks[0] is not None and walks[1] is not None and walks[0] != walks[1]:
            res["viol"].append({"what": "inferred structure depends on cell contents (same headers, different cells)", "headers": headers, "rows_a": rowsets[0], "rows_b": rowsets[1], "fields_a": walks[0], "fields_b": walks[1]})
        if rng.random() < MULTI_P:
            multi_file_check(rng, fs, maxdepth, res, cnt)
    # differing rows (the property's own observable) before differing structure, small before large
    res["viol"] = sorted(res["viol"], key=lambda v: (0 if "explicit" in v else 1, len(json.dumps(v, default=str))))[:10]
    return res


# ------------------------------------------------------------------ several input files holding the sheet
# `rpft … base override`: every input file is a reader of a CompositeSheetReader; a sheet present in
# several files is read from the LAST file that has it (ContentIndexParser._get_sheet_or_die takes
# candidates[-1] of CompositeSheetReader.get_sheets_by_name, which lists the readers in input order).
# The model of a data sheet without data_model must be the one denoted by the headers of THAT copy.

COPY_KINDS = ["untyped", "retyped", "renamed", "reshaped", "independent"]


def _untype_td(T, V):
    """same columns, annotations dropped: every leaf a plain text column without default"""
    if isinstance(T, dict) and "model" in T:
        fs = [[n, *_untype_td(t, v)] for n, t, v in T["model"]]
        return {"model": fs}, default_record(fs)
    if isinstance(T, dict) and V["l"]:
        pairs = [_untype_td(T["list"], d) for d in V["l"]]
        if len({json.dumps(p[0], sort_keys=True) for p in pairs}) > 1:
            return T, V      # list of lists with empty and non-empty entries: left as it is
        return {"list": pairs[0][0]}, {"l": [p[1] for p in pairs]}
    return "str", {"s": ""}


def _retype_td(rng, T, V):
    """same columns, other leaf types / defaults"""
    if isinstance(T, dict) and "model" in T:
        fs = [[n, *_retype_td(rng, t, v)] for n, t, v in T["model"]]
        return {"model": fs}, default_record(fs)
    if isinstance(T, dict) and V["l"]:
        t = T["list"]
        if isinstance(t, dict):
            pairs = [_retype_td(rng, t, d) for d in V["l"]]
            if len({json.dumps(p[0], sort_keys=True) for p in pairs}) == 1:
                return {"list": pairs[0][0]}, {"l": [p[1] for p in pairs]}
            return T, V
        t2 = rng.choice(BASIC)
        return {"list": t2}, {"l": [gen_basic_default(rng, t2) for _ in V["l"]]}
    if rng.random() < 0.25:
        return T, V
    t2 = rng.choice(BASIC + ["list", {"list": rng.choice(BASIC)}])
    return t2, (gen_basic_default(rng, t2) if isinstance(t2, str) and t2 != "list" else {"l": []})


def copy_of_sheet(rng, fs, maxdepth, kind):
    """another version of the sheet `fs` (an older / overriding copy kept in another file); ID first."""
    body = [f for f in fs if f[0] != "ID"]
    if kind == "untyped":
        out = [[n, *_untype_td(T, V)] for n, T, V in body]
    elif kind == "retyped":
        out = [[n, *_retype_td(rng, T, V)] for n, T, V in body]
    elif kind == "renamed":
        free = [x for x in NAMES if x not in {f[0] for f in body} and x != "ID"]
        out = [list(f) for f in body]
        for i in rng.sample(range(len(out)), rng.randint(1, len(out))):
            out[i][0] = free.pop(rng.randrange(len(free)))
        if rng.random() < 0.5:
            out.append([free.pop(rng.randrange(len(free))), *gen_td(rng, 0)])
    elif kind == "reshaped":
        # a column becomes a nested field (f -> f.1, f.2 / f.a, f.b) or a nested field one column
        out = [list(f) for f in body]
        i = rng.randrange(len(out))
        n, T, V = out[i]
        if is_simple(T, V):
            t = T if T in BASIC else "str"
            if rng.random() < 0.5:
                out[i] = [n, {"list": t}, {"l": [gen_basic_default(rng, t) for _ in range(rng.randint(1, 3))]}]
            else:
                sub = [[nm, t, gen_basic_default(rng, t)] for nm in rng.sample(["a", "b", "value", "x1"], rng.randint(1, 2))]
                out[i] = [n, {"model": sub}, default_record(sub)]
        else:
            t = rng.choice(BASIC)
            out[i] = [n, t, gen_basic_default(rng, t)]
    else:
        out = [f for f in gen_fields(rng, rng.randint(0, maxdepth), rng.randint(1, 4)) if f[0] != "ID"]
    return [["ID", "str", {"s": ""}]] + out


def sheet_copy(rng, fs, tag):
    """one copy of the data sheet: headers (possibly non-contiguous), rows with distinct IDs"""
    hdrs = render(fs)
    if rng.random() < 0.3:
        hdrs = interleave(hdrs, rng) or hdrs
    headers = [h for h, _ in hdrs]
    rows = []
    for i, (_k, row) in enumerate(gen_rows(rng, hdrs, 3)[: rng.randint(1, 2)] + [("conforming", {h: gen_cell(rng, lt, 0.0) for h, lt in hdrs})]):
        row = {h: row.get(h, "") for h in headers}
        row["ID"] = f"{tag}{i}"
        rows.append(row)
    return {"schema": fs, "headers": headers, "rows": rows}


CI_HEADERS = ["type", "sheet_name", "data_sheet", "data_row_id", "new_name", "data_model", "status"]


def load_files(files):
    """files = [{"reader": name, "sheets": {sheet: {"headers": […], "rows": [[…]…]}}}] -> ContentIndexParser
    over a CompositeSheetReader of in-memory readers, in this order (as `rpft … file1 file2 …` builds it)."""
    import tablib
    from rpft.parsers.creation.contentindexparser import ContentIndexParser
    from rpft.parsers.sheets import AbstractSheetReader, CompositeSheetReader, Sheet

    class Reader(AbstractSheetReader):
        def __init__(self, name, tables):
            self.name = name
            self._sheets = {k: Sheet(reader=self, name=k, table=t) for k, t in tables.items()}

    comp = CompositeSheetReader()
    for f in files:
        tables = {}
        for sname, sh in f["sheets"].items():
            t = tablib.Dataset(headers=list(sh["headers"]))
            for r in sh["rows"]:
                t.append(list(r))
            tables[sname] = t
        comp.add_reader(Reader(f["reader"], tables))
    from ..flows import LogCapture

    with LogCapture() as logs:        # "Duplicate sheets found" warnings are expected here
        p = ContentIndexParser(comp)
    if logs.criticals():
        raise RuntimeError("CRITICAL logged: " + logs.criticals()[0][:200])
    return p


def multi_file_cases(rng, fs, maxdepth, cnt):
    """the sheet `mydata` held by two or three input files with different header rows; every case is
    (files, active copy) in one order of the files and in the reverse order."""
    kinds = [rng.choice(COPY_KINDS)]
    if rng.random() < 0.25:
        kinds.append(rng.choice(COPY_KINDS))
    copies = [sheet_copy(rng, fs, "r")]
    for j, kind in enumerate(kinds):
        c = sheet_copy(rng, copy_of_sheet(rng, fs, maxdepth, kind), "qs"[j])
        c["kind"] = kind
        copies.append(c)
    if len({json.dumps(c["headers"], ensure_ascii=False) for c in copies}) < len(copies):
        cnt("multi.skipped_same_headers")     # e.g. the untyped copy of an untyped sheet
        return []
    for kind in kinds:
        cnt("multi.copy_" + kind)
    cnt(f"multi.files_with_the_sheet={len(copies)}")
    rng.shuffle(copies)
    where = rng.choice(["first", "last", "own_first", "own_last", "all"])   # which file(s) hold the content index
    cnt("multi.content_index_in_" + where)
    tail = rng.random() < 0.3          # a last file WITHOUT the sheet: the active copy is not in the last file
    if tail:
        cnt("multi.last_file_lacks_the_sheet")
    ci = {"headers": CI_HEADERS, "rows": [["data_sheet", "mydata", "", "", "", "", ""]]}
    other = {"headers": ["ID", "v:int"], "rows": [["z", "1"]]}
    cases = []
    for direction, order in (("given", copies), ("reversed", copies[::-1])):
        files = [{"reader": f"file{i + 1}", "sheets": {"mydata": {"headers": c["headers"], "rows": [[r[h] for h in c["headers"]] for r in c["rows"]]}}}
                 for i, c in enumerate(order)]
        if tail:
            files.append({"reader": f"file{len(files) + 1}", "sheets": {"unrelated": other}})
        if where == "own_first":
            files.insert(0, {"reader": "index", "sheets": {}})
        if where == "own_last":
            files.append({"reader": "index", "sheets": {}})
        holders = {"first": files[:1], "last": files[-1:], "own_first": files[:1], "own_last": files[-1:], "all": files}[where]
        for f in holders:
            f["sheets"] = dict(f["sheets"], content_index=ci)
        cases.append((direction, files, order[-1]))
    return cases


def multi_file_check(rng, fs, maxdepth, res, cnt):
    for direction, files, active in multi_file_cases(rng, fs, maxdepth, cnt):
        cnt("multi.cases")
        cnt("multi.order_" + direction)
        res["keys"].append(json.dumps([f["sheets"].get("mydata", {}).get("headers") for f in files], ensure_ascii=False))
        explicit = build_explicit(active["schema"])
        exp, bad = [], False
        for row in active["rows"]:
            o = parse_outcome(explicit, row)
            if o[0] != "ok":
                bad = True
                break
            exp.append(o[1])
        try:
            ds = load_files(files).data_sheets["mydata"]
            walk = walk_model(ds.row_model)
            got = ["ok", [canon(r.dict()) for r in ds.rows.values()]]
        except Exception as e:  # noqa: BLE001
            walk, got = None, ["exc", type(e).__name__, str(e)[:200]]
        detail = {"files": files, "active_file": next(f["reader"] for f in files[::-1] if "mydata" in f["sheets"]),
                  "schema": active["schema"], "headers": active["headers"]}
        if bad:
            cnt("multi.rows_rejected_by_explicit")
            if got[0] == "ok":
                res["viol"].append(dict(detail, what="several files hold the data sheet: accepted under the inferred model but rejected by the explicit model of the copy that is read"))
            continue
        real, _m = real_infer(active["headers"])
        exp_walk = real["ok"]["model"] if "ok" in real and isinstance(real["ok"], dict) and "model" in real["ok"] else None
        if got != ["ok", exp]:
            res["viol"].append(dict(detail, what="several files hold the data sheet: its rows differ from those of the explicit model denoted by the headers of the copy that is read (the last file that has the sheet)",
                                    inferred=got, explicit=exp))
        elif walk != exp_walk:
            # the sheet's own rows happen to agree; shown at the property's observable by a row of the
            # same sheet that leaves every column but ID out (defaults) under both models
            probe = {"ID": "probe"}
            res["viol"].append(dict(detail, what="several files hold the data sheet: the inferred structure is not the one denoted by the headers of the copy that is read",
                                    got=walk, expected=exp_walk, row=probe, row_inferred=parse_outcome(ds.row_model, probe), row_explicit=parse_outcome(explicit, probe)))
        else:
            cnt("multi.agree")


# ------------------------------------------------------------------ known finding F-C18-a


def known_stream(ck):
    """Deterministic: defaults containing '.' (the header is split at its first dot before
    the annotation is read).  Reported only if trigger, pattern and counterfactual all hold."""
    List, create_model, mi, rp, CP = _mods()

    def twin(kind, dflt):
        if kind == "float":
            return create_model("Row", __base__=rp.ParserModel, x=(float, float(dflt)))
        if kind == "str":
            return create_model("Row", __base__=rp.ParserModel, s=(str, dflt))
        Sub = create_model("Sub", __base__=rp.ParserModel, v=(float, float(dflt)))
        return create_model("Row", __base__=rp.ParserModel, r=(Sub, Sub()))

    cases = [("float", "x:float=", "1.5", "2.5"), ("str", "s=", "a.b", "hello"), ("sub", "r.v:float=", "0.5", "3")]
    for kind, stem, dflt, cell in cases:
        ck.count("known_stream.cases")
        ck.evaluations += 1
        header = stem + dflt

        def differs(d):
            h = stem + d
            real, inferred = real_infer([h])
            b = parse_outcome(twin(kind, d), {h: cell})
            a = parse_outcome(inferred, {h: cell}) if inferred is not None else ["exc", real.get("err")]
            return a != b, a, b, real

        bad, a, b, real = differs(dflt)
        if not bad:
            continue  # defect not present (fixed)
        # pattern: an inferred field is named by the header text cut at the first dot of the default
        cut_leaf = header[: header.index(".", header.index("="))].split(".")[-1]
        pattern = json.dumps(cut_leaf, ensure_ascii=False) in json.dumps(real, ensure_ascii=False) and a[:2] == ["exc", "ValueError"]
        # counterfactual (repair transform): the same default without its dot parses alike
        cf = not differs(dflt.replace(".", ""))[0]
        detail = {"headers": [header], "row": {header: cell}, "inferred": a, "explicit": b}
        if pattern and cf:
            ck.known("F-C18-a", "a default containing '.' is cut at the dot: the header is split at its first '.' before the annotation is read", detail)
        else:
            ck.violation("header with a dotted default parses differently under the inferred and the explicit model (not matching F-C18-a)", dict(detail, pattern=pattern, counterfactual=cf))


# ------------------------------------------------------------------ run


def fold(ck, results, kind):
    for r in results:
        ck.count(kind, r["n"])
        ck.evaluations += r["n"]
        ck.nontrivial.update(r.get("keys", []))
        for k, v in r.get("strata", {}).items():
            ck.count(k, v)
        for t in r.get("ties", []):
            ck.tie_break(t["what"], t)
        for v in r.get("viol", []):
            ck.violation(v["what"], v)
        for s in r.get("samples", []):
            if len(ck.samples) < 6:
                ck.samples.append(s)
        if r.get("infra"):
            raise core.Infra("generator/driver self-check failed: " + json.dumps(r["infra"][0], ensure_ascii=False)[:600])


CORPUS = [
    ["f"], ["f:int"], ["f:float"], ["f:bool"], ["f:list"], ["f:List[int]"], ["f=v"], ["f:int=5"], ["f.1", "f.2"], ["f.a", "f.b"],
    ["f.1.a", "f.1.b:int=5", "f.2.a", "f.2.b:int=5"], ["f.1.1", "f.1.2=a", "f.2.1=b", "f.2.2=c"], ["a.b.c.d:bool=True"],
    ["x:float=1.5"], ["s=a.b"], ["a.x", "b"], ["f.1:int", "f.2"], ["f.1", "f.3"], ["f.0"], ["copy"], ["_x"], ["f:bool="],
]


def run(ck: core.Check):
    ck.lean = core.lean_step("C18", thorough=(ck.tier == "thorough"))
    ck.rule = (
        "schemas drawn from the family (records, indexed lists with per-index defaults, lists of records, lists of lists, "
        "List[T]/list annotations, all basic types, defaults incl. dotted ones (a.b, 1.5), 12% of the indexed lists with 10-12 entries (two-digit indices), "
        "index columns out of order in the restyled spelling), nesting depth 0..3 (quick) / 0..4 (thorough), 70% in "
        "the order the code builds (simple fields first) and 30% in arbitrary order; each rendered canonically, in a restyled "
        "spelling and in a non-contiguous column order (random interleaving / column-major lists of records / split sub-records and lists, "
        "list entries still opened in increasing order); "
        "each rendered canonically and in a restyled "
        "spelling; rows: conforming / with blanks / with columns omitted; content-index stream: a data_sheet row with blank data_model over one in-memory reader, "
        "and for 40% of the cases also over a CompositeSheetReader of 2-4 input files of which two or three hold the sheet under different header rows "
        "(copy kinds: untyped = same columns without annotations, retyped = other leaf types/defaults, renamed columns, reshaped = a column turned into "
        "a nested field or back, independent schema), run in one order of the files and in the reverse order, content index in the first / last / an own / every file, "
        "30% with a last file that lacks the sheet; a case is non-trivial always (≥1 field); distinct = distinct header lists"
    )
    ck.assumptions = [
        "pydantic v1: create_model keeps field order, defaults are returned by .dict() when a field is absent (exercised by oracle C)",
        "CPython int()/str.split/str.strip as modelled in Rpft/Infer.lean (ASCII digits and sign; '_' / Unicode digits answered 'unsupported' and skipped)",
        "inferred_parses_like_explicit is stated over the RowParser model of C07/C09 through rowSchema (Lemmas/InferRow.lean), a Lean definition not tied "
        "to the real code; row.dict() equality on the real code is established by oracle C for generated rows",
    ]
    ck.partial_gap = [
        "infer_render (exact, canonical order, InFamily) and infer_order_insensitive (any permutation of the columns, fields in any order, InFamilyU, "
        "up to field order) are proved for ALL schemas of the family; they speak about the canonical spelling of each header - restyled spellings "
        "(blanks, explicit :str, explicit zero defaults, bool spellings) are covered by tie B2 and oracle C only",
        "rows under a non-canonical column order: that the inferred model parses them like the explicit one (up to field order) is not a Lean theorem "
        "(needs field-order invariance of the RowParser model); checked on the real code by oracle C on the interleaved orders",
        "fractional float defaults (x:float=1.5) and defaults containing '.' are outside InFamily/InFamilyU (conservative); covered by the tie / oracle C",
    ]
    if not core.DRIVER_BIN.exists():
        raise core.Infra("driver not built:\n" + ck.lean.log[-2000:])
    import rpft.parsers.common.model_inference  # noqa: F401

    quick = ck.tier == "quick"
    maxdepth = 3 if quick else 4
    n_schemas = 4000 if quick else 30000
    nrows = 3 if quick else 6
    n_noise = 6000 if quick else 60000
    n_ci = 480 if quick else 3000

    # corpus first: tie on fixed header lists (tests' own, quirks, past findings)
    drv = core.Driver()
    ans = drv.results([{"op": "infer.infer", "headers": hs} for hs in CORPUS])
    for hs, m in zip(CORPUS, ans):
        ck.case(json.dumps(hs))
        ck.count("corpus")
        real, _ = real_infer(hs)
        want = {"ok": m["ok"]["ty"]} if "ok" in m else ({"err": m.get("err")} if m.get("err") != "unsupported" else None)
        if want is not None and want != real:
            ck.tie_break("model infer differs from real model_from_headers (corpus)", {"headers": hs, "model": m, "real": real})

    def explore(ns, nn, nc, depth, rows, salt):
        base = ck.rng.randrange(1 << 30) ^ salt
        k = par.NPROC * 2
        fold(ck, par.pmap(schema_worker, [(base + i, ns // k + 1, depth, rows) for i in range(k)]), "family_schemas")
        fold(ck, par.pmap(noise_worker, [(base + 1000 + i, nn // k + 1) for i in range(k)]), "malformed_header_lists")
        fold(ck, par.pmap(ci_worker, [(base + 2000 + i, nc // k + 1, min(depth, 2)) for i in range(k)]), "content_index_fallback")

    explore(n_schemas, n_noise, n_ci, maxdepth, nrows, 0)
    known_stream(ck)

    # self-check of the distribution
    need = ["schema.has_list_of_records", "schema.has_record", f"schema.depth={maxdepth}", "rows.omitted", "rows.blanks", "schema.InFamily",
            "schema.InFamilyU", "schema.InFamilyU_with_interleaved_order",
            "schema.has_indexed_list_of_10+", "schema.has_dotted_default", "order.non_contiguous",
            "multi.order_given", "multi.order_reversed", "multi.files_with_the_sheet=2", "multi.files_with_the_sheet=3",
            "multi.last_file_lacks_the_sheet"] + ["multi.copy_" + k for k in COPY_KINDS]
    missing = [s for s in need if not ck.strata.get(s)]
    if missing:
        raise core.Infra(f"generator self-check: strata never hit: {missing}")

    if (ck.tie_breaks or not ck.lean.ok) and not ck.violations and quick:
        # obligation broken: failing-input search, cheapest first (time-boxed by fixed sizes):
        # (1) the disagreeing shapes: the schema the MODEL reads from each disagreeing header list
        #     (= what the headers denote), where it is a family schema, through oracle C;
        # (2) a systematic sweep of indexed lists of 1..12 entries × element kinds × positions;
        # (3) a differently seeded random run of oracle C at thorough depth.
        ck.search_ran = True
        shapes = shapes_from_ties(ck.tie_breaks)
        ck.count("search.shapes_from_disagreements", len(shapes))
        k = par.NPROC
        fold(ck, par.pmap(schema_worker, [(7 + i, 0, 4, 6, sh) for i, sh in enumerate(core.shard(shapes, k)) if sh]), "search_disagreeing_shapes")
        if not ck.violations:
            sw = sweep_schemas()
            fold(ck, par.pmap(schema_worker, [(70 + i, 0, 4, 6, sh) for i, sh in enumerate(core.shard(sw, k)) if sh]), "search_sweep")
        if not ck.violations:
            base = ck.rng.randrange(1 << 30) ^ 0x5EA5C
            fold(ck, par.pmap(schema_worker, [(base + i, 3000 // (2 * k) + 1, 4, 4) for i in range(2 * k)]), "search_random")


def shapes_from_ties(ties):
    """family-shaped schemas read off the disagreeing header lists (model side and real side)."""
    out, seen = [], set()
    for t in ties:
        if not t:
            continue
        d = t.get("detail", {})
        for side in ("model", "real"):
            ok = (d.get(side) or {}).get("ok") if isinstance(d.get(side), dict) else None
            ty = ok.get("ty") if isinstance(ok, dict) and "ty" in ok else ok
            if isinstance(ty, dict) and isinstance(ty.get("model"), list):
                try:
                    fs = sort_simple_first(ty["model"])
                except Exception:  # noqa: BLE001  (holes / shapes outside the schema language)
                    continue
                key = json.dumps(fs, ensure_ascii=False)
                if key not in seen:
                    seen.add(key)
                    out.append(fs)
    return out


def sweep_schemas():
    """indexed lists of 1..12 entries × element kinds × positions (top level, in a record, in a list of records)."""
    out = []
    sub = [["a", "str", {"s": ""}], ["n", "int", {"i": 5}]]
    elems = [
        ("str", lambda i: {"s": "d%d" % i}),
        ("int", lambda i: {"i": i}),
        ("bool", lambda i: {"b": i % 2 == 0}),
        ({"model": sub}, lambda i: default_record(sub)),
        ({"list": "str"}, lambda i: {"l": [{"s": "x"}] * (1 + i % 2)}),
    ]
    for n in range(1, 13):
        for t, dv in elems:
            f = ["f", {"list": t}, {"l": [dv(i) for i in range(n)]}]
            out.append([f])
            out.append([["k", "str", {"s": ""}], ["r", {"model": [f]}, default_record([f])]])
            out.append([["o", {"list": {"model": [f]}}, {"l": [default_record([f]), default_record([f])]}]])
    return out


def replay(path):
    rec = json.load(open(path))
    print(json.dumps(rec, indent=1, ensure_ascii=False)[:6000])
    rp = rec.get("replay", {})
    if "files" in rp:
        # several input files holding the data sheet: read them again, in the recorded order
        explicit = build_explicit(rp["schema"])
        act = next(f for f in rp["files"][::-1] if f["reader"] == rp["active_file"])["sheets"]["mydata"]
        exp = [parse_outcome(explicit, dict(zip(act["headers"], r))) for r in act["rows"]]
        real, _m = real_infer(act["headers"])
        exp_walk = real["ok"]["model"] if "ok" in real and isinstance(real["ok"], dict) and "model" in real["ok"] else None
        walk = None
        try:
            ds = load_files(rp["files"]).data_sheets["mydata"]
            got = [["ok", canon(r.dict())] for r in ds.rows.values()]
            walk = walk_model(ds.row_model)
            if "row" in rp:
                print("probe row inferred:", parse_outcome(ds.row_model, rp["row"]))
                print("probe row explicit:", parse_outcome(explicit, rp["row"]))
        except Exception as e:  # noqa: BLE001
            got = ["exc", type(e).__name__, str(e)[:300]]
        print("active copy     :", rp["active_file"], json.dumps(act["headers"], ensure_ascii=False))
        print("inferred fields :", json.dumps(walk, ensure_ascii=False))
        print("denoted fields  :", json.dumps(exp_walk, ensure_ascii=False))
        print("inferred :", json.dumps(got, ensure_ascii=False))
        print("explicit :", json.dumps(exp, ensure_ascii=False))
        return 0 if got == exp and walk == exp_walk else 1
    if "headers" in rp:
        real, inferred = real_infer(rp["headers"])
        print("model_from_headers ->", json.dumps(real, ensure_ascii=False))
        if "schema" in rp and "row" in rp and inferred is not None:
            explicit = build_explicit(rp["schema"])
            print("inferred :", parse_outcome(inferred, rp["row"]))
            print("explicit :", parse_outcome(explicit, rp["row"]))
    return 0
