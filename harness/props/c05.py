"""C05 — loading and re-writing a RapidPro export is lossless.

A  proof step: Rpft.Props.C05 (render_load…, render_load_idem…, legacy_trigger, negative
   witnesses, tables_agree_actions) re-checked by the kernel against the action table
   regenerated from /repo.
B  tie: Lean model `doc.roundtrip` vs `RapidProContainer.from_dict(d).render()` on every
   generated document and on every fixture (exact JSON equality), codec self-test.
C  direct oracle on the real code: output ≈ input under the smallest relation (written
   independently in harness/gen/c05doc.py; `_ui.nodes` entries field for field incl. type and
   config.operand), second round trip EQUAL to the first, input
   object untouched (deep snapshot + identity of nested containers), output
   JSON-serialisable, legacy triggers carry both keyword forms.
"""
from __future__ import annotations

import copy
import glob
import json
import os
import random

from .. import core, par
from ..gen import c05doc as G

MANIFEST = dict(
    text="Proof: Lean theorems over a hand model (Rpft.Document) of from_dict/render of the whole export schema (flows, all node/router/action kinds incl. pass-through, _ui positions, groups, campaigns, triggers): render_load (load and render succeed and render(load d) ≈ d, ≈ defined as equality of explicit normal forms, for every valid document in re-join order), roundtrip_unordered (for ANY category/exit order the output is exactly shapeDoc(reorderDoc d)), render_load_idem (the second round trip EQUALS the first, without ordering hypotheses), legacy_trigger / legacy_trigger_doc (both keyword forms, no validity hypothesis), kernel-checked negative witnesses for the four hypotheses the code forces; tied to the code by exact comparison of the model's output with RapidProContainer.from_dict(d).render() on type-directed generated documents, a near-valid quirk stream, every fixture JSON and the Lean witnesses, and by tables regenerated from actions.py / routers.py / common.py on every run; the statement itself (≈ written independently in Python, second trip equal, input untouched incl. identity of nested containers, JSON-serialisable, both keyword forms) is evaluated on the real code for every case.",
    ref="§5 C05",
    note="Trusts: Lean kernel (axioms audited each run), differential harness, generator and Driver JSON codec (self-tested: decode∘encode = id on every generated document), CPython dict order/deepcopy. Pass-through JSON is opaque canonical text in the model; _ui: the model keeps the node positions of the input and derives type/config of every rendered entry from the node (Rpft.DocumentUi: render_ui of the six node classes, operand derivation character by character; tied on every case, instances kernel-checked in ui_operand_whole_path; not part of the ≈ of the Lean theorems); uuid invention and contact-field key derivation are outside the model (model declines, counted). Idempotence is proved on Valid ∧ CatsWired ∧ UntypedFields documents (C05_idem_full, the unconditional statement, is kept visible and is only tested). Open findings (F-C05-a, typed contact field rendering the builtin `type`, was fixed in /repo) F-C05-b (top-level group attributes dropped), F-C05-c (default category not last → reorder), F-C05-d (exits re-emitted in category order), F-C05-e (display name of a result / field in _ui config.operand replaced by its key) are exercised in deterministic streams; the main generator avoids their triggers.",
    technique="Lean 4 proof (explicit images of load, association-list invariants for the uuid dictionaries, reordering argument for the category re-join) + model/code differential run + direct oracle",
)

FINDING_TEXT = {
    "a": "a set_contact_field action whose field reference has a `type` renders the Python builtin `type` (output not JSON-serialisable, value lost)",
    "b": "attributes (query/status/system/count) of a top-level group are dropped: validate() rebuilds the group list from names and uuids",
    "c": "a switch router whose default category is not last (or not just before the no-response category) comes back with categories and exits reordered",
    "d": "the exits of a router node are re-emitted in category order (exit order of the input is not kept)",
    "e": "the display name of a run result / contact field in the editor data (_ui.nodes[…].config.operand.name, e.g. \"Result_wfr\" in the repo's own all_test_flows.json) is replaced by its key: render_ui derives the entry from the router operand and cannot know the name",
}


# F-C05-e: the display name the editor keeps next to the key of a result / contact field in `_ui` (config.operand.name)
# is replaced by the key.  The document is the node 95f465cd… of tests/output/all_test_flows.json on its own.
DISPLAY_NAME_DOC = json.loads('{"version": "13", "site": "https://rapidpro.idems.international", "flows": [{"name": "switch_nodes", "uuid": "6a0eecb9-4b9b-4e99-8a59-238e00d9837c", "spec_version": "13.1.0", "language": "base", "type": "messaging", "revision": 24, "expire_after_minutes": 10080, "metadata": {"revision": 21}, "localization": {}, "nodes": [{"uuid": "95f465cd-6794-4ff4-b926-e94afd341ebf", "actions": [], "router": {"type": "switch", "default_category_uuid": "2fa1acd7-713c-47ff-8970-45ef8a54233f", "categories": [{"uuid": "64115385-0378-42c0-a7df-7c64fe84d966", "name": "A", "exit_uuid": "60e44d1d-e3cd-4cff-bbf1-643d1b1fff49"}, {"uuid": "2fa1acd7-713c-47ff-8970-45ef8a54233f", "name": "Other", "exit_uuid": "19fd9aa7-6eff-45b1-9a4f-21f3399f08ad"}], "cases": [{"arguments": ["a"], "type": "has_any_word", "uuid": "aeb0407f-6a53-499c-b2e8-9cbe88db70c4", "category_uuid": "64115385-0378-42c0-a7df-7c64fe84d966"}], "operand": "@results.result_wfr"}, "exits": [{"uuid": "60e44d1d-e3cd-4cff-bbf1-643d1b1fff49", "destination_uuid": null}, {"uuid": "19fd9aa7-6eff-45b1-9a4f-21f3399f08ad", "destination_uuid": null}]}], "_ui": {"nodes": {"95f465cd-6794-4ff4-b926-e94afd341ebf": {"type": "split_by_run_result", "position": {"left": 400, "top": 620}, "config": {"operand": {"id": "result_wfr", "type": "result", "name": "Result_wfr"}, "cases": {}}}}}}], "campaigns": [], "triggers": [], "fields": [], "groups": []}')


def display_name_stream(ck):
    """deterministic: (1) the fixture's entry (`name` = "Result_wfr", key result_wfr), (2) the same with a free display
    name, (3) counterfactual: `name` equal to the key.  Attribution: the ONLY difference between input and output is
    config.operand.name, which comes out as the key; anything else is a violation."""
    seen = []
    for name in ("Result_wfr", "Quiz answer (first try)", "result_wfr"):
        d = copy.deepcopy(DISPLAY_NAME_DOC)
        ent = list(d["flows"][0]["_ui"]["nodes"].values())[0]
        ent["config"]["operand"]["name"] = name
        out, err = real_roundtrip(copy.deepcopy(d))
        ck.evaluations += 1
        if out is None:
            ck.violation("a valid export with a display name in _ui config.operand cannot be loaded / rendered", {"input": d, "error": err})
            return
        try:
            got = list(out["flows"][0]["_ui"]["nodes"].values())[0]
        except Exception:  # noqa: BLE001
            got = None
        fixed = copy.deepcopy(d)
        list(fixed["flows"][0]["_ui"]["nodes"].values())[0]["config"]["operand"]["name"] = "result_wfr"
        if G.strict_eq(got, ent):
            seen.append((name, "kept"))
        elif name != "result_wfr" and G.strict_eq(got, list(fixed["flows"][0]["_ui"]["nodes"].values())[0]) and not G.approx_diff(fixed, out):
            seen.append((name, "replaced by the key"))
        else:
            ck.violation("the _ui entry of a split on a run result comes back changed, and not in the way finding F-C05-e describes "
                         "(display name replaced by the key, nothing else)", {"input_entry": ent, "output_entry": got})
            return
    ck.count("known_F-C05-e_stream", len(seen))
    if any(o == "replaced by the key" for _, o in seen):
        if ("result_wfr", "kept") not in seen:
            ck.violation("F-C05-e counterfactual failed: an entry whose display name equals its key does not come back unchanged", {"seen": seen})
        else:
            ck.known("F-C05-e", FINDING_TEXT["e"], {"seen": seen})
    else:
        ck.notes.append("F-C05-e no longer reproduces (display names in _ui config.operand are kept)")


# ----------------------------------------------------------------------------- real code


def _rp():
    from rpft.rapidpro.models.containers import RapidProContainer

    return RapidProContainer


def _ids(o, path="", out=None):
    """identity of every nested container of the caller's object"""
    out = {} if out is None else out
    if isinstance(o, dict):
        out[path] = id(o)
        for k, v in o.items():
            _ids(v, f"{path}/{k}", out)
    elif isinstance(o, list):
        out[path] = id(o)
        for i, v in enumerate(o):
            _ids(v, f"{path}/{i}", out)
    return out


def real_roundtrip(d):
    """(output | None, error | None) of the real code, with log capture irrelevant here:
    from_dict/render do not log errors, they raise."""
    RP = _rp()
    try:
        return RP.from_dict(d).render(), None
    except Exception as e:  # noqa: BLE001
        return None, f"{type(e).__name__}: {e}"


def oracle(d):
    """The property's own statement on the real code.  Returns (failures, out1) where each
    failure = {what, paths?}."""
    RP = _rp()
    fails = []
    snap = copy.deepcopy(d)
    ids = _ids(d)
    try:
        c = RP.from_dict(d)
    except Exception as e:  # noqa: BLE001
        return [{"what": "valid export rejected by from_dict", "error": f"{type(e).__name__}: {e}"}], None
    if not G.strict_eq(d, snap) or _ids(d) != ids:
        fails.append({"what": "from_dict modified the caller's input object", "paths": [p for p, *_ in G.diff_paths(snap, d)][:5]})
    try:
        out1 = c.render()
    except Exception as e:  # noqa: BLE001
        return fails + [{"what": "valid export cannot be rendered", "error": f"{type(e).__name__}: {e}"}], None
    if not G.strict_eq(d, snap) or _ids(d) != ids:
        fails.append({"what": "render modified the caller's input object", "paths": [p for p, *_ in G.diff_paths(snap, d)][:5]})
    try:
        text = json.dumps(out1)
        out1_snap = json.loads(text)
    except (TypeError, ValueError) as e:
        fails.append({"what": "rendered document is not JSON-serialisable", "error": str(e)[:200], "paths": _unserialisable(out1)})
        out1_snap = None
    # ≈
    try:
        dp = G.approx_diff(snap, out1)
    except Exception as e:  # noqa: BLE001  (output does not even have the schema's shape)
        dp = [("", "shape", None, f"{type(e).__name__}: {e}")]
    if dp:
        fails.append({
            "what": "rendered document differs from the input (beyond omitted empty optional keys)",
            "paths": [p for p, *_ in dp],
            "first": {"path": dp[0][0], "kind": dp[0][1], "input": _short(dp[0][2]), "output": _short(dp[0][3])},
        })
    # both keyword forms
    for i, (ti, to) in enumerate(zip(snap.get("triggers", []), out1.get("triggers", []))):
        if "keyword" not in to or "keywords" not in to:
            fails.append({"what": "rendered trigger does not carry both keyword forms", "paths": [f"/triggers/{i}"]})
        elif "keywords" not in ti:
            kw = ti.get("keyword")
            if not G.strict_eq(to["keyword"], kw) or not G.strict_eq(to["keywords"], [] if kw is None else [kw]):
                fails.append({"what": "legacy single-keyword trigger does not come out with both forms of its keyword", "paths": [f"/triggers/{i}/keyword"]})
    # repeated round trips are equal
    if out1_snap is not None:
        try:
            again = c.render()
            if not G.strict_eq(again, out1_snap):
                fails.append({"what": "rendering the same container twice gives different documents", "paths": [p for p, *_ in G.diff_paths(out1_snap, again)][:5]})
            out2 = RP.from_dict(out1).render()
            if not G.strict_eq(out1, out1_snap):
                fails.append({"what": "loading the rendered document modified it", "paths": [p for p, *_ in G.diff_paths(out1_snap, out1)][:5]})
            if not G.strict_eq(out2, out1_snap):
                fails.append({"what": "second round trip differs from the first", "paths": [p for p, *_ in G.diff_paths(out1_snap, out2)][:5]})
        except Exception as e:  # noqa: BLE001
            fails.append({"what": "second round trip raises", "error": f"{type(e).__name__}: {e}"})
    return fails, out1


def _short(v):
    s = repr(v)
    return s if len(s) < 200 else s[:200] + "…"


def _unserialisable(o, p=""):
    out = []
    if isinstance(o, dict):
        for k, v in o.items():
            out += _unserialisable(v, f"{p}/{k}")
    elif isinstance(o, (list, tuple)):
        for i, v in enumerate(o):
            out += _unserialisable(v, f"{p}/{i}")
    elif not (o is None or isinstance(o, (str, int, float, bool))):
        out.append(p)
    return out


def classify(d, fails, open_ids):
    """Known finding or new violation?  A failure set is attributed to findings only if
    (1) their triggers hold on the input, (2) every differing path fits their patterns and
    every non-diff failure is the one the finding predicts, (3) the repaired input passes
    the whole oracle (counterfactual).  Returns (set of finding letters | None)."""
    trig = {k: f(d) for k, f in G.TRIGGERS.items()}
    active = {k for k, v in trig.items() if v and k in open_ids}
    if not active:
        return None
    for f in fails:
        w = f["what"]
        if w.startswith("rendered document differs"):
            for p in f["paths"]:
                if not any(G.pattern_ok(k, trig[k], p) for k in active):
                    return None
        elif w == "rendered document is not JSON-serialisable":
            if "a" not in active or any(p not in trig["a"] for p in f.get("paths", [])):
                return None
        else:
            return None
    fixed = G.repair(d, active)
    f2, _ = oracle(fixed)
    if f2:
        return None
    # which of the active findings actually showed
    seen = set()
    for f in fails:
        if f["what"] == "rendered document is not JSON-serialisable":
            seen.add("a")
        for p in f.get("paths", []):
            for k in active:
                if G.pattern_ok(k, trig[k], p):
                    seen.add(k)
    return seen or None


def shrink(d, what, open_ids, budget=300):
    """greedy delta-debugging on list elements (flows, nodes, actions, cases, campaigns, events,
    triggers): keep a removal when the oracle still fails with the same `what` and the failure
    is still not a known finding.  Every candidate stays inside the schema (a removal that
    makes the document invalid changes `what` and is rejected)."""
    def sig(fails):
        """what + the field that differs (path without indices / uuids): a candidate must fail the same way"""
        p = (fails[0].get("paths") or [""])[0].split("/")
        return fails[0]["what"], tuple(c for c in p if not c.isdigit() and not (len(c) == 36 and c.count("-") == 4))

    f0, _ = oracle(copy.deepcopy(d))
    want = sig(f0) if f0 and f0[0]["what"] == what else None

    def still_fails(x):
        fails, _ = oracle(copy.deepcopy(x))
        return bool(fails) and fails[0]["what"] == what and (want is None or sig(fails) == want) and not classify(x, fails, open_ids)

    def lists(x):
        yield x, "triggers"
        yield x, "campaigns"
        for c in x.get("campaigns", []):
            yield c, "events"
        yield x, "flows"
        for f in x.get("flows", []):
            yield f, "nodes"
            for n in f.get("nodes", []):
                if "router" not in n:
                    yield n, "actions"
                elif n["router"].get("type") == "switch":
                    yield n["router"], "cases"

    cur = copy.deepcopy(d)
    progress = True
    while progress and budget > 0:
        progress = False
        for holder, key in list(lists(cur)):
            i = 0
            while i < len(holder.get(key, [])) and budget > 0:
                saved = holder[key]
                holder[key] = saved[:i] + saved[i + 1:]
                # a node goes together with its `_ui` entry (the candidate stays inside the schema)
                ui_nodes = holder.get("_ui", {}).get("nodes") if key == "nodes" and isinstance(holder.get("_ui"), dict) else None
                gone = saved[i].get("uuid") if isinstance(saved[i], dict) else None
                ui_saved = dict(ui_nodes) if isinstance(ui_nodes, dict) and gone in ui_nodes else None
                if ui_saved is not None:
                    del ui_nodes[gone]
                budget -= 1
                if still_fails(cur):
                    progress = True
                else:
                    holder[key] = saved
                    if ui_saved is not None:
                        ui_nodes.clear()
                        ui_nodes.update(ui_saved)
                    i += 1
    return cur


# ----------------------------------------------------------------------------- corpus (fixtures)


def _wrap_flow(nodes, ui=None):
    f = {
        "uuid": "f0000000-0000-4000-8000-000000000001", "name": "corpus flow", "language": "eng", "type": "messaging",
        "nodes": nodes, "spec_version": "13.1.0", "revision": 1, "expire_after_minutes": 10080, "metadata": {}, "localization": {},
    }
    if ui is not None:
        f["_ui"] = ui
    return f


def _collect_groups(d):
    """top-level group list completed with every group the document refers to (the schema
    requires referenced groups to be listed)"""
    seen = {g["name"]: g for g in d["groups"]}

    def add(g):
        if isinstance(g, dict) and "name" in g and g["name"] not in seen:
            seen[g["name"]] = {"name": g["name"], "uuid": g.get("uuid")}

    for f in d["flows"]:
        for n in f["nodes"]:
            for a in n.get("actions", []):
                if a.get("type") in ("add_contact_groups", "remove_contact_groups"):
                    for g in a.get("groups", []):
                        add(g)
            for c in n.get("router", {}).get("cases", []):
                if c.get("type") == "has_group" and len(c.get("arguments", [])) == 2:
                    add({"name": c["arguments"][1], "uuid": c["arguments"][0]})
    for c in d["campaigns"]:
        add(c.get("group"))
    d["groups"] = list(seen.values())
    return d


def _doc(flows=(), campaigns=(), groups=()):
    return _collect_groups({
        "campaigns": list(campaigns), "fields": [], "flows": list(flows), "groups": list(groups),
        "site": "https://rapidpro.idems.international", "triggers": [], "version": "13",
    })


def corpus():
    """every JSON file under tests/data and tests/output, embedded into a full export"""
    root = core.REPO / "tests"
    out = []
    exits = json.load(open(root / "data/routers/exits.json"))
    for path in sorted(glob.glob(str(root / "data/**/*.json"), recursive=True)) + sorted(glob.glob(str(root / "output/*.json"))):
        rel = os.path.relpath(path, root)
        try:
            j = json.load(open(path))
        except Exception:  # noqa: BLE001
            continue
        kind = rel.split("/")[1] if rel.startswith("data/") else "output"
        base = os.path.basename(rel)
        nid = "a0000000-0000-4000-8000-00000000000a"
        ex1 = [{"uuid": "e0000000-0000-4000-8000-00000000000e", "destination_uuid": None}]
        if kind == "actions":
            d = _doc([_wrap_flow([{"uuid": nid, "actions": [j], "exits": ex1}])])
        elif kind == "exits" and isinstance(j, dict):
            d = _doc([_wrap_flow([{"uuid": nid, "actions": [], "exits": [j]}])])
        elif kind == "groups":
            d = _doc(groups=[j])
        elif kind == "routers" and base.startswith("router_"):
            used = [c["exit_uuid"] for c in j["categories"]]
            d = _doc([_wrap_flow([{"uuid": nid, "actions": [], "exits": [e for u in used for e in exits if e["uuid"] == u], "router": j}])])
        elif kind == "nodes" and base.startswith("node_"):
            d = _doc([_wrap_flow([j])])
        elif kind == "containers" and base.startswith("flow_container"):
            d = _doc([j])
        elif kind == "containers" or kind == "output":
            d = j
        elif kind == "campaigns" and base.startswith("event_"):
            g = {"name": "corpus group", "uuid": "90000000-0000-4000-8000-000000000009"}
            d = _doc(campaigns=[{"uuid": "c0000000-0000-4000-8000-00000000000c", "name": "corpus", "group": g, "events": [j]}], groups=[g])
        elif kind == "campaigns":
            d = _doc(campaigns=[j])
        else:
            continue  # fragments that are not documents (case.json, category.json, exits.json, ui.json)
        if isinstance(d, dict) and "flows" in d:
            out.append((rel, d))
    return out


QUIRK_OPERANDS = [
    # the two re.sub calls remove EVERY match and their `.` is any character but a newline
    "@contact.x@contact.y", "@fields.a@fieldsXb", "@contact.@fields.name", "@contact.a@contact\nb", "@fields.\nx", "@results.a@results.b",
    "@results.a@resultsXb", "@results.@contact.name", "@contact.@results.x", "@contact.", "@fields.", "@results.", "@contact..", "@fields..a",
    "@contactXname", "@CONTACT.name", "@Contact.name", "@fields.name", "@fields.language.x", "@contact.Name", "@contact.groups ", " @contact.name",
    "@contact.channel", "@contact.language", "@contact.name", "@contact.é日", "@results.é日.\U0001F600", "@fields.a b.c d", "@results.a\"b.c\\d",
    # the urn-path pattern: re.match (a prefix), [a-z]+, \s+ (any Unicode white space)
    '@(default(urn_parts(urns.tel).path,  ""))', '@(default(urn_parts(urns.tel).path,\t""))', '@(default(urn_parts(urns.tel).path,\u00a0\n""))',
    '@(default(urn_parts(urns.tel).path,\u2003""))', '@(default(urn_parts(urns.tel).path,\u200b""))', '@(default(urn_parts(urns.tel).path,""))',
    '@(default(urn_parts(urns.tel).path, ""))xyz', '@(default(urn_parts(urns.Tel).path, ""))', '@(default(urn_parts(urns.).path, ""))',
    '@(default(urn_parts(urns.tel2).path, ""))', '@(default(urn_parts(urns.ext).path, ""))', ' @(default(urn_parts(urns.tel).path, ""))',
    '@(default(urn_parts(urns.tel).path, "")', '@(default(urn_parts(urns.zzzzzz).path, "")) @contact.name',
    "@(urn_parts(contact.urn).scheme)", "@(urn_parts(contact.urn).scheme) ", "@contact.groups", "@contact.groups.x", "", "@", "@.", "x",
]


def operand_corpus(open_ids):
    """tie only: one positioned switch node per operand shape and wait setting — the shapes that drive
    every branch of the model of render_ui (Rpft.DocumentUi) incl. the ones the property's generator
    keeps away from (a path holding a further '@contact.' / '@fields.' / '@results.', an empty path,
    the urn-path pattern matched as a prefix / with other white space)"""
    out = []
    for i, op in enumerate(QUIRK_OPERANDS):
        for wait in (None, {"type": "msg"}):
            nid = "a0000000-0000-4000-8000-%012x" % i
            rt = {"type": "switch", "operand": op, "cases": [], "default_category_uuid": "c0000000-0000-4000-8000-00000000000c",
                  "categories": [{"uuid": "c0000000-0000-4000-8000-00000000000c", "name": "Other", "exit_uuid": "e0000000-0000-4000-8000-00000000000e"}]}
            if wait:
                rt["wait"] = wait
            node = {"uuid": nid, "actions": [], "router": rt, "exits": [{"uuid": "e0000000-0000-4000-8000-00000000000e", "destination_uuid": None}]}
            d = _doc([_wrap_flow([node], ui={"nodes": {nid: {"position": {"left": i, "top": 0}, "type": "split_by_expression", "config": {"cases": {}}}}})])
            out.append((f"quirk:operand_corpus:{i}:{'wait' if wait else 'nowait'}", d, open_ids))
    return out


# ----------------------------------------------------------------------------- workers


def case_worker(items):
    """items: list of (label, doc, open_ids).  Runs C (oracle) and B (tie) for each."""
    open_ids = items[0][2] if items else set()
    res = {"n": 0, "viol": [], "nviol": 0, "known": {}, "ties": [], "nties": 0, "codec_bad": [], "model_err": {}, "model_declined": 0, "real_err": 0, "dom": {}, "outside": [], "ui_full": 0, "ui_pos_only": 0}
    try:
        drv = core.Driver() if core.DRIVER_BIN.exists() else None
    except core.Infra:
        drv = None
    model = codec = None
    if drv is not None and os.environ.get("C05_NO_MODEL") != "1":
        n_it = len(items)
        ans = drv.results([{"op": "doc.roundtrip", "d": d} for _, d, _ in items] + [{"op": "doc.codec", "d": d} for _, d, _ in items]
                          + [{"op": "doc.hyps", "d": d} for _, d, _ in items])
        model, codec, hyps = ans[:n_it], ans[n_it: 2 * n_it], ans[2 * n_it:]
    for i, (label, d, _) in enumerate(items):
        res["n"] += 1
        tie_only = label.startswith("quirk:")
        pristine = copy.deepcopy(d)  # the replay must carry the input as it was BEFORE the code ran
        if not tie_only:
            full, other = G.editor_entries(d)
            res["ui_full"] += len(full)
            res["ui_pos_only"] += other
        fails, out1 = ([], None) if tie_only else oracle(d)
        if tie_only:
            out1, _e = real_roundtrip(d)
            res["quirk_real_ok" if out1 is not None else "quirk_real_raises"] = res.get("quirk_real_ok" if out1 is not None else "quirk_real_raises", 0) + 1
        if fails:
            seen = classify(d, fails, open_ids)
            if seen:
                for k in seen:
                    res["known"].setdefault(k, {"label": label, "doc": d if len(json.dumps(d)) < 3000 else None, "fail": fails[0]["what"]})
            else:
                res["nviol"] += 1
                if len(res["viol"]) < 5:
                    res["viol"].append({"what": fails[0]["what"], "label": label, "failures": fails[:4], "input": pristine})
        if model is None:
            continue
        # the hypotheses of the Lean theorems on this document (driver: validB_iff ties `valid` to Valid)
        hy = hyps[i]
        if isinstance(hy, dict) and "valid" in hy:
            inside = hy["valid"] and hy["ordered"] and hy["exitsByCats"] and hy["untyped"] and hy["plain"]
            res["dom"]["render_load domain" if inside else "outside render_load domain"] = res["dom"].get("render_load domain" if inside else "outside render_load domain", 0) + 1
            if hy["valid"] and hy["wired"] and hy["untyped"]:
                res["dom"]["render_load_idem domain"] = res["dom"].get("render_load_idem domain", 0) + 1
            if inside and not hy["lossless"]:
                res["nties"] += 1
                res["ties"].append({"label": label, "what": "model contradicts render_load on a document inside its hypotheses", "hyps": hy})
            if label.startswith("seed="):
                need = ["valid", "wired"] + [k for k, f in (("untyped", "a"), ("plain", "b"), ("ordered", "c"), ("exitsByCats", "d")) if f in open_ids]
                bad = [k for k in need if not hy[k]]
                if bad:
                    res["outside"].append({"label": label, "fails": bad, "doc": pristine if len(json.dumps(pristine)) < 3000 else None})
        # B: codec self-test and model vs real output
        cz = codec[i]
        if isinstance(cz, dict) and "__error__" in cz or isinstance(cz, dict) and "unsupported" in cz:
            res["model_declined"] += 1
            k = (cz.get("unsupported") or cz.get("__error__") or "?")[:60]
            res["model_err"][k] = res["model_err"].get(k, 0) + 1
            continue
        d = pristine
        if not G.strict_eq(cz.get("ok"), ui_reduce(d)):
            if len(res["codec_bad"]) < 3:
                res["codec_bad"].append({"label": label, "paths": [p for p, *_ in G.diff_paths(ui_reduce(d), cz.get("ok"))][:5], "input": d if len(json.dumps(d)) < 3000 else None})
            continue
        m = model[i]
        real_out, real_err = (out1, None) if out1 is not None else real_roundtrip(d)
        if real_out is None:
            res["real_err"] += 1
        # (the model's round trip carries the `_ui` entries in full: position from the input,
        #  type / config from Rpft.Document.nodeUi — compared with the real output as it is)
        agree = False
        if isinstance(m, dict) and "ok" in m and real_out is not None:
            try:
                json.dumps(real_out)
                agree = G.strict_eq(m["ok"], real_out)
            except TypeError:
                agree = False  # the real output is not JSON (F-C05-a); the model cannot say that
                if classify(d, [{"what": "rendered document is not JSON-serialisable", "paths": G.trig_a(d)}], open_ids):
                    agree = G.strict_eq(m["ok"], _type_hole(real_out))
        elif isinstance(m, dict) and "err" in m and real_out is None:
            agree = True
        elif isinstance(m, dict) and m.get("err") in ("freshUuid", "unsupported"):
            # the model does not invent uuids / derive field keys: outside the modelled domain
            res["model_declined"] += 1
            res["model_err"][m["err"]] = res["model_err"].get(m["err"], 0) + 1
            continue
        if not agree:
            res["nties"] += 1
            if len(res["ties"]) < 3:
                paths = [p for p, *_ in G.diff_paths(real_out, m.get("ok"))][:6] if isinstance(m, dict) and "ok" in m and real_out is not None else None
                res["ties"].append({"label": label, "paths": paths, "model": m if len(json.dumps(m, default=str)) < 1500 else "(large)", "real_error": real_err,
                                    "input": d if len(json.dumps(d)) < 4000 else None})
    return res


def ui_reduce(doc):
    """`_ui` reduced to node positions (what the model keeps of the INPUT's `_ui`: codec self-test)"""
    doc = dict(doc)
    flows = []
    for f in doc.get("flows", []):
        f = dict(f)
        ui = f.pop("_ui", None)
        if isinstance(ui, dict) and isinstance(ui.get("nodes"), dict):
            f["_ui"] = {"nodes": {u: {"position": {"left": e["position"]["left"], "top": e["position"]["top"]}} for u, e in ui["nodes"].items()}}
        flows.append(f)
    doc["flows"] = flows
    return doc


def _type_hole(o):
    """real output with the non-JSON builtin replaced by the marker the model uses"""
    if isinstance(o, dict):
        return {k: _type_hole(v) for k, v in o.items()}
    if isinstance(o, list):
        return [_type_hole(v) for v in o]
    if o is type:
        return "<class 'type'>"
    return o


# ----------------------------------------------------------------------------- run


def known_stream(open_ids):
    """deterministic: one small document per finding (plus variants), regenerated each run"""
    out = []
    for k, kw in (
        ("a", dict(force_flow=True)),
        ("b", dict(top_group_attrs=True)),
        ("c", dict(force_flow=True, node_kw=dict(kind="switch", order="default_first"))),
        ("c", dict(force_flow=True, node_kw=dict(kind="switch", order="default_middle"))),
        ("d", dict(force_flow=True, node_kw=dict(kind="switch", exit_order="permuted"))),
        ("d", dict(force_flow=True, node_kw=dict(kind="random", exit_order="permuted"))),
    ):
        found = 0
        for s in range(400):
            g = G.Gen(random.Random(1000 * ord(k) + s), avoid=frozenset("abcd") - {k}, size=1)
            d = g.document(**kw)
            if G.TRIGGERS[k](d) and not any(G.TRIGGERS[o](d) for o in "abcd" if o != k and not (k == "c" and o == "d")):
                out.append((f"known-{k}-{s}", d, open_ids))
                found += 1
                if found >= 3:
                    break
    return out


def run(ck: core.Check):
    ck.lean = core.lean_step("C05", thorough=(ck.tier == "thorough"))
    ck.rule = (
        "documents are generated type-directed from the export schema (every optional key absent / empty / present, "
        "all 23 action types incl. unknown extra keys on pass-through ones, 0..5 nodes of every node kind, switch operands with 0 / 1 / 2+ dotted "
        "path segments in the namespaces contact / fields / results and in look-alike namespaces, urn-scheme operands and other expressions, `_ui` entries of every "
        "type the editor writes (with the whole operand path in config.operand) on some nodes and no entry on others, categories shared by "
        "several cases, permuted category order, group references with attributes, campaigns with both event kinds, triggers "
        "K/C/M/T in new and legacy form, renamed objects: references to ONE flow uuid under its current and older names in "
        "enter_flow actions / campaign events / triggers, one group uuid listed and referred to under two names) plus every fixture JSON embedded in a full export; a case is non-trivial when the "
        "document has at least one node, campaign or trigger; distinct = distinct documents (hash of canonical JSON)"
    )
    ck.assumptions = [
        "CPython dict insertion order / copy.deepcopy behave as modelled (exercised by the tie on every case)",
        "JSON values of pass-through fields are opaque to the model (canonical text); their equality is checked by the harness",
    ]
    ck.partial_gap = [
        "render_load_idem is proved for Valid ∧ CatsWired ∧ UntypedFields documents; the unconditional C05_idem_full (e.g. categories sharing an exit, timeout of 0 s) is only tested (oracle C on every case, tie on the quirk stream)",
        "_ui: the Lean ≈ (render_load) compares node positions only; `type`/`config` written by render_ui are modelled (Rpft.DocumentUi.nodeUi, tied on every case) and compared field for field by oracle C when the input entry is the editor's entry for its node (the generator's own statement of the format), by position only otherwise (counted); a result/field whose display name differs from its key (`name` ≠ `id` in config.operand) is such an entry: the code cannot know the name (nodes.py TODO)",
        "uuid invention (missing/empty uuids) and generate_field_key are outside the model: the model answers freshUuid/unsupported and those cases are compared by oracle C only",
        "Valid requires every referenced group to be listed at top level and flow references to agree: documents outside are exercised by the quirk stream (tie) only",
    ]
    import rpft.rapidpro.models.containers  # noqa: F401  (fail early → infra)

    quick = ck.tier == "quick"
    open_ids = {f["id"][-1] for f in ck.findings if f.get("status") == "open" and f["id"].startswith("F-C05-")}
    avoid = frozenset(open_ids)

    outside_domain = []

    def fold(results, kind):
        for r in results:
            ck.count(kind, r["n"])
            for v in r["viol"]:
                ck.violation(v["what"], {"label": v["label"], "failures": v["failures"], "input": v["input"]})
            if r["nviol"] > len(r["viol"]):
                ck.count("violations_not_listed", r["nviol"] - len(r["viol"]))
            for k, ex in r["known"].items():
                ck.known(f"F-C05-{k}", FINDING_TEXT[k], ex)
                ck.count(f"known_F-C05-{k}")
            for t in r["ties"]:
                ck.tie_break(f"{kind}: Lean model and real from_dict/render differ", t)
            if r["nties"] > len(r["ties"]):
                ck.count("tie_break", r["nties"] - len(r["ties"]))
            for c in r["codec_bad"]:
                ck.tie_break(f"{kind}: driver codec decode∘encode is not the identity", c)
            ck.count("model_declined(outside modelled schema)", r["model_declined"])
            for k, n in r["model_err"].items():
                ck.count("model_declined: " + k, n)
            ck.count("real_code_raised", r["real_err"])
            for k, n in r["dom"].items():
                ck.count(f"{kind}: {k}", n)
            outside_domain.extend(r["outside"])
            ck.count(f"{kind}: _ui entries compared field for field (the editor's entry for the node)", r["ui_full"])
            ck.count(f"{kind}: _ui entries compared by position only (not the editor's entry)", r["ui_pos_only"])

    # 1. corpus: all fixture files
    corp = corpus()
    for rel, d in corp:
        ck.case(json.dumps(d, sort_keys=True), nontrivial=True, sample=None)
    fold([case_worker([(rel, d, open_ids) for rel, d in corp])], "corpus_fixture_files")

    # 1b. the Lean witnesses (non-vacuity examples and negative witnesses of Props/C05.lean),
    #     served by the driver, replayed on the real code: the model's verdict (`lossless`) must
    #     be the real code's verdict (oracle C), and a failing witness must be a listed finding
    expected = {"docDefaultFirst": "c", "docExitsPermuted": "d", "docTypedField": "a", "docGroupQuery": "b"}
    wit = core.Driver().results([{"op": "doc.witnesses"}])[0]
    if isinstance(wit, dict):
        ck.tie_break("driver does not serve the Lean witnesses", wit)
        wit = []
    for w in wit:
        if w["name"].startswith("docOutside"):
            # outside Valid by construction: the real code must agree with the kernel that it is NOT lossless
            out, err = real_roundtrip(w["doc"])
            ck.case("witness:" + w["name"], nontrivial=True)
            ck.count("lean_witnesses_replayed")
            real_lossless = out is not None and not G.approx_diff(w["doc"], out)
            if real_lossless != bool(w["lossless"]):
                ck.tie_break("Lean witness (outside Valid): the kernel's verdict and the real code's differ", {"witness": w["name"], "lean_lossless": w["lossless"], "real_lossless": real_lossless, "real_error": err})
            continue
        fails, _ = oracle(w["doc"])
        ck.case("witness:" + w["name"], nontrivial=True)
        ck.count("lean_witnesses_replayed")
        if bool(fails) == bool(w["lossless"]):
            ck.tie_break("Lean witness: the kernel's verdict and the real code's differ", {"witness": w["name"], "lean_lossless": w["lossless"], "real_failures": fails[:3]})
        if fails:
            seen = classify(w["doc"], fails, set("abcd"))
            k = expected.get(w["name"])
            if not seen or k not in seen:
                ck.violation(fails[0]["what"], {"label": "lean witness " + w["name"], "failures": fails[:4], "input": w["doc"]})
            elif k in open_ids:
                ck.known(f"F-C05-{k}", FINDING_TEXT[k], {"label": "lean witness " + w["name"]})
    for name, k in expected.items():
        if k not in open_ids and any(w["name"] == name and not w["lossless"] for w in wit):
            ck.notes.append(f"F-C05-{k} is no longer open but the Lean model still fails on {name}: update the model")

    # 2. known-finding stream
    display_name_stream(ck)
    ks = known_stream(open_ids)
    fold([case_worker(ks)] if ks else [], "known_finding_stream")
    for k in sorted(open_ids):
        if f"F-C05-{k}" not in ck.known_seen:
            ck.notes.append(f"open finding F-C05-{k} no longer reproduces on the known-finding stream")

    # 3. main stream
    n = 12000 if quick else 150000
    items = []
    for i in range(n):
        seed = ck.rng.getrandbits(48)
        d, strata = G.generate(seed, avoid=avoid)
        for k, v in strata.items():
            ck.count("gen." + k, v)
        nontrivial = bool(any(f["nodes"] for f in d["flows"]) or d["campaigns"] or d["triggers"])
        ck.case(json.dumps(d, sort_keys=True), nontrivial=nontrivial, sample={"seed": seed, "doc": d} if i < 2 and len(json.dumps(d)) < 2500 else None)
        items.append((f"seed={seed}", d, open_ids))
    fold(par.pmap(case_worker, core.shard(items, par.NPROC * 2)), "generated_documents")

    # 4. quirk stream (tie only): near-valid documents outside the property's domain
    qitems = []
    for i in range(6000 if quick else 60000):
        seed = ck.rng.getrandbits(48)
        g = G.Gen(random.Random(seed), avoid=avoid, size=ck.rng.choice([1, 2]))
        d0 = g.document(force_flow=True)
        d, name = G.quirk(d0, random.Random(seed + 1))
        if d is None:
            continue
        ck.count("quirk." + name)
        ck.evaluations += 1
        qitems.append((f"quirk:{name}:seed={seed}", d, open_ids))
    oc = operand_corpus(open_ids)
    ck.count("quirk.operand_corpus", len(oc))
    ck.evaluations += len(oc)
    qitems += oc
    qres = par.pmap(case_worker, core.shard(qitems, par.NPROC * 2))
    fold(qres, "quirk_documents(tie only)")
    for r in qres:
        ck.count("quirk.real_code_ok", r.get("quirk_real_ok", 0))
        ck.count("quirk.real_code_raises", r.get("quirk_real_raises", 0))

    # generator self-check: every main-stream document must lie inside the hypotheses of the theorems
    if outside_domain:
        raise core.Infra("generator self-check: main-stream documents outside the proved domain (Valid/CatsWired/…): "
                         + json.dumps(outside_domain[:2], ensure_ascii=False)[:1500])

    # generator self-check: the declared strata must have been reached
    need = ["gen.node.basic", "gen.node.switch", "gen.node.random", "gen.node.router_action", "gen.router.shared_category",
            "gen.event.F", "gen.event.M", "gen.passthrough.extra_key", "gen.ui.positions", "gen.ui.absent",
            "gen.opt.all_urns.absent", "gen.opt.all_urns.empty", "gen.opt.all_urns.present",
            "gen.opt.exclude_groups.absent", "gen.opt.exclude_groups.empty", "gen.opt.exclude_groups.present",
            "gen.opt.destination_uuid.absent", "gen.opt.destination_uuid.empty", "gen.opt.destination_uuid.present",
            "gen.groupref.attr.present", "gen.flowref.older_name.action", "gen.flowref.older_name.event", "gen.flowref.older_name.trigger",
            "gen.group.older_name_same_uuid", "gen.router.switch.wait=timeout", "gen.router.switch.wait=plain", "gen.case.has_group",
            "gen.operand.expression", "gen.operand.urn_scheme_path", "gen.ui.entry.foreign", "gen.ui.entry.none(node without position)"] + [
        f"gen.operand.{ns}.segments={k}" for ns in G.OPERAND_NAMESPACES + ["near_namespace"] for k in ("0", "1", "2+")] + [
        f"gen.ui.{e}.plain_split.{ns}.segments={k}" for e in ("entry", "no_entry") for ns in G.OPERAND_NAMESPACES for k in ("0", "1", "2+")] + [
        "gen.ui.entry." + t for t in G.UI_ENTRY_CLASSES] + [
        f"gen.trigger.{form}.{t}" for form in ("new", "legacy") for t in G.TRIGGER_TYPES] + [
        "gen.action." + t for t in list(G.PASS_THROUGH) + G.SPECIAL]
    missing = [s for s in need if not ck.strata.get(s)]
    if missing:
        raise core.Infra("generator self-check: strata not reached: " + ", ".join(missing))

    # T1 (harness side): the generator's action types are exactly the keys of action_map
    from ..tables import t05_actions

    amap = dict(t05_actions.action_map())
    if set(amap) != set(G.PASS_THROUGH) | set(G.SPECIAL):
        ck.tie_break("action_map of the source and the generator's schema differ", {
            "only_source": sorted(set(amap) - set(G.PASS_THROUGH) - set(G.SPECIAL)), "only_generator": sorted((set(G.PASS_THROUGH) | set(G.SPECIAL)) - set(amap))})

    # minimise the replay of the smallest failing input
    if ck.violations:
        ck.violations.sort(key=lambda x: len(json.dumps(x["replay"], default=str)))
        v = ck.violations[0]
        if isinstance(v["replay"].get("input"), dict):
            small = shrink(v["replay"]["input"], v["what"], open_ids)
            fails, _ = oracle(copy.deepcopy(small))
            if fails and fails[0]["what"] == v["what"]:
                v["replay"] = {"label": v["replay"].get("label"), "shrunk": True, "failures": fails[:4], "input": small}

    if (ck.tie_breaks or not ck.lean.ok) and not ck.violations and quick:
        # obligation broken: failing-input search = thorough-size generation through C only
        ck.search_ran = True
        items = []
        for i in range(20000):
            seed = ck.rng.getrandbits(48)
            d, _ = G.generate(seed, avoid=avoid)
            items.append((f"seed={seed}", d, open_ids))
        os.environ["C05_NO_MODEL"] = "1"
        try:
            fold(par.pmap(case_worker, core.shard(items, par.NPROC * 2)), "search_documents")
        finally:
            os.environ.pop("C05_NO_MODEL", None)


def replay(path):
    rec = json.load(open(path))
    print(json.dumps({k: v for k, v in rec.items() if k != "replay"}, indent=1, ensure_ascii=False)[:3000])
    rp = rec.get("replay", {})
    d = rp.get("input")
    if d is None:
        return 0
    fails, out = oracle(d)
    print("oracle failures on the real code:")
    for f in fails:
        print(" -", json.dumps(f, ensure_ascii=False, default=str)[:600])
    if not fails:
        print(" (none — the input passes now)")
    return 1 if fails else 0
