"""C11 — data-sheet concat, filter and sort do exactly that, and never touch their source.

A  proof step: Rpft.Props.C11 (concat_spec, filter_spec, sort_spec, sort_desc_spec,
   nodup_preserved, sources_untouched, chain_untouched, registered_persists, to_dict_spec, …).
B  tie: random chains of data_sheet rows run through the real ContentIndexParser (one parser
   per chain prefix, so the state after EVERY step is observed) vs the Lean model
   (`dataops.run`), compared on: registered names in order, rows (id, content) in order,
   number of CRITICAL records, kind of exception, data_sheets_to_dict.
C  direct oracle: the statement evaluated on the real outputs only — the sheet registered by
   step k equals an independent Python reading of the operation applied to the REAL sheets
   of step k-1 (dedup-keep-first-position / last-content, `is True` filter, decorate-sort),
   every other name keeps rows and order, every ID once, save_data_sheets lists exactly
   these rows, bulk flows instantiated from the last sheet follow its rows.
"""
from __future__ import annotations

import csv
import functools
import io
import json
import logging
import os
import random
import shutil
import sys
import tempfile

from .. import core, par

MANIFEST = dict(
    text="Proof: Lean theorems concat_spec (first position, last content, every ID once), filter_spec (exactly the rows whose value `is True`, in order), sort_spec / sort_desc_spec (permutation, ordered, stable — ties in input order also for descending), result_nodup / ids_once, sources_untouched / chain_untouched / registered_persists (induction over chains of any length), registered_spec, to_dict_spec over a hand model of ContentIndexParser's data-sheet operations for all sheets and all chains (unbounded); tied to the code by random chains of 1-6 operations over fresh and derived sheets (duplicate IDs, heavy ties, int and str keys, several filter columns; a quarter of the cases over data models whose columns are named like Python built-ins — min, max, id, len, sum, filter, type, round, range, format, list, set, str, int — read by the expressions next to built-in functions that are called) observed after every step through the real ContentIndexParser, data_sheets_to_dict, converters.save_data_sheets on real CSV workbooks, and bulk flow instantiation.",
    ref="§5 C11",
    note="Trusts: Lean kernel (axioms audited each run), the differential harness and Driver JSON codec, CPython eval/sorted/OrderedDict as modelled (exercised by the tie on every case). Python's expression language is outside the model: the harness evaluates each row's expression and ships the value. One explicit data model per case, out of four classes (concat of two *inferred* models is rejected by the code: outside the statement). Expressions that CALL a name which is also a column of the row (TypeError: the field shadows the built-in) are not generated. Mixed int/str sort keys (TypeError) not generated.",
    technique="Lean 4 proof (induction over rows and over operation chains; core mergeSort stability) + differential model/code correspondence on generated operation chains",
)

MODEL_SRC = '''from rpft.parsers.creation.datarowmodel import DataRowModel

_I = int
_S = str


class GenRow(DataRowModel):
    a: _I = 0
    s: _S = ""
    t: _S = ""


# column names that coincide with Python built-ins (age bands with `min`/`max`, an `id`, a `type`, …):
# in a filter / sort expression the name means the row's field
class GenRowMM(DataRowModel):
    a: _I = 0
    s: _S = ""
    t: _S = ""
    min: _I = 0
    max: _I = 0
    id: _S = ""


class GenRowLS(DataRowModel):
    a: _I = 0
    s: _S = ""
    t: _S = ""
    len: _I = 0
    sum: _I = 0
    filter: _S = ""
    type: _S = ""


class GenRowFR(DataRowModel):
    a: _I = 0
    s: _S = ""
    t: _S = ""
    round: _I = 0
    range: _I = 0
    abs: _I = 0
    format: _S = ""
    list: _S = ""
    set: _S = ""
    str: _S = ""
    int: _I = 0
'''

# model class → its value columns (after ID) with their types; rows of a case are [ID, *values] in this order
MODELS = {
    "GenRow": [("a", int), ("s", str), ("t", str)],
    "GenRowMM": [("a", int), ("s", str), ("t", str), ("min", int), ("max", int), ("id", str)],
    "GenRowLS": [("a", int), ("s", str), ("t", str), ("len", int), ("sum", int), ("filter", str), ("type", str)],
    "GenRowFR": [("a", int), ("s", str), ("t", str), ("round", int), ("range", int), ("abs", int), ("format", str),
                 ("list", str), ("set", str), ("str", str), ("int", int)],
}
BUILTIN_MODELS = [m for m in MODELS if m != "GenRow"]

FILTER_EXPRS = [
    "a > 1", "a == 1", "a >= 1 and s < 'y'", "s == 'x'", "s != t", "s in ['x','z']",
    "a % 2 == 0 or t == 'y'", "ID != 'r3'", "len(s + t) == 2", "not a", "bool(a)", "True",
    "t.lower() == 'x' and a < 2", "ID < 'r5'", "a == 0 or a == 2",
    # string literals are data: typographic quotes, separators and escapes inside them mean themselves
    "s == \"l’é\"", "'’' in s or '“' in t", "s != '‘q’'", "t == 'a;b' or s == 'a|b'",
    # not the object True: keeps nothing, whatever the truthiness
    "a", "s", "1", "a or 1", "[a]",
]
SORT_EXPRS = [
    "a", "-a", "s", "t", "s + t", "s.lower()", "len(s)", "a % 2", "ID", "a * 0", "a > 1",
    "t + ID[:1]", "a * a - 2 * a", "ID[::-1]", "min(a, 1)", "s.count('’')", "(s + t).replace('“', '\"')",
]
ORDERS = ["", "", "ascending", "descending", "descending", "Descending", "DESCENDING", "desc"]
BAD_FILTER = ["nope > 1", "a >"]
BAD_SORT = ["nope", "a +"]

# expressions over columns named like built-ins; which model a given expression fits is decided by
# `fits` (names read ⊆ the model's columns, names called ∩ the model's columns = ∅)
BUILTIN_FILTER_EXPRS = [
    "min == 0", "max < 2", "min <= a <= max", "max - min > 1", "min < max", "id != 'x'", "id == s",
    "id.lower() == 'x' and min < 2", "len(s + id) == 2", "abs(min - max) == 1", "bool(max)", "ID < 'r5' and max >= 1",
    "len > 1", "len == a", "sum % 2 == 0", "filter == 'x'", "type in ['x','z']", "type != filter",
    "max(a, len) > 1", "min(sum, len) == 0", "sum >= 1 and type < 'y'", "str(len) == '1'", "not sum",
    "round >= 1", "range > a", "format == 'x'", "list != set", "str == 'x'", "int == 1", "abs == 2 or format == 'y'",
    "len(list + set) == 2", "max(round, range) > 1", "int % 2 == 0 or str == 'y'", "bool(range)",
    # not the object True
    "min", "id", "len", "type", "round", "format", "max or 1", "[sum]",
]
BUILTIN_SORT_EXPRS = [
    "min", "-max", "max - min", "id", "id + s", "len(id)", "max * max - 2 * max", "abs(min - 1)", "min > 1", "id.lower()",
    "len", "-sum", "sum % 2", "filter", "type + ID[:1]", "filter + type", "min(len, a)", "max(a, sum)", "len * 0",
    "round", "-range", "range - round", "format", "str + list", "int", "set.lower()", "abs", "len(format)", "min(round, 1)",
]


@functools.lru_cache(maxsize=None)
def expr_names(expr: str):
    """(names read as values, names called) of an expression; None if it does not parse"""
    import ast

    try:
        tree = ast.parse(expr, mode="eval")
    except SyntaxError:
        return None
    called = {n.func.id for n in ast.walk(tree) if isinstance(n, ast.Call) and isinstance(n.func, ast.Name)}
    callee_nodes = {id(n.func) for n in ast.walk(tree) if isinstance(n, ast.Call)}
    read = {n.id for n in ast.walk(tree) if isinstance(n, ast.Name) and id(n) not in callee_nodes}
    return frozenset(read), frozenset(called)


def fits(expr: str, model: str) -> bool:
    """every name the expression reads is a column of `model`, every name it calls is not (so it is the built-in)"""
    cols = {"ID"} | {c for c, _ in MODELS[model]}
    read, called = expr_names(expr)
    return read <= cols and not (called & cols)


def builtin_named(model: str) -> frozenset:
    import builtins

    return frozenset(c for c, _ in MODELS[model] if hasattr(builtins, c))


@functools.lru_cache(maxsize=None)
def expr_pool(kind: str, model: str):
    """(expressions reading a built-in-named column, the others) that fit the model"""
    pool = (FILTER_EXPRS + BUILTIN_FILTER_EXPRS) if kind == "filter" else (SORT_EXPRS + BUILTIN_SORT_EXPRS)
    ok = [e for e in pool if fits(e, model)]
    bn = builtin_named(model)
    return [e for e in ok if expr_names(e)[0] & bn], [e for e in ok if not expr_names(e)[0] & bn]


def pick_expr(rng, kind: str, model: str) -> str:
    special, plain = expr_pool(kind, model)
    if special and rng.random() < 0.65:
        return rng.choice(special)
    return rng.choice(plain)

IDS = [f"r{i}" for i in range(10)]
S_SMALL = ["x", "y", "z"]
S_WIDE = ["x", "y", "z", "X", "Y", "xy", "", "é", "日", "a1", "Zz", "\U0001F600", "l’é", "‘q’", "“d”", "l'é", "a;b", "a|b"]
A_SMALL = [0, 1, 2]
A_WIDE = [-3, -1, 0, 1, 2, 3, 7, 10, 12]

INDEX_HEADERS = ["type", "sheet_name", "new_name", "data_model", "data_sheet", "operation.type", "operation.expression", "operation.order"]
DATA_HEADERS = ["ID", "a", "s", "t"]
TPL_HEADERS = ["row_id", "type", "from", "message_text"]
TPL_ROW = ["1", "send_message", "start", "{{ID}}/{{a}}/{{s}}/{{t}}"]

_MOD = {"name": None, "dir": None}


# ------------------------------------------------------------------ generation


def gen_case(rng: random.Random, malformed: bool = False) -> dict:
    wide = rng.random() < 0.3
    # one data model per case; a quarter of the cases have columns named like Python built-ins
    model = rng.choice(BUILTIN_MODELS) if rng.random() < 0.25 else "GenRow"
    nf = rng.randint(1, 4)
    idpool = IDS[: rng.choice([3, 5, 8, 10])]
    fresh = {}
    for i in range(nf):
        n = rng.choice([0, 1, 2, 3, 4, 5, 6, 8, 10, 12]) if rng.random() < 0.8 else rng.randint(0, 12)
        dup_within = rng.random() < 0.12
        ids = []
        for _ in range(n):
            if dup_within or len(ids) >= len(idpool):
                ids.append(rng.choice(idpool))
            else:
                ids.append(rng.choice([x for x in idpool if x not in ids]))
        rows = []
        for rid in ids:
            rows.append([rid] + [
                rng.choice(A_WIDE if wide else A_SMALL) if ty is int else rng.choice(S_WIDE if wide else S_SMALL)
                for _, ty in MODELS[model]
            ])
        fresh[f"F{i}"] = rows
    nops = rng.randint(1, 6)
    ops = []
    registered = []
    derived = 0
    for k in range(nops):
        ty = rng.choice(["", "concat", "concat", "filter", "filter", "sort", "sort", "sort"])
        pool = list(fresh) + registered + registered  # prefer derived sheets as sources
        if ty in ("", "concat"):
            ns = rng.choice([1, 2, 2, 3]) if ty == "concat" else rng.choice([1, 1, 2])
            sources = [rng.choice(pool) for _ in range(ns)]
        else:
            sources = [rng.choice(pool)]
            if rng.random() < 0.05:
                sources.append(rng.choice(pool))  # ignored with a warning
        r = rng.random()
        if ty == "" and r < 0.5:
            new_name = ""  # plain registration under the sheet's own name
        elif r < 0.12 and registered:
            new_name = rng.choice(registered)  # re-registration (overwrite)
        elif r < 0.17:
            new_name = rng.choice(list(fresh))  # shadows a reader sheet
        else:
            new_name = f"D{derived}"
            derived += 1
        op = {"type": ty, "sources": sources, "new_name": new_name, "expr": "", "order": ""}
        if ty == "filter":
            op["expr"] = pick_expr(rng, "filter", model)
        if ty == "sort":
            op["expr"] = pick_expr(rng, "sort", model)
            op["order"] = rng.choice(ORDERS)
        ops.append(op)
        tgt = new_name or sources[0]
        if tgt not in registered:
            registered.append(tgt)
    case = {"fresh": fresh, "ops": ops, "flow": rng.random() < 0.25}
    if model != "GenRow":
        case["model"] = model
    if malformed:
        k = rng.randrange(len(ops))
        op = ops[k]
        kind = rng.choice(["missing_sheet", "no_new_name", "bad_expr", "unknown_op", "no_sources"])
        if kind == "missing_sheet":
            op["sources"] = op["sources"][:-1] + ["NOSUCH"]
        elif kind == "no_new_name":
            if op["type"] == "":
                op["type"] = "concat"
            op["new_name"] = ""
        elif kind == "bad_expr":
            if op["type"] == "filter":
                op["expr"] = rng.choice(BAD_FILTER)
            elif op["type"] == "sort":
                op["expr"] = rng.choice(BAD_SORT)
            else:
                op["type"], op["expr"] = "filter", BAD_FILTER[0]
        elif kind == "unknown_op":
            op["type"] = "shuffle"
        else:
            op["sources"] = []
            del ops[k + 1:]  # a model-less sheet must not become a source (other CRITICAL paths)
        case["malformed"] = kind
        case["flow"] = False
    return case


# ------------------------------------------------------------------ independent reading


def model_of(case) -> str:
    return case.get("model", "GenRow")


def columns(case) -> list[str]:
    return ["ID"] + [c for c, _ in MODELS[model_of(case)]]


def content(row, cols=("ID", "a", "s", "t")) -> tuple:
    return tuple(row[c] for c in cols)


def ref_fresh(rows, cols=("ID", "a", "s", "t")) -> list[dict]:
    return ref_concat([[dict(zip(cols, r)) for r in rows]])


def ref_concat(sheets) -> list[dict]:
    """rows of the sources in source order; an already-seen ID keeps its place, content replaced"""
    out: list[dict] = []
    for sh in sheets:
        for row in sh:
            for i, old in enumerate(out):
                if old["ID"] == row["ID"]:
                    out[i] = row
                    break
            else:
                out.append(row)
    return out


def ref_filter(rows, expr) -> list[dict]:
    return [r for r in rows if eval(expr, {}, dict(r)) is True]


def ref_sort(rows, expr, order) -> list[dict]:
    desc = order.strip().lower() == "descending"
    deco = [(eval(expr, {}, dict(r)), i, r) for i, r in enumerate(rows)]

    def cmp(x, y):
        if x[0] < y[0]:
            return 1 if desc else -1
        if y[0] < x[0]:
            return -1 if desc else 1
        return x[1] - y[1]  # ties: input order, in both directions

    return [r for _, _, r in sorted(deco, key=functools.cmp_to_key(cmp))]


def fkey(expr, row) -> str:
    try:
        v = eval(expr, {}, dict(row))
    except (NameError, SyntaxError):
        return "E"
    return "T" if v is True else "O"


def skey(expr, row):
    try:
        v = eval(expr, {}, dict(row))
    except (NameError, SyntaxError):
        return None
    if isinstance(v, bool):
        return int(v)
    assert isinstance(v, (int, str)), (expr, v)
    return v


# ------------------------------------------------------------------ real code


class _Capture(logging.Handler):
    def __init__(self):
        super().__init__(level=logging.DEBUG)
        self.records = []

    def emit(self, record):
        self.records.append(record)


def _reader(name, sheets: dict):
    import tablib
    from rpft.parsers.sheets import AbstractSheetReader, Sheet

    class MemReader(AbstractSheetReader):
        def __init__(self):
            self.name = name
            self._sheets = {}
            for sn, (headers, rows) in sheets.items():
                ds = tablib.Dataset(headers=list(headers))
                for r in rows:
                    ds.append([str(c) for c in r])
                self._sheets[sn] = Sheet(reader=self, name=sn, table=ds)

    return MemReader()


def index_rows(case, k, with_flow=False):
    rows = []
    for op in case["ops"][:k]:
        rows.append(["data_sheet", ";".join(op["sources"]), op["new_name"], model_of(case), "", op["type"], op["expr"], op["order"]])
    if with_flow:
        rows.append(["template_definition", "tpl", "", "", "", "", "", ""])
        rows.append(["create_flow", "tpl", "", "", with_flow, "", "", ""])
    return rows


def workbook(case, k, with_flow=False) -> dict:
    sheets = {"content_index": (INDEX_HEADERS, index_rows(case, k, with_flow))}
    for n, rows in case["fresh"].items():
        sheets[n] = (columns(case), rows)
    if with_flow:
        sheets["tpl"] = (TPL_HEADERS, [TPL_ROW])
    return sheets


EXC_KIND = {"ParserError": "sheetNotFound", "UnboundLocalError": "unbound", "IndexError": "index"}


def real_run(case, k, with_flow=False) -> dict:
    """the real ContentIndexParser on the first k operations; observation at the API boundary"""
    from rpft.parsers.creation.contentindexparser import ContentIndexParser

    cap = _Capture()
    lg = logging.getLogger("main")
    lg.addHandler(cap)
    old = lg.level
    lg.setLevel(logging.ERROR)
    out = {"exc": None, "data": None, "crit": 0, "dict": None, "flows": None, "keyrow": True}
    try:
        try:
            p = ContentIndexParser(_reader("mem", workbook(case, k, with_flow)), _MOD["name"])
        except Exception as e:  # noqa: BLE001
            out["exc"] = EXC_KIND.get(type(e).__name__, "other:" + type(e).__name__)
            out["exc_text"] = repr(e)[:200]
            out["crit"] = sum(1 for r in cap.records if r.levelno >= logging.CRITICAL)
            return out
        data = []
        for name in p.data_sheets:
            rows = p.get_data_sheet_rows(name)
            lst = []
            for rid, row in rows.items():
                d = row.dict()
                if rid != d["ID"]:
                    out["keyrow"] = False
                lst.append(d)
            data.append([name, lst])
        out["data"] = data
        try:
            out["dict"] = p.data_sheets_to_dict()
        except AttributeError:  # a sheet concatenated from no source has no row model (malformed stream only)
            out["dict"] = None
        if with_flow:
            res = p.parse_all().render()
            out["flows"] = [[f["name"], f["nodes"][0]["actions"][0]["text"]] for f in res["flows"]]
        out["crit"] = sum(1 for r in cap.records if r.levelno >= logging.CRITICAL)
        out["errors"] = sum(1 for r in cap.records if r.levelno == logging.ERROR)
    finally:
        lg.removeHandler(cap)
        lg.setLevel(old)
    return out


def save_via_files(case, tmp) -> dict:
    """converters.save_data_sheets on a real CSV workbook directory"""
    from rpft import converters

    d = tempfile.mkdtemp(dir=tmp)
    for sn, (headers, rows) in workbook(case, len(case["ops"])).items():
        with open(os.path.join(d, sn + ".csv"), "w", newline="", encoding="utf-8") as f:
            w = csv.writer(f)
            w.writerow(headers)
            for r in rows:
                w.writerow([str(c) for c in r])
    outp = os.path.join(d, "out.json")
    lg = logging.getLogger("main")
    old = lg.level
    lg.setLevel(logging.CRITICAL + 1)
    try:
        res = converters.save_data_sheets([d], outp, "csv", data_models=_MOD["name"])
    finally:
        lg.setLevel(old)
    with open(outp, encoding="utf-8") as f:
        on_disk = json.load(f)
    shutil.rmtree(d, ignore_errors=True)
    return {"returned": res, "on_disk": on_disk}


# ------------------------------------------------------------------ one case: B and C


def model_request(case):
    table: dict[tuple, int] = {}
    rows_by_pid = []
    cols = columns(case)

    def pid(r):
        c = tuple(r)
        if c not in table:
            table[c] = len(table)
            rows_by_pid.append(dict(zip(cols, r)))
        return table[c]

    fresh = [[n, [[r[0], pid(r)] for r in rows]] for n, rows in case["fresh"].items()]
    ops = []
    for op in case["ops"]:
        o = {"sources": op["sources"], "new_name": op["new_name"], "type": op["type"], "order": op["order"]}
        if op["type"] == "filter":
            o["fkeys"] = [[i, fkey(op["expr"], r)] for i, r in enumerate(rows_by_pid)]
        if op["type"] == "sort":
            o["skeys"] = [[i, skey(op["expr"], r)] for i, r in enumerate(rows_by_pid)]
        ops.append(o)
    return {"op": "dataops.run", "fresh": fresh, "ops": ops}, table


def canon_real(obs, table, cols=("ID", "a", "s", "t")):
    """real observation → the shape the model answers with"""
    if obs["exc"]:
        return {"err": obs["exc"]}
    data = [[n, [[d["ID"], table.get(content(d, cols), -1)] for d in rows]] for n, rows in obs["data"]]
    if obs["dict"] is None:
        return {"data": data, "crit": obs["crit"]}
    dct = [[n, [table.get(content(d, cols), -1) for d in sh["rows"]]] for n, sh in obs["dict"]["sheets"].items()]
    return {"data": data, "crit": obs["crit"], "dict": dct}


def canon_model(m):
    if "err" in m:
        return {"err": m["err"]}
    return m


def oracle_step(case, k, prev, cur) -> str | None:
    """the statement on the real outputs: state `prev` (after k-1 ops) → `cur` (after k ops).
    Returns a description of the failure, or None."""
    op = case["ops"][k - 1]
    prevd = dict((n, rows) for n, rows in prev["data"])
    curd = dict((n, rows) for n, rows in cur["data"])
    if len(curd) != len(cur["data"]):
        return "a sheet name is registered twice"

    def src(n):
        return prevd[n] if n in prevd else ref_fresh(case["fresh"][n], columns(case))

    ty = op["type"]
    if ty in ("", "concat"):
        exp = ref_concat([src(n) for n in op["sources"]])
    elif ty == "filter":
        exp = ref_filter(src(op["sources"][0]), op["expr"])
    else:
        exp = ref_sort(src(op["sources"][0]), op["expr"], op["order"])
    target = op["new_name"] or op["sources"][0]
    if target not in curd:
        return f"result not registered under {target!r}"
    if curd[target] != exp:
        return f"{ty or 'plain'}: registered rows differ from the statement's reading"
    ids = [d["ID"] for d in curd[target]]
    if len(set(ids)) != len(ids):
        return "a row ID appears twice"
    if not cur["keyrow"]:
        return "a row is filed under an ID that is not its own"
    for n, rows in prev["data"]:
        if n == target:
            continue
        if n not in curd:
            return f"previously registered sheet {n!r} is gone"
        if curd[n] != rows:
            return f"previously registered sheet {n!r} changed (rows or order)"
    pn = [n for n, _ in prev["data"]]
    cn = [n for n, _ in cur["data"]]
    if cn != pn + ([target] if target not in pn else []):
        return "registered names / their order changed beyond the new name"
    if cur["crit"] or cur.get("errors"):
        return "a valid chain logged an error"
    # save_data_sheets content of this state
    sh = cur["dict"]["sheets"]
    if list(sh) != cn:
        return "data_sheets_to_dict does not list exactly the registered names"
    for n, rows in cur["data"]:
        if sh[n]["rows"] != rows or sh[n]["model"] != model_of(case):
            return f"data_sheets_to_dict rows of {n!r} differ from the registered rows"
    return None


def classify(case):
    """strata of one (valid) case, computed from the independent reading"""
    st = []
    reg: dict[str, list] = {}
    derived_names = set()
    for op in case["ops"]:
        def src(n):
            return reg[n] if n in reg else ref_fresh(case["fresh"][n], columns(case))
        srcs = [src(n) for n in op["sources"]]
        kinds = []
        for n in op["sources"]:
            if n in derived_names:
                kinds.append("derived")
            elif n in reg:
                kinds.append("registered")
            else:
                kinds.append("fresh")
        for kd in set(kinds):
            st.append("source." + kd)
        ty = op["type"]
        st.append("op." + (ty or "plain"))
        if ty in ("filter", "sort"):
            read, called = expr_names(op["expr"])
            if read & builtin_named(model_of(case)):
                st.append(ty + ".reads_builtin_named_column")
                if called:
                    st.append("expr.calls_a_builtin_and_reads_a_builtin_named_column")
        if ty in ("", "concat"):
            allids = [r["ID"] for s in srcs for r in s]
            if len(set(allids)) != len(allids):
                st.append("concat.duplicate_ids_across_sources")
            res = ref_concat(srcs)
        elif ty == "filter":
            res = ref_filter(srcs[0], op["expr"])
            if any(fkey(op["expr"], r) == "O" and eval(op["expr"], {}, dict(r)) for r in srcs[0]):
                st.append("filter.truthy_non_True_dropped")
            if 0 < len(res) < len(srcs[0]):
                st.append("filter.proper_subset")
        else:
            keys = [skey(op["expr"], r) for r in srcs[0]]
            ties = len(set(keys)) < len(keys)
            desc = op["order"].lower() == "descending"
            if ties:
                st.append("sort.ties_desc" if desc else "sort.ties_asc")
            if keys and isinstance(keys[0], str):
                st.append("sort.str_key")
            elif keys:
                st.append("sort.int_key")
            res = ref_sort(srcs[0], op["expr"], op["order"])
            if res != srcs[0]:
                st.append("sort.reorders")
        if not res:
            st.append("result.empty")
        tgt = op["new_name"] or op["sources"][0]
        if tgt in reg:
            st.append("target.overwrites_registered")
        elif tgt in case["fresh"]:
            st.append("target.shadows_reader_sheet" if op["new_name"] else "target.own_name")
        reg[tgt] = res
        if ty or len(op["sources"]) > 1 or (op["new_name"] and True):
            derived_names.add(tgt)
    if any(len(set(r[0] for r in rows)) < len(rows) for rows in case["fresh"].values()):
        st.append("fresh.duplicate_ids_within_sheet")
    st.append(f"chain_len.{len(case['ops'])}")
    if builtin_named(model_of(case)):
        st.append("columns.named_like_builtins")
    return st


def run_case(case, drv_answer, table, tmp, do_files) -> dict:
    res = {"ties": [], "viol": [], "strata": [], "n": 0}
    n = len(case["ops"])
    model_states = [canon_model(m) for m in drv_answer]
    prev = {"data": [], "crit": 0, "dict": {"sheets": {}}, "keyrow": True, "exc": None}
    malformed = "malformed" in case
    for k in range(1, n + 1):
        cur = real_run(case, k)
        res["n"] += 1
        real_c = canon_real(cur, table, columns(case))
        mod = model_states[k - 1] if k - 1 < len(model_states) else {"err": "(model stopped earlier)"}
        if "dict" not in real_c and "err" not in real_c and isinstance(mod, dict):
            mod = {k2: v2 for k2, v2 in mod.items() if k2 != "dict"}
        tie_broke = real_c != mod
        if tie_broke:
            res["ties"].append({"case": case, "step": k, "real": real_c, "model": mod})
        if cur["exc"]:
            if not malformed:
                res["viol"].append({"what": "a valid chain of data_sheet rows raised " + cur["exc"], "case": case, "step": k, "exception": cur.get("exc_text")})
            break
        if not malformed:
            bad = oracle_step(case, k, prev, cur)
            if bad:
                res["viol"].append({"what": bad, "case": case, "step": k, "before": prev["data"], "after": cur["data"]})
                break
        if tie_broke:
            break
        prev = cur
    else:
        if not malformed:
            names = [nm for nm, _ in prev["data"]]
            if case.get("flow") and names:
                last = names[-1]
                obs = real_run(case, n, with_flow=last)
                rows = dict(prev["data"])[last]
                exp = [[f"tpl - {d['ID']}", f"{d['ID']}/{d['a']}/{d['s']}/{d['t']}"] for d in rows]
                res["strata"].append("bulk_flows")
                mrows = dict((a, b) for a, b in model_states[-1]["data"])[last]
                if obs["exc"] or obs["flows"] != exp:
                    res["viol"].append({"what": "flows instantiated from the derived sheet do not follow its rows", "case": case, "sheet": last, "got": obs.get("flows"), "expected": exp, "exception": obs.get("exc_text")})
                elif [f[0] for f in obs["flows"]] != [f"tpl - {i}" for i, _ in mrows]:
                    res["ties"].append({"case": case, "step": "flows", "real": obs["flows"], "model": mrows})
            if do_files:
                sv = save_via_files(case, tmp)
                res["strata"].append("save_data_sheets_csv_files")
                want = {"sheets": {nm: {"model": model_of(case), "rows": rows} for nm, rows in prev["data"]}}
                for which in ("returned", "on_disk"):
                    got = sv[which]
                    if list(got["sheets"]) != names or got["sheets"] != want["sheets"]:
                        res["viol"].append({"what": f"save_data_sheets ({which}) does not list exactly the registered rows", "case": case, "got": got["sheets"], "expected": want["sheets"]})
                        break
    if not malformed:
        res["strata"] += classify(case)
    else:
        res["strata"].append("malformed." + case["malformed"])
    return res


def worker(args):
    seeds, malformed, files_every = args
    _ensure_module()
    drv = core.Driver()
    cases = [gen_case(random.Random(s), malformed) for s in seeds]
    reqs, tables = zip(*[model_request(c) for c in cases]) if cases else ((), ())
    answers = drv.results(list(reqs))
    tmp = tempfile.mkdtemp(prefix="c11w_")
    out = {"n": 0, "cases": 0, "ties": [], "viol": [], "strata": {}, "keys": [], "sample": None}
    try:
        for i, (c, a, t) in enumerate(zip(cases, answers, tables)):
            if isinstance(a, dict) and "__error__" in a:
                out["ties"].append({"case": c, "driver_error": a["__error__"]})
                continue
            r = run_case(c, a, t, tmp, do_files=(files_every and i % files_every == 0))
            out["n"] += r["n"]
            out["cases"] += 1
            out["ties"] += r["ties"][: max(0, 5 - len(out["ties"]))]
            out["nties"] = out.get("nties", 0) + len(r["ties"])
            out["viol"] += r["viol"][: max(0, 5 - len(out["viol"]))]
            out["nviol"] = out.get("nviol", 0) + len(r["viol"])
            for s in r["strata"]:
                out["strata"][s] = out["strata"].get(s, 0) + 1
            out["keys"].append(json.dumps([c["fresh"], c["ops"], model_of(c)], sort_keys=True))
            if out["sample"] is None and len(c["ops"]) >= 3:
                out["sample"] = c
    finally:
        shutil.rmtree(tmp, ignore_errors=True)
    return out


def _ensure_module():
    if _MOD["name"] is None:
        d = tempfile.mkdtemp(prefix="c11mod_")
        name = f"verif_c11_models_{os.getpid()}"
        with open(os.path.join(d, name + ".py"), "w") as f:
            f.write(MODEL_SRC)
        sys.path.insert(0, d)
        _MOD["name"], _MOD["dir"] = name, d
    elif _MOD["dir"] not in sys.path:
        sys.path.insert(0, _MOD["dir"])


# ------------------------------------------------------------------ shrinking


def still_fails(case) -> dict | None:
    """C on one case (valid stream only); returns the violation or None"""
    drv = core.Driver()
    req, table = model_request(case)
    ans = drv.results([req])[0]
    tmp = tempfile.mkdtemp(prefix="c11s_")
    try:
        r = run_case(case, ans if isinstance(ans, list) else [], table, tmp, do_files=False)
    finally:
        shutil.rmtree(tmp, ignore_errors=True)
    return r["viol"][0] if r["viol"] else None


def shrink(v: dict) -> dict:
    case = json.loads(json.dumps(v["case"]))
    if isinstance(v.get("step"), int):
        case["ops"] = case["ops"][: v["step"]]
    best = v
    budget = 60

    def attempt(c):
        nonlocal best, case, budget
        if budget <= 0:
            return False
        budget -= 1
        try:
            if any(n not in c["fresh"] and not any((o["new_name"] or (o["sources"] or [""])[0]) == n for o in c["ops"]) for o in c["ops"] for n in o["sources"]):
                return False
            r = still_fails(c)
        except Exception:  # noqa: BLE001
            return False
        if r and r["what"] == v["what"]:
            best, case = r, c
            return True
        return False

    attempt(json.loads(json.dumps(case)))
    changed = True
    while changed and budget > 0:
        changed = False
        for i in range(len(case["ops"]) - 1):
            c = json.loads(json.dumps(case))
            del c["ops"][i]
            if attempt(c):
                changed = True
                break
        for n in list(case["fresh"]):
            for i in range(len(case["fresh"][n])):
                c = json.loads(json.dumps(case))
                del c["fresh"][n][i]
                if attempt(c):
                    changed = True
                    break
    return best


# ------------------------------------------------------------------ run

CORPUS = [
    # descending with ties (the C11 catch: reverse must not reverse equal elements)
    {"fresh": {"F0": [["r0", 1, "x", "x"], ["r1", 1, "y", "x"], ["r2", 0, "z", "x"], ["r3", 1, "z", "y"]]},
     "ops": [{"type": "sort", "sources": ["F0"], "new_name": "D0", "expr": "a", "order": "descending"},
             {"type": "sort", "sources": ["D0"], "new_name": "D1", "expr": "t", "order": "Descending"}], "flow": True},
    # concat with duplicate ids across sources, then filter of the derived sheet, source re-used
    {"fresh": {"F0": [["r0", 0, "x", "y"], ["r1", 1, "y", "y"]], "F1": [["r1", 2, "z", "z"], ["r2", 2, "x", "x"], ["r0", 2, "y", "x"]]},
     "ops": [{"type": "", "sources": ["F0"], "new_name": "", "expr": "", "order": ""},
             {"type": "concat", "sources": ["F0", "F1"], "new_name": "D0", "expr": "", "order": ""},
             {"type": "filter", "sources": ["D0"], "new_name": "D1", "expr": "a", "order": ""},
             {"type": "filter", "sources": ["D0"], "new_name": "D2", "expr": "a == 2", "order": ""},
             {"type": "sort", "sources": ["F0"], "new_name": "D3", "expr": "-a", "order": ""},
             {"type": "concat", "sources": ["D3", "F0", "D2"], "new_name": "F1", "expr": "", "order": ""}], "flow": True},
    # duplicate id inside one fresh sheet; empty sheet
    {"fresh": {"F0": [["r0", 0, "x", "y"], ["r1", 1, "y", "y"], ["r0", 2, "z", "z"]], "F1": []},
     "ops": [{"type": "sort", "sources": ["F0"], "new_name": "D0", "expr": "s", "order": "desc"},
             {"type": "concat", "sources": ["F1", "D0", "F1"], "new_name": "D1", "expr": "", "order": ""},
             {"type": "sort", "sources": ["F1"], "new_name": "D2", "expr": "nope", "order": ""}], "flow": False},
    # columns named like Python built-ins (age bands: min / max, an id): in the expression they are the row's fields
    {"model": "GenRowMM",
     "fresh": {"F0": [["r0", 0, "x", "y", 0, 1, "i"], ["r1", 1, "y", "y", 2, 12, "c"], ["r2", 2, "z", "x", 13, 17, "t"],
                      ["r3", 0, "x", "x", 18, 64, "a"], ["r4", 1, "z", "z", 65, 120, "s"], ["r5", 2, "y", "x", 0, 120, "any"]]},
     "ops": [{"type": "", "sources": ["F0"], "new_name": "", "expr": "", "order": ""},
             {"type": "filter", "sources": ["F0"], "new_name": "D0", "expr": "min == 0", "order": ""},
             {"type": "filter", "sources": ["F0"], "new_name": "D1", "expr": "max < 18", "order": ""},
             {"type": "sort", "sources": ["F0"], "new_name": "D2", "expr": "max", "order": "descending"},
             {"type": "sort", "sources": ["D2"], "new_name": "D3", "expr": "min - max", "order": ""},
             {"type": "filter", "sources": ["D3"], "new_name": "D4", "expr": "len(id) == 1 and abs(min - max) > 10", "order": ""}], "flow": True},
    {"model": "GenRowLS",
     "fresh": {"F0": [["r0", 0, "x", "y", 2, 1, "x", "y"], ["r1", 1, "y", "y", 0, 2, "y", "y"], ["r2", 2, "z", "x", 1, 0, "x", "z"]],
               "F1": [["r2", 2, "z", "x", 2, 2, "z", "z"], ["r3", 0, "x", "x", 1, 1, "x", "x"]]},
     "ops": [{"type": "concat", "sources": ["F0", "F1"], "new_name": "D0", "expr": "", "order": ""},
             {"type": "sort", "sources": ["D0"], "new_name": "D1", "expr": "len", "order": "Descending"},
             {"type": "filter", "sources": ["D1"], "new_name": "D2", "expr": "filter == 'x' and max(sum, len) > 1", "order": ""},
             {"type": "sort", "sources": ["D0"], "new_name": "D3", "expr": "type + filter", "order": ""},
             {"type": "filter", "sources": ["D0"], "new_name": "D4", "expr": "sum", "order": ""}], "flow": False},
]


def run(ck: core.Check):
    ck.lean = core.lean_step("C11", thorough=(ck.tier == "thorough"))
    ck.rule = (
        "a case = 1-4 reader sheets (0..12 rows, ids from a pool of 3-10 so sources share ids, values from 3 (70%) "
        "or 9-12 (30%) choices so sort keys tie) + a chain of 1-6 data_sheet rows (plain/implicit concat, concat, "
        "filter, sort asc/desc) whose sources are reader sheets or earlier results and whose target is a new name, "
        "an earlier name (overwrite) or a reader sheet's name (shadow); 25% of the cases use a data model with extra columns "
        "named like Python built-ins and expressions that read them (65% of their filter/sort rows); every prefix of the chain is run through the "
        "real parser; non-trivial = every generated case (each has ≥1 operation); distinct = distinct (sheets, chain)"
    )
    ck.assumptions = [
        "CPython eval / sorted(reverse=…) / OrderedDict.update behave as modelled (exercised by the tie on every case)",
        "row content is observed through pydantic .dict(); the expression value of a row is computed by the harness with the same eval call and shipped to the model",
        "one explicit data model for all sheets of a case; mixed int/str sort keys (TypeError) and calls of a name that is a column of the row (TypeError) are not generated",
    ]
    ck.partial_gap = []
    if not core.DRIVER_BIN.exists():
        raise core.Infra("driver not built:\n" + ck.lean.log[-2000:])
    import rpft.parsers.creation.contentindexparser  # noqa: F401

    _ensure_module()
    quick = ck.tier == "quick"
    try:
        _run(ck, quick)
    finally:
        if _MOD["dir"]:
            shutil.rmtree(_MOD["dir"], ignore_errors=True)


def _fold(ck, results, kind):
    for r in results:
        ck.count(kind + ".cases", r["cases"])
        ck.count(kind + ".parser_runs", r["n"])
        ck.evaluations += r["cases"]
        ck.nontrivial.update(r["keys"])
        for s, c in r["strata"].items():
            ck.count(s, c)
        for t in r["ties"]:
            ck.tie_break(f"{kind}: model and real ContentIndexParser differ", t)
        for _ in range(r.get("nties", 0) - len(r["ties"])):
            ck.count("tie_break")
        for v in r["viol"]:
            ck.violation(v["what"], v)
        if r["sample"] is not None and len(ck.samples) < 4:
            ck.samples.append(r["sample"])


REQUIRED_STRATA = [
    "op.plain", "op.concat", "op.filter", "op.sort", "source.fresh", "source.registered", "source.derived",
    "concat.duplicate_ids_across_sources", "sort.ties_asc", "sort.ties_desc", "sort.str_key", "sort.int_key",
    "filter.truthy_non_True_dropped", "filter.proper_subset", "target.overwrites_registered",
    "target.shadows_reader_sheet", "fresh.duplicate_ids_within_sheet", "result.empty", "bulk_flows",
    "save_data_sheets_csv_files", "chain_len.1", "chain_len.6",
    "columns.named_like_builtins", "filter.reads_builtin_named_column", "sort.reads_builtin_named_column",
    "expr.calls_a_builtin_and_reads_a_builtin_named_column",
]


def _known_finding_stream(ck):
    """F-C11-a, regenerated deterministically: data sheets with inferred models (no data-model
    module).  Reported as known only if trigger AND discrepancy pattern match; fixed code passes
    silently; anything else is a violation."""
    from rpft.parsers.creation.contentindexparser import ContentIndexParser

    case = {"fresh": {"F0": [["r0", 1, "x", "y"], ["r1", 0, "y", "y"]]},
            "ops": [{"type": "", "sources": ["F0"], "new_name": "", "expr": "", "order": ""},
                    {"type": "sort", "sources": ["F0"], "new_name": "D0", "expr": "a", "order": ""}]}
    wb = workbook(case, 2)
    wb["content_index"] = (wb["content_index"][0], [[c if i != 3 else "" for i, c in enumerate(r)] for r in wb["content_index"][1]])
    lg = logging.getLogger("main")
    old = lg.level
    lg.setLevel(logging.CRITICAL + 1)
    try:
        p = ContentIndexParser(_reader("mem", wb), None)
        rows = {n: [content(r.dict()) for r in p.get_data_sheet_rows(n).values()] for n in p.data_sheets}
        want = {"F0": [("r0", "1", "x", "y"), ("r1", "0", "y", "y")], "D0": [("r1", "0", "y", "y"), ("r0", "1", "x", "y")]}
        ck.count("known_finding_stream.cases")
        if rows != want:
            ck.violation("inferred-model data sheets: registered rows differ from the statement's reading", {"case": case, "got": rows, "expected": want, "data_model": None})
            return
        try:
            d = p.data_sheets_to_dict()
        except AttributeError as e:
            if "'NoneType' object has no attribute '__name__'" in str(e):
                ck.known("F-C11-a", "save_data_sheets fails with AttributeError when no data-model module is given (inferred models)", {"case": case, "exception": repr(e)})
            else:
                ck.violation("data_sheets_to_dict raised on inferred-model data sheets", {"case": case, "exception": repr(e)})
            return
        got = {n: [content(r) for r in sh["rows"]] for n, sh in d["sheets"].items()}
        if got != want or list(d["sheets"]) != list(want):
            ck.violation("save_data_sheets (inferred models) does not list exactly the registered rows", {"case": case, "got": got, "expected": want})
    finally:
        lg.setLevel(old)


def _run(ck, quick):
    # corpus: fixed boundary cases first
    drv = core.Driver()
    tmp = tempfile.mkdtemp(prefix="c11c_")
    try:
        for c in CORPUS:
            c = json.loads(json.dumps(c))
            if c["ops"][-1]["expr"] == "nope":
                c["malformed"] = "bad_expr"
            req, table = model_request(c)
            ans = drv.results([req])[0]
            r = run_case(c, ans, table, tmp, do_files=True)
            ck.case(json.dumps(c, sort_keys=True), sample=None)
            ck.count("corpus.cases")
            for t in r["ties"]:
                ck.tie_break("corpus: model and real ContentIndexParser differ", t)
            for v in r["viol"]:
                ck.violation(v["what"], v)
            for s in r["strata"]:
                ck.count(s)
    finally:
        shutil.rmtree(tmp, ignore_errors=True)

    _known_finding_stream(ck)

    n_valid = 12000 if quick else 120000
    n_bad = 1200 if quick else 12000
    seeds = [ck.rng.getrandbits(48) for _ in range(n_valid)]
    _fold(ck, par.pmap(worker, [(s, False, 10) for s in core.shard(seeds, par.NPROC * 4)]), "chains")
    bseeds = [ck.rng.getrandbits(48) for _ in range(n_bad)]
    _fold(ck, par.pmap(worker, [(s, True, 0) for s in core.shard(bseeds, par.NPROC)]), "malformed")

    missing = [s for s in REQUIRED_STRATA if not ck.strata.get(s)]
    if missing:
        raise core.Infra(f"generator self-check: strata never hit: {missing}")

    if (ck.tie_breaks or not ck.lean.ok) and not ck.violations and quick:
        # obligation broken: failing-input search = more of the direct oracle on the real code
        ck.search_ran = True
        seeds = [ck.rng.getrandbits(48) for _ in range(16000)]
        _fold(ck, par.pmap(worker, [(s, False, 10) for s in core.shard(seeds, par.NPROC * 4)]), "search")

    if ck.violations:
        # minimise the smallest one for the replay
        ck.violations.sort(key=lambda x: len(json.dumps(x["replay"], default=str)))
        try:
            v = ck.violations[0]["replay"]
            if "case" in v and "malformed" not in v["case"]:
                small = shrink(v)
                ck.violations.insert(0, {"what": small["what"], "replay": small})
        except Exception as e:  # noqa: BLE001
            ck.notes.append(f"shrink failed: {e!r}")


def replay(path):
    rec = json.load(open(path))
    print(json.dumps(rec, indent=1, ensure_ascii=False)[:6000])
    rp = rec.get("replay", {})
    case = rp.get("case")
    if not case and rec.get("smallest_disagreements"):
        case = rec["smallest_disagreements"][0]["detail"].get("case")
    if case:
        _ensure_module()
        try:
            for k in range(1, len(case["ops"]) + 1):
                obs = real_run(case, k)
                print(f"--- real ContentIndexParser after {k} operation(s): {case['ops'][k-1]}")
                if obs["exc"]:
                    print("   exception:", obs.get("exc_text"))
                    break
                for n, rows in obs["data"]:
                    print("   ", n, [content(d, columns(case)) for d in rows])
            v = still_fails(case) if "malformed" not in case else None
            print("direct oracle:", v["what"] if v else "no failure")
            return 1 if v else 0
        finally:
            shutil.rmtree(_MOD["dir"], ignore_errors=True)
    return 0
