"""C02 — the compiled flow has exactly the control flow the sheet rows describe.

A  proof: Rpft.Props.C02 (validCert_sound, flows_equiv_of_cert) — equal traces for ALL answer streams.
T3 the Lean driver builds the reference interpretation `refFlow` of the rows (parsed by the
   real RowParser), searches a bisimulation certificate against the REAL compiled flow and
   validates it with the verified checker.  A rejected pair = the real compiler's output differs
   from the meaning of the rows on a concrete answer sequence (the replay).
"""
from __future__ import annotations

import json
import random

from .. import compile_tie, core, par
from ..flows import canon_flow, compile_flow_sheet, rows_to_csv
from ..gen import sheets as G

MANIFEST = dict(
    text="Proof: Lean theorems validCert_sound / flows_equiv_of_cert (an accepted bisimulation certificate implies equal observation traces for EVERY infinite sequence of contact replies, field/group values, random draws and sub-flow/webhook/airtime outcomes, under every interpretation of the tests). The verified checker is run by the driver on every generated core sheet between the REAL compiler's output and the reference interpretation refFlow (the statement of C02 made executable in Lean; reference_flow_closed: for EVERY sheet it is a closed flow, so no reference path ends for a structural reason). Universal over sheets: proved for ALL sheets of the fragment CoreSheet.inFragment (every row type of a core sheet except insert_as_block: action rows left unconditionally or conditionally — the compiler's router node behind the action node, two compiled nodes for one reference node —, wait_for_response with or without timeout, split_by_value, split_by_group, split_random, start_new_flow / call_webhook / transfer_airtime, go_to / hard_exit / loose_exit, no_op rows — junctions entered from other rows and left either by one unconditional edge (the compiler creates NO node and re-connects the sources: node elision against the reference's empty node) or by conditional edges first, then unconditional ones (a router node on both sides; the other order is the known finding F-C02-b, kept outside with a kernel-checked witness that reproduces it), under the schedule conditions noopShape / noopSched / firstOk, which every sheet the harness calls noop_stable satisfies —, action rows MERGED into one node by a common node name (a chain of reference nodes, one per row, against ONE compiled node performing their actions in order: node fusion with an offset into the node's actions; the compiler is followed against the fused reading pass1F, tied to the reference reading by the checked clause chainsOk: every row of a chain but the last is left by exactly one unconditional edge into the next, the last row's out-edges are the node's, nothing else enters a merged row — F-C02-d, F-C02-e and the forced clauses with kernel-checked witnesses) —, with any number of conditional or unconditional edges: chains, trees, joins, last-edge-wins defaults, tests in row order, No Response branches, buckets, fixed outcomes, explicit category names; rows standing for themselves — no given node identifier; a node name on action rows only —; under the single-meaning conditions edgeOk / distinctTests / sameVars / freshNames, each with a kernel-checked negative witness; of the no_op conditions the forced ones have witnesses, four shapes the proof's schedule does not cover are listed as not shown to be forced) with the Lean compiler model (tied to the real parser by the exact comparison of C01) in place of the real compiler — C02_fragment / compile_refines_reference: if the model compiles the sheet and the reference exists, the traces agree for every answer stream (lock-step simulation of the compiler machine and the reference's pass 1 — for no_op rows against a schedule of the edges in the order in which the compiler's lazy junctions let them take effect —; then a bisimulation up to node splitting, node elision and node fusion between the index-resolved abstractions of the two flows, Flow.run_fuse); the two inputs of the theorem (CoreSheet.toEvent / toRRow of one parsed row) are cross-checked against what the harness sends on every explored sheet. Outside the fragment (C02_fragment_full visible) the claim is decided per explored sheet.",
    ref="§5 C02",
    note="Trusts: Lean kernel; certificate SEARCH is untrusted (only the validated certificate counts); harness canonicaliser of actions (invented uuids dropped) and the row→action/operand reference table (harness/gen/sheets.py reference_row); real RowParser used to parse the CSV rows for both sides. Domain: WFcore ∧ NoopStable sheets (DESIGN §5 C02 notes); known findings F-C02-b (no_op left unconditionally first), F-C02-d (entering a row merged by node name), F-C02-e (action row merged into a router node) outside it, each with a deterministic stream.",
    technique="Lean 4 proof of bisimulation-certificate soundness + verified checker run on real compiler output vs executable reference semantics",
)

LVL = {"catNames": False, "resultName": True}


class FragmentGen(G.SheetGen):
    """Sheets inside the fragment of the universal theorem (Lean: CoreSheet.inFragment, Props/C02.C02_fragment):
    action rows, wait_for_response / split_by_value / split_by_group rows, start_new_flow / call_webhook /
    transfer_airtime / split_random rows, go_to and hard/loose exit rows, no_op rows (junctions: entered from rows that
    are not no_op rows and left at once, conditional edges first, while their sources receive no other edge), chains of
    action rows merged into one node by a common node name (each behind the row before it); the conditions leaving one action row name the
    same variable (or none), conditions leaving a wait row name no variable, explicit category names are new when used, tests
    leaving one row are distinct.  Whether a sheet really is in the fragment is decided by the Lean predicate
    (driver op core.views), not by this generator."""

    FRAG_ROUTERS = ["wait_for_response", "wait_for_response", "split_by_value", "split_by_group",
                    "start_new_flow", "call_webhook", "transfer_airtime", "split_random"]

    def _edge_for(self, src):
        if src["type"] == "split_random":
            # named buckets (by value or by category name; a repeated name redirects the bucket) and unnamed ones
            r = self.rng.random()
            if r < 0.25:
                return {"value": "", "variable": "", "type": "", "name": ""}
            if r < 0.45:
                return {"value": self.rng.choice(["x", "y"]), "variable": "", "type": "", "name": self.rng.choice(["A", "B", "E"])}
        return super()._edge_for(src)

    def _chain(self):
        """rows merged into ONE node by their node name: an action row, then 1–3 action rows carrying its node name,
        each with exactly one unconditional edge from the row before it (explicit `from`); the rows before the last one
        of the chain receive no other out-edge (closed), nothing else enters a merged row"""
        rng = self.rng
        self._node_row(rng.choice(G.ACTION_TYPES))
        name = "node %d" % len(self.rows)
        self.rows[-1]["node_name"] = name
        blank = {"value": "", "variable": "", "type": "", "name": ""}
        for _ in range(rng.randint(1, 3)):
            if len(self.rows) >= self.n:
                break
            prev = self.nodes[-1]
            if prev["id"] == "start":
                break       # `from = start` means "nothing leads here" even when a row is called start: no explicit edge from it
            saved = self._edges
            self._edges = lambda allow_blank_from=True, prev=prev: [(prev["id"], dict(blank))]
            try:
                self._node_row(rng.choice(G.ACTION_TYPES))
            finally:
                self._edges = saved
            self.rows[-1]["node_name"] = name
            prev["closed"] = True
            self.nodes[-1]["merged"] = True

    def build(self):
        rng = self.rng
        self._last_group = None
        while len(self.rows) < self.n:
            r = rng.random()
            if self.nodes and r < 0.1:
                self._chain()
            elif not self.nodes or r < 0.5:
                self._node_row(rng.choice(G.ACTION_TYPES))
            elif r < 0.78:
                self._node_row(rng.choice(self.FRAG_ROUTERS))
            elif r < 0.88:
                self._goto_row()
            elif r < 0.93:
                self._exit_row()
            else:
                # a junction: entered, then left at once (conditional edges first) while its sources rest
                self._noop_row(constrained=True)
        return self.rows


def _parser():
    from rpft.parsers.common.cellparser import CellParser
    from rpft.parsers.common.rowparser import RowParser
    from rpft.parsers.creation.flowrowmodel import FlowRowModel

    return RowParser(FlowRowModel, CellParser())


def evaluate(rp, rows, want_noop_stable=True):
    """real compile + reference rows; returns (status, request or None, info)"""
    r = compile_flow_sheet(G.HEADERS, rows)
    if not r.ok:
        return "rejected", None, {"exc": r.exc, "errors": r.errors[:3]}
    parsed = [rp.parse_row({h: row.get(h, "") for h in G.HEADERS}) for row in rows]
    if want_noop_stable and not G.noop_stable(parsed):
        return "unstable", None, {}
    ref = [G.reference_row(p) for p in parsed]
    req = {"op": "flow.refcheck", "rows": ref, "flow": canon_flow(r.doc["flows"][0]), "lvl": LVL}
    # the two views of ONE parsed row: what the compiler model reads (row_json) and what the reference reads;
    # the Lean views CoreSheet.toEvent / toRRow (the inputs of the universal theorem) must be exactly these
    views = {"op": "core.views", "rows": [{"row": compile_tie.row_json(p), "ref": rr} for p, rr in zip(parsed, ref)]}
    return "ok", req, {"warnings": len(r.warnings), "views": views}


def worker(args):
    seed, n, maxrows = args
    rng = random.Random(seed)
    rp = _parser()
    drv = core.Driver()
    reqs, sheets, vreqs = [], [], []
    stats = {"views_agree": 0, "in_proved_fragment": 0, "fragment_stream": 0, "generated": 0, "rejected_by_compiler": 0, "noop_unstable": 0, "with_noop": 0, "with_merged_rows": 0, "with_goto": 0,
             "with_router_row": 0, "with_implicit_router": 0, "rows": 0}
    for _ in range(n):
        noop = rng.random() < 0.4
        if rng.random() < 0.25:
            # stream inside the fragment of the universal theorem C02_fragment
            rows = FragmentGen(rng, rng.randint(2, maxrows)).build()
            stats["fragment_stream"] += 1
        else:
            rows = G.gen_core_sheet(rng, rng.randint(2, maxrows), noop=noop)
        stats["generated"] += 1
        status, req, info = evaluate(rp, rows)
        if status == "rejected":
            stats["rejected_by_compiler"] += 1
            continue
        if status == "unstable":
            stats["noop_unstable"] += 1
            continue
        types = [r["type"] for r in rows]
        stats["rows"] += len(rows)
        stats["with_noop"] += "no_op" in types
        stats["with_merged_rows"] += any(r.get("node_name") for r in rows)
        stats["with_goto"] += "go_to" in types
        stats["with_router_row"] += any(t in G.ROUTER_TYPES for t in types)
        stats["with_implicit_router"] += any(r["type"] in G.ACTION_TYPES for r in rows) and any(r.get("condition") for r in rows)
        reqs.append(req)
        vreqs.append(info["views"])
        sheets.append(rows)
    answers = drv.results(reqs)
    vanswers = drv.results(vreqs)
    bad = []
    for rows, va in zip(sheets, vanswers):
        if "__error__" in va:
            bad.append({"kind": "driver", "rows": rows, "answer": va})
        elif not va.get("agree"):
            bad.append({"kind": "views", "rows": rows, "answer": va})
        else:
            stats["views_agree"] += 1
            stats["in_proved_fragment"] += bool(va.get("inFragment"))
    keys = []
    pairs = 0
    for rows, a in zip(sheets, answers):
        keys.append(rows_to_csv(G.HEADERS, rows))
        if "__error__" in a:
            bad.append({"kind": "driver", "rows": rows, "answer": a})
        elif not a.get("wf", False):
            bad.append({"kind": "not-wf", "rows": rows, "answer": a})
        elif not a.get("equiv"):
            bad.append({"kind": "nonequiv", "rows": rows, "answer": a})
        else:
            pairs += a.get("pairs", 0)
            if not a.get("refClosed", False):
                bad.append({"kind": "ref-not-closed", "rows": rows, "answer": a})
    return {"stats": stats, "bad": bad[:10], "nbad": len(bad), "keys": keys, "pairs": pairs,
            "sample": sheets[0] if sheets else None}


def shrink(rp, drv, rows):
    """delta-debug rows while the sheet still compiles, stays in the domain and is non-equivalent"""
    def failing(rs):
        status, req, _ = evaluate(rp, rs)
        if status != "ok":
            return None
        a = drv.results([req])[0]
        if a.get("wf") and not a.get("equiv") and "__error__" not in a:
            return a
        return None

    cur = list(rows)
    ans = failing(cur)
    changed = True
    while changed and len(cur) > 1:
        changed = False
        for i in range(len(cur) - 1, -1, -1):
            cand = cur[:i] + cur[i + 1:]
            a = failing(cand)
            if a is not None:
                cur, ans, changed = cand, a, True
                break
    return cur, ans


F_C02_B = [
    {"row_id": "r1", "type": "send_message", "from": "start", "message_text": "hello"},
    {"row_id": "n", "type": "no_op", "from": "r1"},
    {"row_id": "r2", "type": "send_message", "from": "n", "message_text": "unconditional target"},
    {"row_id": "r3", "type": "send_message", "from": "n", "condition": "yes", "condition_var": "@fields.x", "message_text": "conditional target"},
]


# F-C02-d: a go_to into a row that was merged into an existing node (node_name) enters the node at its first action
F_C02_D = [
    {"row_id": "a", "type": "send_message", "from": "start", "message_text": "first action", "node_name": "X"},
    {"row_id": "b", "type": "send_message", "from": "a", "message_text": "second action", "node_name": "X"},
    {"row_id": "w", "type": "wait_for_response", "from": "b"},
    {"row_id": "", "type": "go_to", "from": "w", "condition": "again", "message_text": "b"},
]

# F-C02-e: an action row merged (node_name) into a ROUTER node: its action runs before the decision
F_C02_E = [
    {"row_id": "a", "type": "send_message", "from": "start", "message_text": "hello"},
    {"row_id": "w", "type": "wait_for_response", "from": "a", "node_name": "X"},
    {"row_id": "b", "type": "send_message", "from": "w", "node_name": "X", "message_text": "after the wait"},
    {"row_id": "c", "type": "send_message", "from": "w", "condition": "yes", "message_text": "on yes"},
]


def _act_text(o):
    """the text of an observed send_msg action, else None"""
    if not isinstance(o, dict) or "act" not in o:
        return None
    try:
        return json.loads(o["act"]).get("text")
    except Exception:
        return None


def _known_stream(ck, rp, drv, fid, rows, what, pattern_holds):
    """deterministic known-finding stream: the rows are the trigger; the finding is attributed only when the
    discrepancy the REAL compiler shows is the recorded one — any other discrepancy is a violation"""
    status, req, _ = evaluate(rp, rows, want_noop_stable=False)
    if status == "ok":
        a = drv.results([req])[0]
        if "__error__" in a or not a.get("wf"):
            raise core.Infra(f"{fid} stream: driver problem: {json.dumps(a)[:400]}")
        if not a.get("equiv"):
            if pattern_holds(a):
                ck.known(fid, what, {"csv": rows_to_csv(G.HEADERS, rows), "path": a.get("path"),
                                     "reference_then": a.get("a"), "compiled_then": a.get("b")})
            else:
                ck.violation(f"{fid} trigger: the compiled flow differs from the meaning of the rows in ANOTHER way than the recorded finding",
                             {"csv": rows_to_csv(G.HEADERS, rows), "rows": rows, "distinguishing_choice_sequence": a.get("path"),
                              "reference_trace": a.get("traceA"), "compiled_trace": a.get("traceB"),
                              "reference_then": a.get("a"), "compiled_then": a.get("b")})
    ck.count("known_finding_stream", 1)


def run(ck: core.Check):
    ck.lean = core.lean_step("C02", thorough=(ck.tier == "thorough"))
    if not core.DRIVER_BIN.exists():
        raise core.Infra("driver not built:\n" + ck.lean.log[-2000:])
    quick = ck.tier == "quick"
    ck.rule = (
        "random well-formed core sheets (action rows, wait/split/random/sub-flow/webhook/airtime rows, go_to incl. "
        "cycles and multi-target, hard/loose exits, no_op under NoopStable; joins, multi-edge rows, explicit and blank "
        "`from`) written as CSV cells, parsed by the real RowParser and compiled by the real FlowParser; each case is one "
        "sheet; distinct = distinct CSV text; every counted case is non-trivial (≥ 2 rows, compiled, certificate validated)"
    )
    ck.assumptions = [
        "row → action content / operand reference table (harness) is the documented meaning of each row type",
        "equivalence is at observation level {operand, ordered tests with arguments, wait/timeout, result name}; category names are not part of C02's statement",
    ]
    ck.partial_gap = [
        "C02_full (all sheets) is proved universally only on the fragment CoreSheet.inFragment (C02_fragment, with the Lean compiler model — tied to the real parser in C01 — in place of the real compiler; a quarter of the explored sheets is generated inside it — FragmentGen — and the evidence counts how many explored sheets lie inside it as decided by the Lean predicate: in_proved_fragment); outside it (C02_fragment_full: given node identifiers — _nodeId —, node names on rows that are not action rows, chains of merged rows outside the checked clause chainsOk, blocks, and no_op rows left by several unconditional edges only / into an exit row / entered from a no_op row / never left) it is decided per explored sheet by the verified certificate checker on the real output",
        "reference_flow_closed IS proved for every sheet (the reference interpretation is always a closed flow); the per-sheet closedB run on the reference flow is kept as a cross-check of the driver",
    ]
    rp = _parser()
    drv = core.Driver()

    # known-finding stream (deterministic): F-C02-b
    status, req, _ = evaluate(rp, F_C02_B, want_noop_stable=False)
    if status == "ok":
        a = drv.results([req])[0]
        if a.get("wf") and not a.get("equiv"):
            ck.known("F-C02-b", "no_op left first unconditionally, then conditionally: the unconditional target is lost (opposite row order keeps it)",
                     {"csv": rows_to_csv(G.HEADERS, F_C02_B), "path": a.get("path")})
    ck.count("known_finding_stream", 1)
    # F-C02-d: after "again" the rows continue at the merged row's own action, the compiled flow replays the first one
    _known_stream(ck, rp, drv, "F-C02-d", F_C02_D,
                  "a go_to (or edge) into a row merged by node name enters the merged node at its first action: earlier actions are replayed",
                  lambda a: a.get("path") == [0, 0, 0] and _act_text(a.get("a")) == "second action"
                  and _act_text(a.get("b")) == "first action")
    # F-C02-e: the rows wait after "hello", the compiled flow performs the merged action first
    _known_stream(ck, rp, drv, "F-C02-e", F_C02_E,
                  "an action row merged by node name into a router node: its action runs before the wait/split instead of after it",
                  lambda a: a.get("path") == [0] and isinstance(a.get("a"), dict) and "ask" in a["a"]
                  and _act_text(a.get("b")) == "after the wait")

    n_total = 1200 if quick else 24000
    maxrows = 18 if quick else 45
    nshards = par.NPROC * (1 if quick else 4)
    per = n_total // nshards
    jobs = [(ck.rng.randrange(1 << 60), per, maxrows) for _ in range(nshards)]
    results = par.pmap(worker, jobs)
    total_pairs = 0
    for r in results:
        for k, v in r["stats"].items():
            ck.count(k, v)
        total_pairs += r["pairs"]
        for key in r["keys"]:
            ck.case(key, nontrivial=True)
        if r["sample"] and len(ck.samples) < 3:
            ck.samples.append(rows_to_csv(G.HEADERS, r["sample"]))
        for b in r["bad"]:
            if b["kind"] == "nonequiv":
                if len(ck.violations) >= 2:
                    ck.violation("compiled flow is not behaviourally equivalent to the meaning of the rows (not shrunk)",
                                 {"csv": rows_to_csv(G.HEADERS, b["rows"]) + "#" * 2000, "rows": b["rows"], "answer": b["answer"]})
                    continue
                rows, ans = shrink(rp, drv, b["rows"])
                ck.violation(
                    "compiled flow is not behaviourally equivalent to the meaning of the rows",
                    {"csv": rows_to_csv(G.HEADERS, rows), "rows": rows, "distinguishing_choice_sequence": (ans or b["answer"]).get("path"),
                     "reference_trace": (ans or b["answer"]).get("traceA"), "compiled_trace": (ans or b["answer"]).get("traceB"),
                     "reference_then": (ans or b["answer"]).get("a"), "compiled_then": (ans or b["answer"]).get("b")},
                )
            elif b["kind"] == "views":
                ck.tie_break("Lean views CoreSheet.toRRow/toEvent differ from the inputs the harness builds from the same parsed row",
                             {"csv": rows_to_csv(G.HEADERS, b["rows"]), "answer": b["answer"]})
            elif b["kind"] == "ref-not-closed":
                ck.tie_break("reference flow is not closed (refFlow_closed fails on this sheet)", {"csv": rows_to_csv(G.HEADERS, b["rows"])})
            else:
                raise core.Infra(f"generator/driver problem: {b['kind']}: {json.dumps(b['answer'])[:500]}\n{rows_to_csv(G.HEADERS, b['rows'])}")
    ck.extra["certificate_pairs_validated"] = total_pairs
    ck.extra["traces_validated_against_impl"] = len(ck.nontrivial)
    # strata self-check: a run that never saw a go_to / no_op / implicit router is under-testing
    for need in ("with_noop", "with_merged_rows", "with_goto", "with_router_row", "with_implicit_router", "in_proved_fragment"):
        if ck.strata.get(need, 0) < 5:
            raise core.Infra(f"generator stratum {need} under-represented: {ck.strata.get(need, 0)}")


def replay(path):
    rec = json.load(open(path))
    print(json.dumps(rec, indent=1, ensure_ascii=False)[:6000])
    rp = _parser()
    rows = rec.get("replay", {}).get("rows")
    if rows:
        status, req, info = evaluate(rp, rows)
        print("status:", status, info)
        if req:
            print(json.dumps(core.Driver().results([req])[0], indent=1)[:3000])
    return 0
