"""C03 — loops, blocks, include_if and inserted blocks are pure sugar over plain rows.

Every generated sugared sheet is compiled by the REAL compiler next to its desugared twin
(harness/gen/sugar.py `desugar` = the statement of C03 made executable); the two outputs must be
behaviourally equivalent for all contact input sequences — decided by the Lean-verified
certificate checker at the full observation level (exact canonical equality is recorded too).
Inserted blocks: the twin is a block holding the template's rows instantiated with its data row
and arguments (`insert_twin`).
"""
from __future__ import annotations

import json
import random

from .. import compile_tie, core, flat_tie, par
from ..flows import canon_flow, compile_flow_sheet, compile_index, rename_uuids_by_first_occurrence, rows_to_csv
from ..gen import sheets as G
from ..gen import sugar as S

MANIFEST = dict(
    text="Proof: (1) Lean theorem sugar_equiv_of_cert (validated bisimulation certificate ⇒ equal traces for every contact input sequence, full observation level) applied by the driver to the REAL compiler's output for each sugared sheet and for its desugared twin; (2) Lean model of the parser's block structure (Rpft/Sugar.lean) with events_desugar: for every sheet tree and context the parser performs the same row events on a sheet and on its desugared form (loops unrolled in order with loop/index variables bound, false include_if rows and blocks dropped without being evaluated, loop variables gone after end_for, nesting composes); (3) the block clause on the Lean compiler model for all machine states: block_edge_group (an edge naming a block changes nothing but node contents and connects exactly the nodes the NodeGroup recursion reaches), block_edge_frame / block_edge_connects_reach (connected and hard exits keep their destination, loose exits of reached nodes lead to the edge's destination), block_edge_inside and the kernel-checked F-C03-a witness block_edge_reaches_outside. (4) Flat sheets (Rpft/SugarFlat.lean, Props/C03_Flat.lean): the real parser works on the flat row list with an iterator, bookmarks by depth and a mutable context; that machine is modelled line by line (runFlat) and proved equal, for EVERY flat sheet, context and interface satisfying FlatLaws (row kinds not templated, loop and index variable distinct, the context is a dictionary), to the tree reading of the sheet's scan tree (flat_eq_scan_tree: same events, same order, same first error also on ill-nested sheets, final context = initial context, the model's fuel never runs out), hence to Sugar.evItems of the parsed tree on well-nested quiet sheets (flat_eq_tree) and to events_desugar on flat sheets (flat_events_desugar); parseTree (the Lean tree_of_rows) and flatten are inverse (parse_flatten, flatten_parse) and parseTree agrees with the C15 block machine (parse_fault_is_cli_fault). (5) on the Lean compiler model (Rpft/Compile.lean, tied to the real FlowParser in C01), Props/C03_Insert.lean: for ALL sheets around an insert_as_block row and all templates that start with one start-attached row creating a node (no other start row, no _nodeId in the template, the rest of the sheet not naming a template row) the row and its twin begin_block + template rows + end_block compile to the same flow up to an injective renaming of identifiers (simulation of the two runs of the compiler machine), hence to equal traces at every observation level (insert_trace_rename: traces are invariant under injective renaming) — both when the rest of the sheet does not continue from the block (insert_twin_traces_partial) and when it DOES (blank from right after the block, or naming it, any number of rows, the insert row at any block depth: insert_twin_continues_traces_partial under the run-level condition InsertTight that no row leading into the block has an unconnected exit left, insert_twin_follows_traces_partial under the event-level condition that the insert row directly follows a plain action row it is attached to unconditionally = the shape of the tie's twin workbooks, repeated insertions included; no loose_exit row afterwards); hard exits of the template stay exits without destination. Tie: real compiler on generated sugared sheets vs twins (nesting ≤ 3, 0..3 iterations, string/range/native lists, index variables, include_if literals and expressions, excluded blocks with unevaluable content, inserted templates with data rows and arguments).",
    ref="§5 C03",
    note="Trusts: Lean kernel; certificate search untrusted; the harness desugarer uses the repo's own template engine to substitute loop variables (the meaning of {{v}} is not C03's subject); NodeGroup exit semantics: proved on the Lean compiler model (tied to the real parser by the exact comparison of C01) and exercised on the real code by the with/without-edge oracle. Known findings: F-C03-a (edge naming a block also connects exits of rows leading into it).",
    technique="Lean 4 proof (certificate soundness; structural induction on the block tree) + metamorphic sugared-vs-desugared check on the real compiler",
)

FULL = {"catNames": True, "resultName": True}


def compare(drv, rows, twin):
    """('equal'|'equiv'|'both_rejected'|'violation', detail)"""
    r1 = compile_flow_sheet(G.HEADERS, rows)
    r2 = compile_flow_sheet(G.HEADERS, twin)
    if not r1.ok and not r2.ok:
        return "both_rejected", {"sugared": (r1.exc, r1.errors[:1]), "twin": (r2.exc, r2.errors[:1])}
    if r1.ok != r2.ok:
        side = "the desugared twin compiles but the sugared sheet is rejected" if r2.ok else "the sugared sheet compiles but its desugared twin is rejected"
        return "violation", {"what": side, "sugared_error": [r1.exc, r1.errors[:2]], "twin_error": [r2.exc, r2.errors[:2]]}
    a, _ = rename_uuids_by_first_occurrence(r1.doc)
    b, _ = rename_uuids_by_first_occurrence(r2.doc)
    f1, f2 = r1.doc["flows"][0], r2.doc["flows"][0]
    ans = drv.results([{"op": "flow.bisim", "a": canon_flow(f1), "b": canon_flow(f2), "lvl": FULL}])[0]
    if "__error__" in ans:
        raise core.Infra("driver: " + str(ans))
    if ans.get("equiv"):
        return ("equal" if a == b else "equiv"), {"pairs": ans.get("pairs", 0)}
    return "violation", {"what": "sugared sheet and desugared twin compile to flows that behave differently",
                         "distinguishing_choice_sequence": ans.get("path"), "sugared_trace": ans.get("traceA"),
                         "twin_trace": ans.get("traceB")}


def _compile_raw(rows):
    """real parse, BEFORE render: node objects with raw exit destinations (None / 'HARD_EXIT' / uuid)"""
    from rpft.parsers.creation.flowparser import FlowParser
    from rpft.rapidpro.models.containers import FlowContainer, RapidProContainer
    from ..flows import LogCapture, table_from_rows

    with LogCapture() as cap:
        try:
            p = FlowParser(RapidProContainer(), "flow", table_from_rows(G.HEADERS, rows))
            fc = p.parse()
        except BaseException as e:  # noqa: BLE001
            if isinstance(e, (KeyboardInterrupt, SystemExit)):
                raise
            return None
    if cap.errors():
        return None
    groups = {}
    for rid, g in p.row_id_to_nodegroup.items():
        tmp = FlowContainer("tmp")
        try:
            g.add_nodes_to_flow(tmp)
            groups[rid] = {n.uuid for n in tmp.nodes}
        except Exception:  # noqa: BLE001
            pass
    return {"nodes": fc.nodes, "groups": groups}


def block_exit_oracle(rows):
    """The block clause of C03 on the real compiler: an edge that names a block leaves from every
    still-unconnected ordinary exit of the block, never from a hard exit, and touches nothing else.
    For each row R whose single unconditional edge names a block B: compile the sheet with that edge
    removed and with it; every exit that differs must be an exit of a node INSIDE B that led nowhere
    (and was not a hard exit) and now leads to R's node; every such exit must have changed.
    Returns (n_probes, violation | None, known_leak: bool)."""
    block_ids = {r["row_id"] for r in rows if r.get("type") in ("begin_block", "begin_for") and r.get("row_id")}
    probes = 0
    for k, r in enumerate(rows):
        if r.get("type") != "send_message" or r.get("from") not in block_ids or r.get("condition") or r.get("include_if"):
            continue
        if any(x.get("type") in ("begin_for", "begin_block") for x in rows[:k]) is False:
            continue
        # only top-level rows (not inside a loop body, where the row is instantiated several times)
        depth = 0
        for x in rows[:k]:
            if x.get("type") in ("begin_for", "begin_block"):
                depth += 1
            elif x.get("type") in ("end_for", "end_block"):
                depth -= 1
        if depth != 0:
            continue
        b = r["from"]
        # the clause is about what THIS edge does: the sheet is cut right after row R (depth 0, so the prefix is a
        # well-nested sheet) — rows after R may connect, in the run without the edge, exits that the edge would have
        # connected (a later go_to from another block, F-C03-a forwarding), which is their doing, not the edge's
        upto = [dict(x) for x in rows[:k + 1]]
        without = [dict(x) for x in upto]
        without[k]["from"] = "start"
        a = _compile_raw(without)
        c = _compile_raw(upto)
        if a is None or c is None or len(a["nodes"]) != len(c["nodes"]) or b not in a["groups"]:
            continue
        probes += 1
        idx = {n.uuid: i for i, n in enumerate(a["nodes"])}
        idx2 = {n.uuid: i for i, n in enumerate(c["nodes"])}
        inside = {idx[u] for u in a["groups"][b] if u in idx}
        # R's node: the node present in both at the same index whose text is R's
        target = None
        for i, n in enumerate(c["nodes"]):
            if n.actions and getattr(n.actions[0], "text", None) is not None and r.get("row_id") and c["groups"].get(r["row_id"]) == {n.uuid}:
                target = i
        if target is None:
            continue
        leak = False
        for i, (n1, n2) in enumerate(zip(a["nodes"], c["nodes"])):
            e1, e2 = n1.get_exits(), n2.get_exits()
            if len(e1) != len(e2):
                return probes, {"what": "an unconditional edge from a block changed the exits of a node", "row": k, "node": i}, leak
            for j, (x, y) in enumerate(zip(e1, e2)):
                d1 = x.destination_uuid
                d2 = y.destination_uuid
                m1 = d1 if d1 in (None, "HARD_EXIT") else idx.get(d1)
                m2 = d2 if d2 in (None, "HARD_EXIT") else idx2.get(d2)
                loose_inside = i in inside and d1 is None
                if loose_inside:
                    if m2 != target:
                        return probes, {"what": "an edge that names a block does not leave from one of its still-unconnected ordinary exits",
                                        "block": b, "edge_row": k, "node_index": i, "exit_index": j, "now_leads_to": m2, "expected_node_index": target}, leak
                elif m1 != m2:
                    if d1 == "HARD_EXIT":
                        return probes, {"what": "an edge that names a block leaves from a hard exit", "block": b, "edge_row": k, "node_index": i}, leak
                    if i not in inside and d1 is None and m2 == target:
                        leak = True     # F-C03-a: exits of rows leading INTO the block get connected as well
                    else:
                        return probes, {"what": "an edge that names a block changed an exit that does not belong to the block's unconnected exits",
                                        "block": b, "edge_row": k, "node_index": i, "exit_index": j, "before": m1, "after": m2}, leak
        if leak:
            return probes, None, True
    return probes, None, False


F_C03_A = [
    {"row_id": "w", "type": "wait_for_response", "from": "start"},
    {"row_id": "B", "type": "begin_block", "from": "w", "condition": "yes"},
    {"row_id": "x", "type": "send_message", "from": "", "message_text": "in block"},
    {"row_id": "", "type": "end_block"},
    {"row_id": "R", "type": "send_message", "from": "B", "message_text": "after the block"},
]


def after_loop_probe(rng, rows):
    """append a row that mentions a loop variable after its end_for (scope check: it must be
    instantiated in a context where the variable is gone — the twin evaluates it that way)"""
    rows = [dict(r) for r in rows]
    depth = 0
    for i, r in enumerate(rows):
        if r["type"] in ("begin_for", "begin_block"):
            depth += 1
        elif r["type"] in ("end_for", "end_block"):
            depth -= 1
            if r["type"] == "end_for" and depth == 0 and rng.random() < 0.5:
                # the loop's own variable or its index variable (whatever they were called, whatever they last held)
                j = max(k for k in range(i) if rows[k]["type"] == "begin_for" and sum(
                    (1 if x["type"] in ("begin_for", "begin_block") else -1 if x["type"] in ("end_for", "end_block") else 0)
                    for x in rows[k:i + 1]) == 0)
                names = [n for n in str(rows[j].get("loop_variable", "")).split(";") if n] or ["v0"]
                rows.insert(i + 1, {"row_id": f"after{i}", "type": "send_message", "from": "", "message_text": "after loop [{{%s}}]" % rng.choice(names)})
                return rows
    return rows


def worker(args):
    seed, n, maxrows = args
    rng = random.Random(seed)
    drv = core.Driver()
    stats = {}
    bad, keys, ties = [], [], []
    sample = None
    pairs = 0

    def bump(k, v=1):
        stats[k] = stats.get(k, 0) + v

    for _ in range(n):
        if rng.random() < 0.25:
            rows = S.gen_block_exit_sheet(rng)
            bump("block_exit_sheets")
        else:
            rows = S.gen_sugar_sheet(rng, rng.randint(3, maxrows))
            if rng.random() < 0.3:
                rows = after_loop_probe(rng, rows)
        try:
            twin = S.desugar(rows)
        except S.DesugarRenderError as e:
            # the desugared form cannot be instantiated (a delivered row names an undefined
            # variable, e.g. a loop variable after end_for): the sugared sheet must be rejected too
            r1 = compile_flow_sheet(G.HEADERS, rows)
            if r1.ok:
                bump("violation")
                bad.append({"rows": rows, "detail": {"what": "the sugared sheet compiles although its desugared form cannot be instantiated: " + str(e)}})
            else:
                bump("both_rejected")
                bump("both_rejected_uninstantiable")
            continue
        except S.DesugarError:
            bump("malformed")
            continue
        verdict, detail = compare(drv, rows, twin)
        bump(verdict)
        # block clause of the statement, on the real compiler (with / without the edge that names a block)
        nprobe, bviol, leak = block_exit_oracle(rows)
        bump("block_exit_probes", nprobe)
        if leak:
            bump("block_exit_known_leak_F-C03-a")
        if bviol is not None:
            bump("violation")
            bad.append({"rows": rows, "detail": bviol, "noshrink": True})
        # T2: the Lean model of the parser's block structure (Rpft/Sugar.lean evItems) vs the traced real parser
        tres, treal, ttable = compile_tie.trace_structure(G.HEADERS, rows)
        tv, td = compile_tie.compare_structure(drv, rows, tres, treal, ttable)
        bump("structure_tie." + tv)
        if tv == "disagree":
            ties.append({"csv": rows_to_csv(G.HEADERS, rows), "detail": td})
        if verdict == "both_rejected":
            continue
        u = S.uses_sugar(rows)
        bump("sheets_with_loops", u["loops"] > 0)
        bump("sheets_with_blocks", u["blocks"] > 0)
        bump("sheets_with_include_if", u["include_if"] > 0)
        bump("sheets_nested_ge2", u["nested"] >= 2)
        bump("sheets_with_zero_iteration_loop", any(r["type"] == "begin_for" and r.get("message_text") in ("{@[]@}", "{@range(0)@}") for r in rows))
        keys.append(rows_to_csv(G.HEADERS, rows))
        if sample is None:
            sample = {"sugared": rows_to_csv(G.HEADERS, rows), "twin": rows_to_csv(G.HEADERS, twin)}
        if verdict == "violation":
            bad.append({"rows": rows, "detail": detail})
        else:
            pairs += detail.get("pairs", 0)
    ties.sort(key=lambda t: len(t["csv"]))
    return {"stats": stats, "bad": bad[:10], "keys": keys, "sample": sample, "pairs": pairs, "ties": ties[:3], "nties": len(ties)}


def shrink(drv, rows):
    def failing(rs):
        try:
            tw = S.desugar(rs)
        except S.DesugarRenderError as e:
            if compile_flow_sheet(G.HEADERS, rs).ok:
                return {"what": "the sugared sheet compiles although its desugared form cannot be instantiated: " + str(e)}
            return None
        except S.DesugarError:
            return None
        v, d = compare(drv, rs, tw)
        return d if v == "violation" else None

    cur = list(rows)
    det = failing(cur)
    changed = True
    while changed and len(cur) > 1:
        changed = False
        for i in range(len(cur) - 1, -1, -1):
            cand = cur[:i] + cur[i + 1:]
            d = failing(cand)
            if d is not None:
                cur, det, changed = cand, d, True
                break
    return cur, det


# ---- inserted blocks: twin = block containing the template's rows instantiated with data row + arguments


def insert_case(rng):
    """workbook with a main flow inserting a template; and the twin workbook where the insert row is
    replaced by begin_block + instantiated template rows (ids renamed apart) + end_block."""
    words = ["alpha", "beta"]
    ids = ["row1", "row2"]
    data_rows = [{"ID": i, "word": w} for i, w in zip(ids, words)]
    tmpl = [
        {"row_id": "t1", "type": "send_message", "from": "start", "message_text": "T {{word}} {{extra}} {{second}} {{third}}"},
        {"row_id": "t2", "type": "send_message", "from": "t1", "message_text": "second {{word}}", "include_if": rng.choice(["", "FALSE", ""])},
    ]
    shape = rng.random()
    if shape < 0.5:
        tmpl += [
            {"row_id": "t3", "type": "wait_for_response", "from": ""},
            {"row_id": "t4", "type": "send_message", "from": "t3", "condition": "yes", "message_text": "yes {{word}}"},
        ]
        if rng.random() < 0.5:
            tmpl.append({"row_id": "", "type": "hard_exit", "from": "t4"})
    # the template is inserted one to three times, one insertion after the other, each followed by a row
    # that continues from the inserted block — sometimes with exactly the same data row and arguments
    # (every insertion is a block of its own: its hard exits stay hard exits, its loose exits continue)
    main = [{"row_id": "m1", "type": "send_message", "from": "start", "message_text": "main"}]
    twin_main = [main[0]]
    prev = "m1"
    picks = []
    for k in range(rng.choice([1, 1, 2, 2, 3])):
        if picks and rng.random() < 0.6:
            pick, arg = rng.choice(picks)
        else:
            # arguments bind by POSITION: a blank entry takes the declared default (also between two given ones), blank
            # entries beyond the declared parameters are padding
            pick, arg = rng.choice(ids), rng.choice(["E1", "", "E1;S2;T3", "E1;;T3", ";S2", "E1;;T3;;", ";;T3;", "E1;S2;;;"])
        picks.append((pick, arg))
        bid, aft = f"b{k}", f"aft{k}"
        ins_row = {"row_id": bid, "type": "insert_as_block", "from": prev, "message_text": "tmpl", "data_sheet": "data", "data_row_id": pick, "template_arguments": arg}
        aft_row = {"row_id": aft, "type": "send_message", "from": bid, "message_text": f"after block {k}"}
        main += [ins_row, aft_row]
        given = (arg.split(";") + ["", "", ""])[:3]
        ctx = {"word": words[ids.index(pick)], "extra": given[0] or "dflt", "second": given[1] or "d2", "third": given[2] or "d3"}
        inst = S.desugar(tmpl, ctx)
        body = []
        for r in inst:
            r = dict(r)
            if r.get("row_id"):
                r["row_id"] = f"tw{k}_" + r["row_id"]
            fr = r.get("from", "")
            if fr == "start":
                r["from"] = ""           # takes the block's incoming edges through the begin row
            elif fr:
                r["from"] = ";".join(f"tw{k}_" + x for x in fr.split(";"))
            body.append(r)
        twin_main += [{"row_id": bid, "type": "begin_block", "from": prev}] + body + [{"row_id": "", "type": "end_block"}, aft_row]
        prev = aft
    from ..flows import rows_to_csv as csvt
    ih = ["type", "sheet_name", "data_sheet", "data_row_id", "new_name", "template_arguments"]
    base = {
        "data": csvt(["ID", "word"], data_rows),
        "tmpl": csvt(G.HEADERS, tmpl),
    }
    idx = [{"type": "data_sheet", "sheet_name": "data"}, {"type": "template_definition", "sheet_name": "tmpl", "template_arguments": "extra;;dflt|second;;d2|third;;d3"},
           {"type": "create_flow", "sheet_name": "main"}]
    a = dict(base, content_index=csvt(ih, idx), main=csvt(G.HEADERS, main))
    b = dict(base, content_index=csvt(ih, idx), main=csvt(G.HEADERS, twin_main))
    return a, b


def flat_worker(args):
    """flat machine tie: real `_parse_block` over the real SheetParser vs Rpft/SugarFlat.lean `runFlat`"""
    seed, n, maxrows = args
    rng = random.Random(seed)
    drv = core.Driver()
    cases, reqs = [], []
    for _ in range(n):
        rows = S.gen_sugar_sheet(rng, rng.randint(3, maxrows))
        if rng.random() < 0.3:
            rows = after_loop_probe(rng, rows)
        strat = "well_nested"
        if rng.random() < 0.6:
            strat, rows = flat_tie.mutate(rng, rows)
        # sometimes an initial context whose names the loops shadow (restored at end_for)
        ctx = {"v0": "outer", "i0": 5, "v1": "o1"} if rng.random() < 0.3 else None
        tr = flat_tie.trace_flat(G.HEADERS, rows, ctx)
        cases.append((strat, rows, ctx, tr))
        reqs += flat_tie.requests(tr)
    ans = drv.results(reqs)
    stats, ties = {}, []
    for k, (strat, rows, ctx, tr) in enumerate(cases):
        run, treerun, tree = ans[3 * k: 3 * k + 3]
        outcome = tr["real"].get("stop", "ok")
        key = f"flat.{strat}.{outcome}"
        stats[key] = stats.get(key, 0) + 1
        if ctx:
            stats["flat.with_initial_context"] = stats.get("flat.with_initial_context", 0) + 1
        if "tree" in tree:
            stats["flat.parseTree_eq_tree_of_rows.well_nested"] = stats.get("flat.parseTree_eq_tree_of_rows.well_nested", 0) + 1
        else:
            stats["flat.parseTree_eq_tree_of_rows.ill_nested"] = stats.get("flat.parseTree_eq_tree_of_rows.ill_nested", 0) + 1
        for law in flat_tie.law_checks(tr):
            ties.append({"what": "a law of FlatLaws does not hold on a generated sheet: " + law[0], "csv": rows_to_csv(G.HEADERS, rows), "detail": list(law)})
        for what, detail in flat_tie.compare(tr, rows, run, treerun, tree):
            ties.append({"what": what, "csv": rows_to_csv(G.HEADERS, rows), "context": ctx, "detail": detail})
    ties.sort(key=lambda t: len(t["csv"]))
    return {"stats": stats, "ties": ties[:3], "nties": len(ties), "n": len(cases)}


def flat_stream(ck, quick):
    """the flat-sheet part of C03 (Props/C03_Flat.lean): tie of `runFlat` / `parseTree`, and the replay
    of the sheets on which the real parser and the tree reading `Sugar.evItems` differ"""
    drv = core.Driver()
    ck.assumptions.append("flat machine (Props/C03_Flat.lean): equality of contexts is equality of dicts (insertion order ignored); "
                          "the interface of the model run is read off the real run (raw kinds / raw-parse failures from the real RowParser, instantiations "
                          "from the trace); the laws kind_inst and vars_ne are checked on every traced run")
    # deterministic: the witnesses of the hypotheses of flat_eq_tree, on the real parser and on the model
    for name, hdr, rows, expect in flat_tie.witnesses(G.HEADERS):
        tr = flat_tie.trace_flat(hdr, rows)
        run, treerun, tree = drv.results(flat_tie.requests(tr))
        ck.count("flat.witness." + name + (".as_recorded" if (expect is None and "events" in tr["real"]) or expect == tr["real"] else ".behaves_differently_now"))
        for what, detail in flat_tie.compare(tr, rows, run, treerun, tree):
            ck.tie_break(what + " (witness " + name + ")", {"csv": rows_to_csv(hdr, rows), "detail": detail})
    n_total = 1920 if quick else 12000
    nshards = par.NPROC * (1 if quick else 4)
    jobs = [(ck.rng.randrange(1 << 60), n_total // nshards, 14 if quick else 30) for _ in range(nshards)]
    total = 0
    for r in par.pmap(flat_worker, jobs):
        total += r["n"]
        for k, v in r["stats"].items():
            ck.count(k, int(v))
        for t in r["ties"]:
            ck.tie_break(t["what"], t)
    ck.extra["flat_machine_sheets_compared"] = total
    for need in ("flat.well_nested.ok", "flat.unterminated.fault", "flat.mismatched.fault", "flat.stray_end.fault", "flat.begin_in_excluded.fault",
                 "flat.loop_last.ok", "flat.empty_sheet.ok", "flat.cut_after_begin.fault", "flat.with_initial_context"):
        if ck.strata.get(need, 0) < 3:
            raise core.Infra(f"generator stratum {need} under-represented: {ck.strata.get(need, 0)}")


def run(ck: core.Check):
    ck.lean = core.lean_step("C03", thorough=(ck.tier == "thorough"))
    if not core.DRIVER_BIN.exists():
        raise core.Infra("driver not built:\n" + ck.lean.log[-2000:])
    quick = ck.tier == "quick"
    ck.rule = (
        "random sugared sheets (loops over string / range / native lists with 0..3 elements and optional index variable, "
        "blocks, include_if literals and expressions on rows and on whole blocks, excluded blocks holding unevaluable templates, "
        "nesting ≤ 3, bodies with waits/branches/joins/go_to/hard and loose exits, rows mentioning a loop variable after end_for) "
        "+ workbooks inserting a template as a block; each compiled next to its desugared twin by the real compiler; a case = one "
        "pair where at least one side compiles; distinct = distinct sugared CSV"
    )
    ck.assumptions = ["the desugarer substitutes loop variables with the repo's own template engine (cell level)"]
    ck.partial_gap = ["the block clause (an edge naming a block leaves from every still-unconnected ordinary exit, never from a hard exit) is decided on the real compiler by the with/without-edge oracle; the NodeGroup machinery is in the Lean compiler model (Rpft/Compile.lean, tied in C01) and proved about it for ALL machine states: node level (block_edge_exits: exactly the exits leading nowhere are re-targeted, hard exits and connected exits never; block_edge_consumes_loose) and group level (connect_loose_group / block_edge_group: nothing but node contents changes, a node is replaced by its connected version exactly when the recursion reaches it — Compile.Reach — and every other node is untouched; block_edge_frame; block_edge_connects_reach; block_edge_inside: only nodes of the block's subtree when no begin row leaks; block_edge_reaches_outside: kernel-checked witness of finding F-C03-a). The statements are about successful runs (the model fails when its fuel runs out); that the parser's fuel 2·|groups|+8 always suffices is not proved",
                      "insert_as_block: proved on the Lean compiler model for templates without _nodeId, whether or not the sheet continues from the inserted block (the continuing case at any block depth, the not-continuing case for insert rows outside blocks) (insert_twin_traces_partial, insert_twin_continues_traces_partial, insert_twin_follows_traces_partial; hypotheses shown needed by needs_post_avoids_block / needs_tight = F-C03-a seen from the insert row, needs_no_loose_exit_after, needs_single_start, needs_ids_apart); open in the model as insert_twin_full: _nodeIds in the template, not-tight insert rows inside blocks or loops, event-level tightness beyond 'directly follows a plain action row', invariance under renaming the template's row ids apart (the tie's twin renames them, the model's twin keeps them), the one-side-compiles direction"]
    drv = core.Driver()
    # known-finding stream (deterministic): F-C03-a
    nprobe, bviol, leak = block_exit_oracle(F_C03_A)
    if leak and bviol is None:
        ck.known("F-C03-a", "an edge naming a block also connects the still-unconnected exits of rows leading INTO the block (the begin row is kept as a no_op inside the block)",
                 {"csv": rows_to_csv(G.HEADERS, F_C03_A)})
    elif bviol is not None:
        ck.violation("known-finding input fails differently: " + bviol["what"], {"rows": F_C03_A, "detail": bviol})
    n_total = 640 if quick else 12000
    maxrows = 14 if quick else 30
    nshards = par.NPROC * (1 if quick else 4)
    jobs = [(ck.rng.randrange(1 << 60), n_total // nshards, maxrows) for _ in range(nshards)]
    total_pairs = 0
    for r in par.pmap(worker, jobs):
        for k, v in r["stats"].items():
            ck.count(k, int(v))
        total_pairs += r["pairs"]
        for key in r["keys"]:
            ck.case(key, nontrivial=True)
        if r["sample"] and len(ck.samples) < 2:
            ck.samples.append(r["sample"])
        for t in r["ties"]:
            ck.tie_break("Lean model of the parser's block structure and the real _parse_block perform different events", t)
        for b in r["bad"]:
            if b.get("noshrink"):
                ck.violation(b["detail"]["what"], {"sugared_csv": rows_to_csv(G.HEADERS, b["rows"]), "rows": b["rows"], "detail": b["detail"]})
                continue
            if len(ck.violations) >= 2:
                ck.violation(b["detail"].get("what", "sugared and desugared differ") + " (not shrunk)", {"rows": b["rows"], "detail": b["detail"], "pad": "#" * 4000})
                continue
            rows, det = shrink(drv, b["rows"])
            det = det or b["detail"]
            try:
                twin_csv = rows_to_csv(G.HEADERS, S.desugar(rows))
            except S.DesugarError as e:
                twin_csv = f"(cannot be instantiated: {e})"
            ck.violation(det.get("what", "sugared and desugared differ"),
                         {"sugared_csv": rows_to_csv(G.HEADERS, rows), "desugared_csv": twin_csv, "rows": rows, "detail": det})
    ck.extra["certificate_pairs_validated"] = total_pairs
    flat_stream(ck, quick)

    # inserted blocks
    n_ins = 60 if quick else 600
    for _ in range(n_ins):
        a, b = insert_case(ck.rng)
        ra, rb = compile_index(a), compile_index(b)
        ck.count("insert_pairs")
        if not ra.ok and not rb.ok:
            ck.count("insert_both_rejected")
            continue
        ck.case(json.dumps(a, sort_keys=True), nontrivial=True)
        if ra.ok != rb.ok:
            ck.violation("insert_as_block and its block twin: exactly one compiles", {"workbook": a, "twin": b, "errors": [ra.exc, ra.errors[:2], rb.exc, rb.errors[:2]]})
            continue
        fa = [f for f in ra.doc["flows"] if f["name"] == "main"][0]
        fb = [f for f in rb.doc["flows"] if f["name"] == "main"][0]
        ans = drv.results([{"op": "flow.bisim", "a": canon_flow(fa), "b": canon_flow(fb), "lvl": FULL}])[0]
        if ans.get("equiv"):
            ck.count("insert_equiv")
        else:
            # F-C03-a does not show in this family: the rows leading into the block have no unconnected exit
            ck.violation("insert_as_block behaves differently from a block holding the instantiated template rows",
                         {"workbook": a, "twin": b, "distinguishing_choice_sequence": ans.get("path"), "trace_insert": ans.get("traceA"), "trace_twin": ans.get("traceB")})

    for need in ("sheets_with_loops", "sheets_with_blocks", "sheets_with_include_if", "sheets_nested_ge2", "insert_equiv"):
        if ck.strata.get(need, 0) < 5:
            raise core.Infra(f"generator stratum {need} under-represented: {ck.strata.get(need, 0)}")


def replay(path):
    rec = json.load(open(path))
    print(json.dumps(rec, indent=1, ensure_ascii=False)[:6000])
    rows = rec.get("replay", {}).get("rows")
    if rows:
        drv = core.Driver()
        print(compare(drv, rows, S.desugar(rows)))
    return 0
