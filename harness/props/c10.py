"""C10 — content index resolution is sequential, last definition wins.

A  proof step: Rpft.Props.C10 (inert_rows, process_filter_active, nested_inline, last_wins_*,
   ignore_spares_templates, output_names_nodup, sheet_resolves_last, reader_order,
   split_invariance, read_padded / process_padded / padded_draft_inert: the meaning of a cell is its
   trimmed text, …).
B  tie: generated histories (1-4 workbooks, nested indexes, all row types, renames, duplicates,
   ignore rows, draft, tags × tag filter, duplicated sheet names across workbooks, index cells with
   surrounding ASCII / Unicode whitespace — the model reads the RAW cells) through the
   real ContentIndexParser / converters.create_flows vs the Lean model (`index.run`).
C  direct oracle: the statement evaluated on the real output — an independent Python reading
   of the index (inline the nested indexes, drop inert rows, then per name "the last definition
   not followed by an ignore_row", flows keyed by output name at their first position, a sheet
   name = its copy in the last workbook that has it) vs what create_flows produced; every
   sheet's content encodes (workbook, sheet) so provenance is observable.
"""
from __future__ import annotations

import csv
import json
import logging
import os
import random
import re
import shutil
import tempfile

from .. import core, par

MANIFEST = dict(
    text="Proof: Lean theorems inert_rows / process_filter_active (draft and tag-filtered rows have no effect), nested_inline (a nested index is processed exactly as its rows in place), last_wins_campaign / _trigger / _template (the definition in effect is what the last row concerning the name left: a definition its content, an ignore_row nothing; templates are touched by template_definition rows only), last_wins_data (the data registry evolves as the C11 chain of the data_sheet rows), flow_rows_spec (surviving create_flow rows = those not named by a later ignore_row), ignore_spares_templates, output_names_nodup (+ first-position order), sheet_resolves_last, reader_order, split_invariance, read_padded / process_padded / padded_draft_inert (an index row is read from its raw cells by str.strip / split_into_lists, so surrounding whitespace of any kind in a type / sheet_name / new_name / status / tags … cell changes nothing: `draft ` is a draft row) over a hand model of ContentIndexParser's index processing for all row histories (unbounded, induction over the history); tied to the code by generated multi-workbook histories run through the real ContentIndexParser and converters.create_flows (CSV / JSON / XLSX workbooks) with provenance-encoding sheet contents, and by an independent reference interpretation of the statement.",
    ref="§5 C10",
    note="Trusts: Lean kernel (axioms audited each run), the differential harness and Driver JSON codec, CPython dict/list semantics as modelled. Sheet contents are abstracted to their provenance; flow compilation itself is C02's subject. Nesting depth is bounded by fuel in the model (Python: recursion limit); cyclic indexes are not generated. TagMatcher position parameters: ASCII sign+digits only.",
    technique="Lean 4 proof (induction over the row history, fuel-monotone nested recursion, dict-as-association-list lemmas) + differential model/code correspondence on generated index histories",
)

T_NAMES = ["T0", "T1", "T2", "T3"]          # plain flow templates
U_NAMES = ["U0", "U1"]                      # flow templates using a data row ({{v}})
S_NAMES = ["S0", "S1"]                      # data sheets
C_NAMES = ["C0", "C1"]                      # campaign sheets
G_NAMES = ["G0", "G1"]                      # trigger sheets
I_NAMES = ["I0", "I1", "I2"]                # nested index sheets
NEW_NAMES = ["N0", "N1"]
DATA_NAMES = S_NAMES + ["DS0"]
ROW_TAGS = [["", ""], ["", ""], ["foo", ""], ["", "bar"], ["foo", "bar"], ["baz", ""], ["foo", "qux"], ["zzz", "bar"]]
TAG_SETTINGS = [[], [], [], ["1", "foo"], ["1", "foo", "baz"], ["2", "bar"], ["1", "foo", "2", "bar"], ["1", "nomatch"],
                ["1"], ["0", "foo"], ["3", "zzz"], ["1", "foo", "1", "baz"], ["+2", "qux", "bar"], ["-1", "foo"], ["2", "1a", "bar"]]
INDEX_HEADERS = ["type", "sheet_name", "new_name", "data_sheet", "data_row_id", "group", "status", "tags.1", "tags.2", "template_arguments"]
FLOW_HEADERS = ["row_id", "type", "from", "message_text"]
DATA_HEADERS = ["ID", "v"]
CAMPAIGN_HEADERS = ["offset", "unit", "event_type", "delivery_hour", "message", "relative_to", "start_mode", "flow"]
TRIGGER_HEADERS = ["type", "keywords", "flow", "groups", "exclude_groups", "match_type"]
DATA_IDS = ["a", "b", "c"]
# what `str.strip()` removes (the cell parser trims every cell with it): re-derived from the interpreter in run()
PY_WS = [chr(c) for c in (9, 10, 11, 12, 13, 28, 29, 30, 31, 32, 133, 160, 5760, 8192, 8193, 8194, 8195, 8196, 8197, 8198,
                          8199, 8200, 8201, 8202, 8232, 8233, 8239, 8287, 12288)]
COMMON_WS = [" ", " ", "\t", "\n", "\xa0"]       # what hand-edited spreadsheets typically carry
# index columns whose cells may carry surrounding whitespace; the meaning of a cell is its trimmed text
PAD_COLS = ["type", "sheet_name", "new_name", "data_sheet", "data_row_id", "group", "status", "tags.1", "tags.2"]
XLSX_ILLEGAL = re.compile("[\x00-\x08\x0b\x0c\x0e-\x1f]")  # openpyxl refuses these in a cell


# ------------------------------------------------------------------ generation


def gen_row(rng, nest_from, allow_bogus=True):
    """one index row (dict); nest_from = index sheets this sheet may include"""
    kinds = ["create_flow"] * 6 + ["template_definition"] * 2 + ["create_campaign"] * 2 + ["create_triggers"] * 2 + \
        ["ignore_row"] * 3 + ["data_sheet"] * 2 + (["content_index"] * 2 if nest_from else []) + (["bogus"] if allow_bogus and rng.random() < 0.3 else [])
    ty = rng.choice(kinds)
    row = {"type": ty, "sheet_name": [], "new_name": "", "data_sheet": "", "data_row_id": "", "group": "",
           "status": rng.choice(["", "", "", "", "", "draft", "draft", "released"]), "tags": list(rng.choice(ROW_TAGS)), "tpl_args": 0}
    if ty == "create_flow":
        if rng.random() < 0.3:
            row["sheet_name"] = [rng.choice(U_NAMES)]
            row["data_sheet"] = rng.choice(DATA_NAMES)
            if rng.random() < 0.4:
                row["data_row_id"] = "a"
        else:
            row["sheet_name"] = [rng.choice(T_NAMES)]
        r = rng.random()
        if r < 0.3:
            row["new_name"] = rng.choice(NEW_NAMES)
        elif r < 0.4:
            row["new_name"] = rng.choice(T_NAMES + U_NAMES)  # a new name that is also a sheet name
    elif ty == "template_definition":
        row["sheet_name"] = [rng.choice(T_NAMES + U_NAMES)]
        row["tpl_args"] = rng.choice([0, 0, 1, 2])
        if rng.random() < 0.1:
            row["new_name"] = "N0"  # ignored with a warning
    elif ty == "create_campaign":
        row["sheet_name"] = [rng.choice(C_NAMES)]
        row["new_name"] = rng.choice(["", "", "K0", "N0", "C1"])
        row["group"] = rng.choice(["g0", "g1"])
    elif ty == "create_triggers":
        row["sheet_name"] = [rng.choice(G_NAMES)]
    elif ty == "ignore_row":
        row["sheet_name"] = [rng.choice(T_NAMES + T_NAMES + U_NAMES + NEW_NAMES + NEW_NAMES + ["K0"] + C_NAMES + G_NAMES + ["U0 - a", "N0 - a"])]
    elif ty == "data_sheet":
        row["sheet_name"] = [rng.choice(S_NAMES)]
        row["new_name"] = rng.choice(["", "DS0", "DS0", "S0", "S1"])
    elif ty == "content_index":
        row["sheet_name"] = [rng.choice(nest_from)]
    else:
        row["sheet_name"] = [rng.choice(T_NAMES)]
    return row


def plain_row(ty, sheet, **kw):
    row = {"type": ty, "sheet_name": [sheet], "new_name": "", "data_sheet": "", "data_row_id": "", "group": "", "status": "", "tags": ["", ""], "tpl_args": 0}
    row.update(kw)
    return row


def gen_ws(rng) -> str:
    n = rng.choice([1, 1, 1, 2, 3])
    return "".join(rng.choice(COMMON_WS) if rng.random() < 0.5 else rng.choice(PY_WS) for _ in range(n))


def gen_pad(rng, row) -> dict:
    """surrounding whitespace for some cells of an index row: column -> [left, right]; a blank cell that gets
    padded becomes a whitespace-only cell (= blank)"""
    cols = [c for c in PAD_COLS if rng.random() < 0.3] or [rng.choice(PAD_COLS)]
    pad = {}
    for c in cols:
        # the type cell of a template_definition row WITH arguments is padded like any other (F-C10-a, fixed in bfa715d: the
        # `template_arguments` column was routed by the RAW type cell, so `template_definition ` lost its argument definitions)
        side = rng.choice(["l", "r", "r", "lr"])
        pad[c] = [gen_ws(rng) if "l" in side else "", gen_ws(rng) if "r" in side else ""]
    return pad


def add_padding(case, rng, p_case=0.5, p_row=0.15):
    """in every second case the raw cells of some index rows get surrounding whitespace (the row's fields keep the
    MEANING, `pad` the raw spelling); drawn after everything else so that the unpadded case of a seed stays what it was"""
    if rng.random() >= p_case:
        return
    for wb in case["workbooks"]:
        for _, sh in wb:
            for r in sh.get("rows", []):
                if rng.random() < p_row:
                    r["pad"] = gen_pad(rng, r)


def row_cells(r) -> list:
    """the raw cells of an index row in the order of PAD_COLS"""
    texts = [r["type"], ";".join(r["sheet_name"]), r["new_name"], r["data_sheet"], r["data_row_id"], r["group"],
             r["status"], r["tags"][0], r["tags"][1]]
    pad = r.get("pad", {})
    return [pad[c][0] + t + pad[c][1] if c in pad else t for c, t in zip(PAD_COLS, texts)]


def gen_case(rng: random.Random, malformed=False) -> dict:
    nwb = rng.choice([1, 1, 2, 2, 3, 4])
    prov = 0
    wbs = []
    content_names = T_NAMES + U_NAMES + S_NAMES + C_NAMES + G_NAMES + ["anchor"]
    index_holders = sorted(rng.sample(range(nwb), rng.randint(1, nwb)))
    for w in range(nwb):
        sheets = {}
        for n in content_names:
            # the last workbook holds everything so that every name resolves; others a random subset
            if w == nwb - 1 or rng.random() < 0.5:
                sheets[n] = {"prov": prov}
                if n in S_NAMES:
                    ids = ["a"] + [i for i in DATA_IDS[1:] if rng.random() < 0.6]
                    rng.shuffle(ids)
                    sheets[n]["data_ids"] = ids
                prov += 1
        wbs.append(sheets)
    if rng.random() < 0.5 and nwb > 1:
        # make "the last workbook that has it" differ from "the last workbook": drop some from the last one
        for n in content_names:
            if rng.random() < 0.4 and any(n in wb for wb in wbs[:-1]):
                del wbs[-1][n]
    # nested index sheets: I_k may include I_j, j > k  (acyclic); copies in several workbooks
    for k, n in enumerate(I_NAMES):
        holders = [w for w in range(nwb) if rng.random() < 0.5] or [rng.randrange(nwb)]
        for w in holders:
            rows = [gen_row(rng, I_NAMES[k + 1:]) for _ in range(rng.randint(0, 4))]
            wbs[w][n] = {"prov": prov, "rows": rows}
            prov += 1
    first = True
    for w in index_holders:
        rows = [gen_row(rng, I_NAMES) for _ in range(rng.randint(0, 9))]
        pre = [plain_row("create_flow", "anchor")]
        if first:
            pre += [plain_row("data_sheet", "S0"), plain_row("data_sheet", "S1"), plain_row("data_sheet", "S0", new_name="DS0")]
            first = False
        wbs[w]["content_index"] = {"prov": prov, "rows": pre + rows}
        prov += 1
    case = {"workbooks": [[[n, sh] for n, sh in wb.items()] for wb in wbs], "tags": list(rng.choice(TAG_SETTINGS))}
    if malformed:
        kind = rng.choice(["missing_sheet", "no_sheet_name", "two_sheet_names", "tag_before_position", "missing_data_sheet", "orphan_data_row_id"])
        case["malformed"] = kind
        idx = [sh for wb in case["workbooks"] for n, sh in wb if n == "content_index"][0]
        pos = rng.randint(1, len(idx["rows"]))
        if kind == "missing_sheet":
            idx["rows"].insert(pos, plain_row(rng.choice(["create_flow", "template_definition", "create_campaign", "create_triggers", "content_index", "data_sheet"]), "NOSUCH"))
        elif kind == "no_sheet_name":
            r = plain_row(rng.choice(["template_definition", "create_campaign", "create_triggers", "ignore_row", "content_index", "create_flow"]), "X")
            r["sheet_name"] = []
            idx["rows"].insert(pos, r)
        elif kind == "two_sheet_names":
            r = plain_row(rng.choice(["template_definition", "create_flow", "ignore_row"]), "T0")
            r["sheet_name"] = ["T0", "T1"]
            idx["rows"].insert(pos, r)
        elif kind == "tag_before_position":
            case["tags"] = ["foo", "1", "bar"]
        elif kind == "missing_data_sheet":
            idx["rows"].insert(pos, plain_row("create_flow", "U0", data_sheet="NODATA"))
        else:
            idx["rows"].insert(pos, plain_row("create_flow", "T0", data_row_id="a"))
    add_padding(case, random.Random(rng.getrandbits(48)))
    return case


# ------------------------------------------------------------------ workbooks for the real code


def sheet_table(name, sh):
    """(headers, rows) of a sheet; the content encodes the provenance"""
    p = sh["prov"]
    if "rows" in sh:
        rows = []
        for r in sh["rows"]:
            targs = f"x;;d{r['tpl_args']}|" if r["tpl_args"] else ""
            rows.append(row_cells(r) + [targs])
        return INDEX_HEADERS, rows
    if name in S_NAMES:
        return DATA_HEADERS, [[i, f"Q{p}"] for i in sh["data_ids"]]
    if name in C_NAMES:
        return CAMPAIGN_HEADERS, [["1", "D", "M", "", f"P{p}", "Created On", "I", ""]]
    if name in G_NAMES:
        return TRIGGER_HEADERS, [["K", f"P{p}", "anchor", "", "", ""]]
    if name in U_NAMES:
        return FLOW_HEADERS, [["1", "send_message", "start", f"P{p}/{{{{v}}}}"]]
    return FLOW_HEADERS, [["1", "send_message", "start", f"P{p}"]]


def mem_reader(name, wb):
    import tablib
    from rpft.parsers.sheets import AbstractSheetReader, Sheet

    class MemReader(AbstractSheetReader):
        def __init__(self):
            self.name = name
            self._sheets = {}
            for sn, sh in wb:
                headers, rows = sheet_table(sn, sh)
                ds = tablib.Dataset(headers=list(headers))
                for r in rows:
                    ds.append([str(c) for c in r])
                self._sheets[sn] = Sheet(reader=self, name=sn, table=ds)

    return MemReader()


class _Capture(logging.Handler):
    def __init__(self):
        super().__init__(level=logging.DEBUG)
        self.records = []

    def emit(self, record):
        self.records.append(record)


EXC_KIND = {"ParserError": "sheetNotFound", "IndexError": "index", "KeyError": "keyError", "RecursionError": "recursion"}
_TEXT = re.compile(r"^P(\d+)(?:/Q(\d+))?$")


def observe_render(out) -> dict:
    flows = []
    for f in out["flows"]:
        text = f["nodes"][0]["actions"][0]["text"]
        m = _TEXT.match(text)
        flows.append([f["name"], int(m.group(1)) if m else text, int(m.group(2)) if m and m.group(2) else None])
    camps = []
    for c in out["campaigns"]:
        msg = c["events"][0]["message"]
        msg = msg.get("eng") if isinstance(msg, dict) else msg
        camps.append([c["name"], c["group"]["name"], int(msg[1:])])
    trigs = [int(t["keywords"][0][1:]) if "keywords" in t else int(t["keyword"][1:]) for t in out["triggers"]]
    return {"flows": flows, "campaigns": camps, "triggers": trigs}


def real_run(case, mode="mem", tmp=None) -> dict:
    from rpft.parsers.creation.contentindexparser import ContentIndexParser
    from rpft.parsers.creation.tagmatcher import TagMatcher
    from rpft.parsers.sheets import CompositeSheetReader

    cap = _Capture()
    lg = logging.getLogger("main")
    lg.addHandler(cap)
    old = lg.level
    lg.setLevel(logging.ERROR)
    res = {"exc": None}
    try:
        try:
            TagMatcher(case["tags"])
        except ValueError as e:
            res["exc"], res["exc_text"], res["errors"] = "tagValueError", repr(e), 0
            return res
        try:
            if mode == "mem":
                readers = [mem_reader(f"wb{i}", wb) for i, wb in enumerate(case["workbooks"])]
                p = ContentIndexParser(CompositeSheetReader(readers), None, TagMatcher(case["tags"]))
                st = {}
                st["templates"] = []
                for n, t in p.template_sheets.items():
                    m = _TEXT.match(t.table[0][3].replace("/{{v}}", ""))
                    defs = t.argument_definitions
                    st["templates"].append([n, int(m.group(1)), int(defs[0].default_value[1:]) if defs else 0])
                st["data"] = [[n, [[rid, int(row.v[1:])] for rid, row in ds.rows.items()]] for n, ds in p.data_sheets.items()]
                res["state"] = st
                out = p.parse_all().render()
            else:
                from rpft import converters

                files = write_workbooks(case, mode, tmp)
                out = converters.create_flows(files, None, mode, tags=case["tags"])
            res.update(observe_render(out))
        except Exception as e:  # noqa: BLE001
            res["exc"] = EXC_KIND.get(type(e).__name__, "other:" + type(e).__name__)
            res["exc_text"] = repr(e)[:300]
        res["errors"] = sum(1 for r in cap.records if r.levelno >= logging.ERROR)
        res["error_texts"] = [r.getMessage()[:120] for r in cap.records if r.levelno >= logging.ERROR][:5]
    finally:
        lg.removeHandler(cap)
        lg.setLevel(old)
    return res


def write_workbooks(case, mode, tmp) -> list[str]:
    files = []
    d = tempfile.mkdtemp(dir=tmp)
    for i, wb in enumerate(case["workbooks"]):
        if mode == "csv":
            p = os.path.join(d, f"wb{i}")
            os.mkdir(p)
            for sn, sh in wb:
                headers, rows = sheet_table(sn, sh)
                with open(os.path.join(p, sn + ".csv"), "w", newline="", encoding="utf-8") as f:
                    w = csv.writer(f)
                    w.writerow(headers)
                    w.writerows([[str(c) for c in r] for r in rows])
        elif mode == "json":
            p = os.path.join(d, f"wb{i}.json")
            book = {"meta": {"version": "0.1.0"}, "sheets": {}}
            for sn, sh in wb:
                headers, rows = sheet_table(sn, sh)
                book["sheets"][sn] = [dict(zip(headers, [str(c) for c in r])) for r in rows]
            with open(p, "w", encoding="utf-8") as f:
                json.dump(book, f)
        else:
            import openpyxl

            p = os.path.join(d, f"wb{i}.xlsx")
            x = openpyxl.Workbook()
            x.remove(x.active)
            for sn, sh in wb:
                headers, rows = sheet_table(sn, sh)
                ws = x.create_sheet(sn)
                ws.append(list(headers))
                for r in rows:
                    ws.append([XLSX_ILLEGAL.sub("\u2009", str(c)) for c in r])  # another whitespace where XLSX has no spelling
            x.save(p)
        files.append(p)
    return files


# ------------------------------------------------------------------ independent reading (oracle C)


def ref_interpret(case) -> dict:
    """The statement, read declaratively (NOT the sequential algorithm of the model):
    1. a sheet name means its copy in the LAST workbook that has it;
    2. the effective history = all content_index sheets in workbook order, nested indexes
       inlined, draft rows and rows failing the tag filter dropped;
    3. per registry and name: the LAST defining row not followed by an ignore_row of that name;
       templates and data sheets are never ignored; flows are keyed by output name, placed at
       the first surviving definition's position."""
    wbs = [dict(wb) for wb in case["workbooks"]]

    def resolve(n):
        for wb in reversed(wbs):
            if n in wb:
                return wb[n]
        raise LookupError(n)

    pats: dict[int, list] = {}
    cur = None
    for prm in case["tags"]:
        if re.fullmatch(r"[+-]?\d+", prm):
            cur = int(prm) - 1
        else:
            pats.setdefault(cur, []).append(prm)

    def active(r):
        if r["status"] == "draft":
            return False
        return all(not t or i not in pats or t in pats[i] for i, t in enumerate(r["tags"]))

    in_effect = set()

    def inline(rows):
        out = []
        for r in rows:
            if not active(r):
                continue
            in_effect.add(id(r))
            if r["type"] == "content_index":
                out += inline(resolve(r["sheet_name"][0])["rows"])
            else:
                out.append(r)
        return out

    hist = []
    for wb in wbs:
        if "content_index" in wb:
            hist += inline(wb["content_index"]["rows"])

    def ignored_later(i, name):
        return any(r["type"] == "ignore_row" and r["sheet_name"][0] == name for r in hist[i + 1:])

    def last_def(ty, key):
        """name -> (index of the last surviving definition); names in order of FIRST surviving registration
        since the last time the name was absent"""
        reg: dict[str, int] = {}
        names = []
        for i, r in enumerate(hist):
            if r["type"] == ty:
                names.append(key(r))
        order = []
        for n in dict.fromkeys(names):
            idxs = [i for i, r in enumerate(hist) if r["type"] == ty and key(r) == n]
            last = idxs[-1]
            if ignored_later(last, n) and ty in ("create_campaign", "create_triggers"):
                continue
            # position: first definition after the last ignore of n that precedes `last`
            ign = [i for i, r in enumerate(hist[:last]) if r["type"] == "ignore_row" and r["sheet_name"][0] == n and ty in ("create_campaign", "create_triggers")]
            start = ign[-1] if ign else -1
            firstpos = min(i for i in idxs if i > start)
            reg[n] = last
            order.append((firstpos, n))
        return [(n, reg[n]) for _, n in sorted(order)]

    camps = [[n, hist[i]["group"], resolve(hist[i]["sheet_name"][0])["prov"]]
             for n, i in last_def("create_campaign", lambda r: r["new_name"] or r["sheet_name"][0])]
    trigs = [resolve(n)["prov"] for n, i in last_def("create_triggers", lambda r: r["sheet_name"][0])]
    def data_source(name, upto):
        """what `name` means as a data source just before history position `upto`: the sheet
        registered under that name by the last earlier data_sheet row, else the reader's sheet"""
        for i in range(upto - 1, -1, -1):
            r = hist[i]
            if r["type"] == "data_sheet" and (r["new_name"] or r["sheet_name"][0]) == name:
                return data_source(r["sheet_name"][0], i)
        sh = resolve(name)
        return [[rid, sh["prov"]] for rid in sh["data_ids"]]

    data = {}
    for n, i in last_def("data_sheet", lambda r: r["new_name"] or r["sheet_name"][0]):
        data[n] = data_source(hist[i]["sheet_name"][0], i)
    survivors = [r for i, r in enumerate(hist) if r["type"] == "create_flow" and not ignored_later(i, r["new_name"] or r["sheet_name"][0])]
    tdefs = {n: hist[i]["tpl_args"] for n, i in last_def("template_definition", lambda r: r["sheet_name"][0])}
    flows: dict[str, list] = {}
    for r in survivors:
        base = r["new_name"] or r["sheet_name"][0]
        tp = resolve(r["sheet_name"][0])["prov"]
        if r["data_sheet"] and not r["data_row_id"]:
            items = [(f"{base} - {rid}", [tp, dp]) for rid, dp in data[r["data_sheet"]]]
        elif r["data_sheet"]:
            dp = dict(data[r["data_sheet"]])[r["data_row_id"]]
            items = [(f"{base} - {r['data_row_id']}", [tp, dp])]
        else:
            items = [(base, [tp, None])]
        for nm, v in items:
            flows[nm] = v  # dict: first position, last content
    tmpl = {}
    for n, a in tdefs.items():
        tmpl[n] = [resolve(n)["prov"], a]
    for r in survivors:
        n = r["sheet_name"][0]
        if n not in tmpl:
            tmpl[n] = [resolve(n)["prov"], 0]
    errors = sum(1 for r in hist if r["type"] == "bogus")
    return {"flows": [[n, v[0], v[1]] for n, v in flows.items()], "campaigns": camps, "triggers": trigs,
            "templates": tmpl, "data": data, "errors": errors, "history": hist, "in_effect": in_effect}


# ------------------------------------------------------------------ one case


def model_request(case):
    wbs = []
    for wb in case["workbooks"]:
        sheets = []
        for n, sh in wb:
            body = {"prov": sh["prov"]}
            if "rows" in sh:
                # the model READS the raw cells (RawIndexRow.read: str.strip / split_into_lists)
                body["rows"] = [{"cells": dict(zip(PAD_COLS[:7], row_cells(r)[:7]), tags=row_cells(r)[7:]), "tpl_args": r["tpl_args"]}
                                for r in sh["rows"]]
            if "data_ids" in sh:
                body["data"] = [[i, sh["prov"]] for i in sh["data_ids"]]
            sheets.append([n, body])
        wbs.append(sheets)
    return {"op": "index.run", "workbooks": wbs, "tags": case["tags"], "fuel": 40}


def canon_model(m, with_state):
    if "err" in m:
        return {"err": m["err"]}
    if "parse" in m:
        return {"err": m["parse"]["err"]}
    out = {"flows": [[f[0], f[1], f[3]] for f in m["flows"]],
           "campaigns": m["campaigns"], "triggers": [t[1] for t in m["triggers"]], "errors": m["errors"]}
    if with_state:
        out["state"] = {"templates": m["templates"], "data": m["data"]}
    return out


def canon_real(r, with_state):
    if r["exc"]:
        return {"err": r["exc"]}
    out = {"flows": r["flows"], "campaigns": r["campaigns"], "triggers": r["triggers"], "errors": r["errors"]}
    if with_state:
        out["state"] = r["state"]
    return out


def run_case(case, m, modes, tmp) -> dict:
    res = {"ties": [], "viol": [], "strata": []}
    malformed = "malformed" in case
    ref = None
    if not malformed:
        ref = ref_interpret(case)
    for mode in modes:
        real = real_run(case, mode, tmp)
        res["strata"].append("mode." + mode)
        cr = canon_real(real, mode == "mem")
        cm = canon_model(m, mode == "mem")
        if cr != cm:
            res["ties"].append({"case": case, "mode": mode, "real": cr, "model": cm, "exc_text": real.get("exc_text"), "error_texts": real.get("error_texts")})
        if malformed:
            continue
        if real["exc"]:
            res["viol"].append({"what": f"a valid index history raised {real['exc']}", "case": case, "mode": mode, "exception": real.get("exc_text")})
            continue
        checks = [
            ("flows", "flows (name, template copy, data copy) in output order differ from the sequential reading of the index"),
            ("campaigns", "campaigns (name, group, sheet copy) differ from the sequential reading of the index"),
            ("triggers", "triggers (sheet copy, order) differ from the sequential reading of the index"),
            ("errors", "number of logged errors differs from the number of active rows of invalid type"),
        ]
        bad = None
        for k, what in checks:
            if real[k] != ref[k]:
                bad = {"what": what, "case": case, "mode": mode, "got": real[k], "expected": ref[k]}
                break
        if bad is None:
            names = [f[0] for f in real["flows"]]
            if len(set(names)) != len(names):
                bad = {"what": "two output flows have the same name", "case": case, "mode": mode, "got": names}
        if bad is None and mode == "mem":
            st = real["state"]
            if {n: [p, a] for n, p, a in st["templates"]} != ref["templates"]:
                bad = {"what": "template registry differs (a template was removed / resolved to the wrong copy / lost its arguments)", "case": case, "mode": mode,
                       "got": st["templates"], "expected": ref["templates"]}
            elif dict((n, rows) for n, rows in st["data"]) != ref["data"]:
                bad = {"what": "registered data sheets differ from the sequential reading", "case": case, "mode": mode, "got": st["data"], "expected": ref["data"]}
        if bad:
            res["viol"].append(bad)
    if malformed:
        res["strata"].append("malformed." + case["malformed"])
    else:
        res["strata"] += classify(case, ref)
    return res


def classify(case, ref):
    st = [f"workbooks.{len(case['workbooks'])}"]
    hist = ref["history"]
    allrows = [r for wb in case["workbooks"] for _, sh in wb for r in sh.get("rows", [])]
    types = {r["type"] for r in hist}
    for t in types:
        st.append("active_row." + t)
    if any(r["status"] == "draft" for r in allrows):
        st.append("draft_row")
    if case["tags"]:
        st.append("tag_filter.set")
        if len(hist) < sum(1 for r in allrows if r["status"] != "draft" and r["type"] != "content_index"):
            st.append("tag_filter.drops_rows")
    else:
        st.append("tag_filter.none")
    if any(r["type"] == "content_index" for r in allrows):
        st.append("nested_index")
    st += sorted(pad_strata(allrows, ref["in_effect"]))
    nidx = sum(1 for wb in case["workbooks"] for n, _ in wb if n == "content_index")
    if nidx > 1:
        st.append("several_top_level_indexes")
    keyf = lambda r: r["new_name"] or r["sheet_name"][0]  # noqa: E731
    for i, r in enumerate(hist):
        if r["type"] == "ignore_row":
            n = r["sheet_name"][0]
            before = [x for x in hist[:i] if x["type"] in ("create_flow", "create_campaign") and keyf(x) == n or x["type"] == "create_triggers" and x["sheet_name"][0] == n]
            after = [x for x in hist[i + 1:] if x["type"] in ("create_flow", "create_campaign") and keyf(x) == n or x["type"] == "create_triggers" and x["sheet_name"][0] == n]
            if before:
                st.append("ignore.after_definition")
            if after:
                st.append("ignore.before_definition")
            if before and after:
                st.append("ignore.between_definitions")
            if any(x["type"] == "template_definition" and x["sheet_name"][0] == n for x in hist[:i]):
                st.append("ignore.names_a_template")
            if any(x["type"] == "create_flow" and x["sheet_name"][0] == n and x["new_name"] and x["new_name"] != n for x in hist[:i]):
                st.append("ignore.sheet_name_of_renamed_flow")
    fl = [keyf(r) for r in hist if r["type"] == "create_flow"]
    if len(set(fl)) < len(fl):
        st.append("duplicate_flow_definition")
    if any(r["type"] == "create_flow" and r["new_name"] for r in hist):
        st.append("renamed_flow")
    if any(r["type"] == "create_flow" and r["data_sheet"] and not r["data_row_id"] for r in hist):
        st.append("bulk_flow")
    cp = [keyf(r) for r in hist if r["type"] == "create_campaign"]
    if len(set(cp)) < len(cp):
        st.append("duplicate_campaign_definition")
    tg = [r["sheet_name"][0] for r in hist if r["type"] == "create_triggers"]
    if len(set(tg)) < len(tg):
        st.append("duplicate_trigger_definition")
    td = [r["sheet_name"][0] for r in hist if r["type"] == "template_definition"]
    if len(set(td)) < len(td):
        st.append("duplicate_template_definition")
    names = [n for wb in case["workbooks"] for n, _ in wb]
    if len(set(names)) < len(names):
        st.append("sheet_name_in_several_workbooks")
    wbs = [dict(wb) for wb in case["workbooks"]]
    used = {r["sheet_name"][0] for r in hist if r["type"] in ("create_flow", "create_campaign", "create_triggers", "template_definition")}
    if any(n not in wbs[-1] and sum(n in wb for wb in wbs) >= 1 for n in used):
        st.append("active_copy_not_in_last_workbook")
    if any(sum(n in wb for wb in wbs) >= 2 for n in used):
        st.append("used_sheet_has_several_copies")
    return st


def pad_strata(allrows, active) -> set:
    """which raw spellings of index cells the case exercises (cells with surrounding whitespace); active = ids of the
    rows in effect (reached, not draft, passing the tag filter)"""
    st = set()
    for r in allrows:
        for col, (left, right) in r.get("pad", {}).items():
            st.add("padded_cell")
            st.add("padded_cell.column." + col)
            values = {"type": r["type"], "sheet_name": ";".join(r["sheet_name"]), "new_name": r["new_name"], "data_sheet": r["data_sheet"],
                      "data_row_id": r["data_row_id"], "group": r["group"], "status": r["status"], "tags.1": r["tags"][0], "tags.2": r["tags"][1]}
            st.add("padded_cell.text" if values[col] else "padded_cell.whitespace_only")
            if left:
                st.add("padded_cell.leading")
            if right:
                st.add("padded_cell.trailing")
            for ch in left + right:
                st.add("padded_cell.ws." + ("space" if ch == " " else "ascii_control" if ord(ch) < 128 else "unicode"))
            if col == "type" and r["type"] == "template_definition" and r.get("tpl_args"):
                st.add("padded_cell.type_of_template_definition_with_arguments(F-C10-a)" + (".row_in_effect" if id(r) in active else ""))
            if col in ("status", "tags.1", "tags.2") and values[col]:
                # the cell decides whether the row is in effect
                st.add("padded_cell.on_row_filter." + ("row_in_effect" if id(r) in active else "row_not_in_effect"))
            st.add("padded_cell.row_in_effect" if id(r) in active else "padded_cell.row_not_in_effect")
    return st


def worker(args):
    seeds, malformed, file_modes_every = args
    drv = core.Driver()
    cases = [gen_case(random.Random(s), malformed) for s in seeds]
    answers = drv.results([model_request(c) for c in cases])
    tmp = tempfile.mkdtemp(prefix="c10w_")
    out = {"cases": 0, "ties": [], "nties": 0, "viol": [], "nviol": 0, "strata": {}, "keys": [], "sample": None}
    try:
        for i, (c, a) in enumerate(zip(cases, answers)):
            if isinstance(a, dict) and "__error__" in a:
                out["ties"].append({"case": c, "driver_error": a["__error__"]})
                out["nties"] += 1
                continue
            modes = ["mem"]
            if file_modes_every and i % file_modes_every == 0:
                modes += [["csv", "json", "xlsx"][(i // file_modes_every) % 3]]
            r = run_case(c, a, modes, tmp)
            out["cases"] += 1
            out["nties"] += len(r["ties"])
            out["nviol"] += len(r["viol"])
            out["ties"] += r["ties"][: max(0, 4 - len(out["ties"]))]
            out["viol"] += r["viol"][: max(0, 4 - len(out["viol"]))]
            for s in r["strata"]:
                out["strata"][s] = out["strata"].get(s, 0) + 1
            out["keys"].append(json.dumps(c, sort_keys=True))
            if out["sample"] is None and len(c["workbooks"]) >= 2:
                out["sample"] = c
    finally:
        shutil.rmtree(tmp, ignore_errors=True)
    return out


# ------------------------------------------------------------------ shrinking


def check_one(case):
    drv = core.Driver()
    a = drv.results([model_request(case)])[0]
    tmp = tempfile.mkdtemp(prefix="c10s_")
    try:
        r = run_case(case, a, ["mem"], tmp)
    finally:
        shutil.rmtree(tmp, ignore_errors=True)
    return r


def shrink(v, budget=80):
    case = json.loads(json.dumps(v["case"]))
    best = v

    def fails(c):
        nonlocal budget
        if budget <= 0:
            return None
        budget -= 1
        try:
            r = check_one(c)
        except Exception:  # noqa: BLE001
            return None
        return r["viol"][0] if r["viol"] and r["viol"][0]["what"] == v["what"] else None

    changed = True
    while changed and budget > 0:
        changed = False
        for wi, wb in enumerate(case["workbooks"]):
            for si, (n, sh) in enumerate(wb):
                if "rows" not in sh:
                    continue
                for ri in range(len(sh["rows"]) - 1, -1, -1):
                    c = json.loads(json.dumps(case))
                    del c["workbooks"][wi][si][1]["rows"][ri]
                    r = fails(c)
                    if r:
                        case, best, changed = c, r, True
                        break
                if changed:
                    break
            if changed:
                break
        if not changed and case["tags"]:
            c = json.loads(json.dumps(case))
            c["tags"] = []
            r = fails(c)
            if r:
                case, best, changed = c, r, True
    # raw spellings: drop the surrounding whitespace cell by cell where the failure does not need it
    for wi, wb in enumerate(case["workbooks"]):
        for si, (n, sh) in enumerate(wb):
            for ri, row in enumerate(sh.get("rows", [])):
                for col in list(row.get("pad", {})):
                    c = json.loads(json.dumps(case))
                    rr = c["workbooks"][wi][si][1]["rows"][ri]
                    del rr["pad"][col]
                    if not rr["pad"]:
                        del rr["pad"]
                    r = fails(c)
                    if r:
                        case, best = c, r
    return best


# ------------------------------------------------------------------ run

REQUIRED_STRATA = [
    "workbooks.1", "workbooks.4", "active_row.create_flow", "active_row.template_definition", "active_row.create_campaign",
    "active_row.create_triggers", "active_row.ignore_row", "active_row.data_sheet", "active_row.bogus", "draft_row",
    "tag_filter.none", "tag_filter.drops_rows", "nested_index", "several_top_level_indexes", "ignore.after_definition",
    "ignore.before_definition", "ignore.between_definitions", "ignore.names_a_template", "ignore.sheet_name_of_renamed_flow",
    "duplicate_flow_definition", "renamed_flow", "bulk_flow", "duplicate_campaign_definition", "duplicate_trigger_definition",
    "duplicate_template_definition", "sheet_name_in_several_workbooks", "active_copy_not_in_last_workbook",
    "used_sheet_has_several_copies", "mode.mem", "mode.csv", "mode.json",
    "padded_cell.text", "padded_cell.whitespace_only", "padded_cell.leading", "padded_cell.trailing", "padded_cell.ws.space",
    "padded_cell.ws.ascii_control", "padded_cell.ws.unicode", "padded_cell.on_row_filter.row_in_effect",
    "padded_cell.on_row_filter.row_not_in_effect", "padded_cell.row_in_effect", "padded_cell.row_not_in_effect",
    "padded_cell.type_of_template_definition_with_arguments(F-C10-a).row_in_effect",
] + ["padded_cell.column." + c for c in PAD_COLS]


def _fold(ck, results, kind):
    for r in results:
        ck.count(kind + ".cases", r["cases"])
        ck.evaluations += r["cases"]
        ck.nontrivial.update(r["keys"])
        for s, c in r["strata"].items():
            ck.count(s, c)
        for t in r["ties"]:
            ck.tie_break(f"{kind}: model and real ContentIndexParser differ", t)
        for _ in range(r["nties"] - len(r["ties"])):
            ck.count("tie_break")
        for v in r["viol"]:
            ck.violation(v["what"], v)
        if r["sample"] is not None and len(ck.samples) < 3:
            ck.samples.append(r["sample"])


def run(ck: core.Check):
    ck.lean = core.lean_step("C10", thorough=(ck.tier == "thorough"))
    ck.rule = (
        "a case = 1-4 workbooks holding random subsets of 15 content sheets (4+2 flow templates, 2 data sheets, 2 campaign, "
        "2 trigger sheets, anchor; every copy has its own provenance number in its content), 1-3 nested index sheets (acyclic, "
        "copies in several workbooks), a content_index in 1..all workbooks with 0-9 random rows each (all 7 row types + an invalid "
        "one, renames, duplicates, ignore rows, draft/released status, two tag columns) and one of 15 tag-filter settings; "
        "in every second case about one index row in seven carries surrounding whitespace (1-3 characters of the 29 that str.strip removes, ASCII and "
        "Unicode, leading / trailing / both; a padded blank cell is whitespace-only) in some of its type / sheet_name / new_name / "
        "data_sheet / data_row_id / group / status / tags cells — the meaning of a cell is its trimmed text; "
        "non-trivial = every case (each has ≥ 4 active rows); distinct = distinct JSON of the case"
    )
    ck.assumptions = [
        "sheet contents are abstracted to their provenance; what a flow/campaign/trigger sheet compiles to is outside this property",
        "CPython dict / list semantics as modelled in Rpft/Dict.lean (exercised by the tie on every case)",
        "nesting depth bounded by fuel 40 in the driver (generated nesting ≤ 4); cyclic indexes not generated",
    ]
    ck.partial_gap = [
        "last_wins_* / flow_rows_spec are stated for flat histories (runFlat); process_filter_active, nested_inline and flat_process reduce any history to a flat one step by step, the composed normal-form theorem is not stated",
    ]
    if not core.DRIVER_BIN.exists():
        raise core.Infra("driver not built:\n" + ck.lean.log[-2000:])
    import rpft.parsers.creation.contentindexparser  # noqa: F401

    if [c for c in map(chr, range(0x110000)) if c.isspace()] != PY_WS or any(c.strip() for c in PY_WS):
        raise core.Infra("generator self-check: PY_WS is not what this interpreter's str.strip() removes")

    quick = ck.tier == "quick"
    n_valid = 8000 if quick else 60000
    n_bad = 800 if quick else 6000
    seeds = [ck.rng.getrandbits(48) for _ in range(n_valid)]
    _fold(ck, par.pmap(worker, [(s, False, 12 if quick else 6) for s in core.shard(seeds, par.NPROC * 4)]), "histories")
    bseeds = [ck.rng.getrandbits(48) for _ in range(n_bad)]
    _fold(ck, par.pmap(worker, [(s, True, 0) for s in core.shard(bseeds, par.NPROC)]), "malformed")

    # tag matcher grammar on its own: every setting × every tag row, exhaustively
    drv = core.Driver()
    from rpft.parsers.creation.tagmatcher import TagMatcher

    rows = [[a, b] for a in ["", "foo", "bar", "baz", "1a"] for b in ["", "foo", "bar", "qux"]] + [[], ["foo"], ["", "", "zzz"]]
    settings = TAG_SETTINGS + [["foo"], ["1", "2", "bar"], ["2", "bar", "1", "foo", "2", "qux"], ["00", "foo"], ["10", "x"]]
    reqs = [{"op": "index.tagmatch", "tags": s, "row": r} for s in settings for r in rows]
    ans = drv.results(reqs)
    for q, a in zip(reqs, ans):
        try:
            real = TagMatcher(q["tags"]).matches(q["row"])
        except ValueError:
            real = {"err": "tagValueError"}
        ck.count("tagmatcher.cases")
        if real != a:
            ck.tie_break("TagMatcher differs from the model", {"params": q["tags"], "row_tags": q["row"], "real": real, "model": a})

    missing = [s for s in REQUIRED_STRATA if not ck.strata.get(s)]
    if missing:
        raise core.Infra(f"generator self-check: strata never hit: {missing}")

    if (ck.tie_breaks or not ck.lean.ok) and not ck.violations and quick:
        ck.search_ran = True
        seeds = [ck.rng.getrandbits(48) for _ in range(12000)]
        _fold(ck, par.pmap(worker, [(s, False, 6) for s in core.shard(seeds, par.NPROC * 4)]), "search")

    if ck.violations:
        ck.violations.sort(key=lambda x: len(json.dumps(x["replay"], default=str)))
        try:
            v = ck.violations[0]["replay"]
            if "case" in v and v.get("mode") == "mem":
                small = shrink(v)
                ck.violations.insert(0, {"what": small["what"], "replay": small})
        except Exception as e:  # noqa: BLE001
            ck.notes.append(f"shrink failed: {e!r}")


def replay(path):
    rec = json.load(open(path))
    print(json.dumps(rec, indent=1, ensure_ascii=False)[:8000])
    rp = rec.get("replay", {})
    case = rp.get("case")
    if not case and rec.get("smallest_disagreements"):
        case = rec["smallest_disagreements"][0]["detail"].get("case")
    if case:
        tmp = tempfile.mkdtemp(prefix="c10r_")
        try:
            mode = rp.get("mode", "mem")
            real = real_run(case, mode, tmp)
            print("--- real code:", json.dumps({k: real.get(k) for k in ("exc", "exc_text", "flows", "campaigns", "triggers", "errors", "state")}))
            if "malformed" not in case:
                ref = ref_interpret(case)
                print("--- statement:", json.dumps({k: ref[k] for k in ("flows", "campaigns", "triggers", "errors", "templates", "data")}))
                r = check_one(case)
                print("direct oracle:", r["viol"][0]["what"] if r["viol"] else "no failure")
                return 1 if r["viol"] else 0
        finally:
            shutil.rmtree(tmp, ignore_errors=True)
    return 0
